//! Evidence writer, known-findings matcher, replay files, exit codes.

use std::collections::BTreeMap;
use std::path::PathBuf;
use std::time::Instant;

use serde_json::{json, Map, Value};

pub(crate) fn verif_root() -> PathBuf {
    PathBuf::from(
        std::env::var("VERIF_ROOT").unwrap_or_else(|_| {
            format!("{}/..", env!("CARGO_MANIFEST_DIR"))
        }),
    )
}

#[derive(Clone, Debug)]
pub(crate) struct Violation {
    /// stable identification of *what* fails (matched against known_findings.json)
    pub signature: String,
    pub detail: String,
    pub replay: Value,
}

pub(crate) struct Report {
    pub id: String,
    pub tier: String,
    pub seed: u64,
    pub level: String,
    pub started: Instant,
    pub coverage: Map<String, Value>,
    pub assumptions: Vec<String>,
    pub violations: Vec<Violation>,
    pub samples: Vec<Value>,
    pub counters: BTreeMap<String, u64>,
    pub caps_hit: Vec<String>,
    pub exhaustive: bool,
}

impl Report {
    pub(crate) fn new(id: &str, tier: &str, seed: u64) -> Report {
        Report {
            id: id.to_owned(),
            tier: tier.to_owned(),
            seed,
            level: "model_checking".to_owned(),
            started: Instant::now(),
            coverage: Map::new(),
            assumptions: vec![],
            violations: vec![],
            samples: vec![],
            counters: BTreeMap::new(),
            caps_hit: vec![],
            exhaustive: true,
        }
    }

    pub(crate) fn count(&mut self, key: &str, n: u64) {
        *self.counters.entry(key.to_owned()).or_insert(0) += n;
    }
    pub(crate) fn get(&self, key: &str) -> u64 {
        self.counters.get(key).copied().unwrap_or(0)
    }
    pub(crate) fn sample(&mut self, v: Value) {
        if self.samples.len() < 6 {
            self.samples.push(v);
        }
    }
    pub(crate) fn set(&mut self, key: &str, v: Value) {
        self.coverage.insert(key.to_owned(), v);
    }
    pub(crate) fn assume(&mut self, s: &str) {
        self.assumptions.push(s.to_owned());
    }
    pub(crate) fn cap(&mut self, s: &str) {
        self.exhaustive = false;
        self.caps_hit.push(s.to_owned());
    }
    pub(crate) fn violation(&mut self, signature: String, detail: String, replay: Value) {
        // one entry per signature is enough (the first is the shortest by construction)
        if self.violations.iter().any(|v| v.signature == signature) {
            self.count("violations_duplicates", 1);
            return;
        }
        self.violations.push(Violation {
            signature,
            detail,
            replay,
        });
    }

    /// Serialises what a worker process found (see `props::shard`).
    pub(crate) fn to_shard_json(&self) -> Value {
        json!({
            "counters": self.counters,
            "coverage": self.coverage,
            "violations": self.violations.iter().map(|v| json!({"signature": v.signature, "detail": v.detail, "replay": v.replay})).collect::<Vec<_>>(),
            "samples": self.samples,
            "caps_hit": self.caps_hit,
            "exhaustive": self.exhaustive,
            "assumptions": self.assumptions,
        })
    }

    pub(crate) fn merge_shard(&mut self, v: &Value) {
        if let Some(c) = v["counters"].as_object() {
            for (k, n) in c {
                self.count(k, n.as_u64().unwrap_or(0));
            }
        }
        if let Some(c) = v["coverage"].as_object() {
            for (k, val) in c {
                match (self.coverage.get(k).and_then(|x| x.as_u64()), val.as_u64()) {
                    (Some(a), Some(b)) => {
                        self.coverage.insert(k.clone(), json!(a + b));
                    }
                    _ => {
                        if !self.coverage.contains_key(k) {
                            self.coverage.insert(k.clone(), val.clone());
                        }
                    }
                }
            }
        }
        if let Some(vs) = v["violations"].as_array() {
            for it in vs {
                self.violation(
                    it["signature"].as_str().unwrap_or("?").to_owned(),
                    it["detail"].as_str().unwrap_or("").to_owned(),
                    it["replay"].clone(),
                );
            }
        }
        if let Some(ss) = v["samples"].as_array() {
            for s in ss {
                self.sample(s.clone());
            }
        }
        if let Some(cs) = v["caps_hit"].as_array() {
            for c in cs {
                if let Some(c) = c.as_str() {
                    self.cap(c);
                }
            }
        }
        if let Some(a) = v["assumptions"].as_array() {
            for x in a {
                if let Some(x) = x.as_str() {
                    if !self.assumptions.iter().any(|y| y == x) {
                        self.assumptions.push(x.to_owned());
                    }
                }
            }
        }
    }

    /// Replay of a recorded violation: the enumeration of the same tier was re-executed on the
    /// current tree; the verdict is whether the recorded signature occurs again (for the same
    /// recorded case, when the replay payloads can be compared). Evidence and the other replay
    /// files are left alone.
    pub(crate) fn finish_replay(self, file: &str) -> i32 {
        let text = match std::fs::read_to_string(file) {
            Ok(t) => t,
            Err(e) => {
                eprintln!("cannot read replay file {}: {}", file, e);
                return 2;
            }
        };
        let v: Value = match serde_json::from_str(&text) {
            Ok(v) => v,
            Err(e) => {
                eprintln!("replay file {} is not JSON: {}", file, e);
                return 2;
            }
        };
        if v["property"].as_str() != Some(self.id.as_str()) {
            eprintln!("replay file {} is for property {:?}, not {}", file, v["property"], self.id);
            return 2;
        }
        let sig = v["signature"].as_str().unwrap_or("").to_owned();
        let hits: Vec<&Violation> = self.violations.iter().filter(|x| x.signature == sig).collect();
        let same_case = hits.iter().any(|x| x.replay == v["replay"]);
        println!(
            "REPLAY {} {}: signature `{}`: {} occurrence(s) on the current tree{}",
            self.id,
            self.tier,
            sig,
            hits.len(),
            if same_case { ", incl. the recorded case itself" } else { "" }
        );
        if let Some(h) = hits.first() {
            println!("VIOLATION property={} replay={}", self.id, file);
            println!("  signature: {}", h.signature);
            println!("  detail: {}", h.detail);
            1
        } else {
            println!("not reproduced: the recorded violation does not occur on the current tree");
            0
        }
    }

    /// Writes evidence and replay files, prints KNOWN-FINDING / VIOLATION lines, returns exit code.
    pub(crate) fn finish(mut self) -> i32 {
        let root = verif_root();
        let known = load_known(&root);
        let mut new_violations = 0;
        let mut known_hits = 0;
        let replay_dir = root.join("replays").join(&self.id);
        // replay files of earlier runs of this tier are stale
        if let Ok(rd) = std::fs::read_dir(&replay_dir) {
            for e in rd.flatten() {
                if e.file_name().to_string_lossy().starts_with(&format!("{}-", self.tier)) {
                    let _ = std::fs::remove_file(e.path());
                }
            }
        }
        for (i, v) in self.violations.iter().enumerate() {
            let entry = known.iter().find(|k| {
                k.property == self.id && k.status == "known" && v.signature == k.signature
            });
            if let Some(k) = entry {
                println!(
                    "KNOWN-FINDING: property={} {} [{}]",
                    self.id, k.description, v.signature
                );
                known_hits += 1;
            } else {
                let _ = std::fs::create_dir_all(&replay_dir);
                let path = replay_dir.join(format!("{}-{}.json", self.tier, i));
                let body = json!({
                    "property": self.id,
                    "signature": v.signature,
                    "detail": v.detail,
                    "replay": v.replay,
                });
                std::fs::write(&path, serde_json::to_string_pretty(&body).unwrap())
                    .expect("write replay");
                println!("VIOLATION property={} replay={}", self.id, path.display());
                println!("  signature: {}", v.signature);
                println!("  detail: {}", v.detail);
                new_violations += 1;
            }
        }
        let wall = self.started.elapsed().as_secs_f64();
        let mut coverage = std::mem::take(&mut self.coverage);
        for (k, v) in &self.counters {
            if !coverage.contains_key(k) {
                coverage.insert(k.clone(), json!(v));
            }
        }
        if self.samples.is_empty() {
            self.samples.push(json!("(no sample recorded)"));
        }
        coverage.insert("samples".into(), Value::Array(self.samples.clone()));
        coverage.insert("exhaustive".into(), json!(self.exhaustive));
        coverage.insert("caps_hit".into(), json!(self.caps_hit));
        coverage.insert("known_findings_reported".into(), json!(known_hits));
        let evidence = json!({
            "property_id": self.id,
            "tier": self.tier,
            "seed": self.seed,
            "level": self.level,
            "coverage": coverage,
            "assumptions": self.assumptions,
            "wall_s": wall,
            "violations": new_violations,
        });
        let dir = root.join("evidence");
        let _ = std::fs::create_dir_all(&dir);
        std::fs::write(
            dir.join(format!("{}.json", self.id)),
            serde_json::to_string_pretty(&evidence).unwrap(),
        )
        .expect("write evidence");
        println!(
            "{} {}: wall={:.1}s violations={} known={} exhaustive={} {}",
            self.id,
            self.tier,
            wall,
            new_violations,
            known_hits,
            self.exhaustive,
            self.counters
                .iter()
                .map(|(k, v)| format!("{}={}", k, v))
                .collect::<Vec<_>>()
                .join(" ")
        );
        if new_violations > 0 {
            1
        } else {
            0
        }
    }
}

pub(crate) struct Known {
    pub property: String,
    pub status: String,
    pub signature: String,
    pub description: String,
}

pub(crate) fn load_known(root: &std::path::Path) -> Vec<Known> {
    let path = root.join("known_findings.json");
    let text = match std::fs::read_to_string(&path) {
        Ok(t) => t,
        Err(_) => return vec![],
    };
    let v: Value = serde_json::from_str(&text).expect("known_findings.json is valid JSON");
    let mut out = vec![];
    if let Some(items) = v.get("findings").and_then(|f| f.as_array()) {
        for it in items {
            out.push(Known {
                property: it["property"].as_str().unwrap_or("").to_owned(),
                status: it["status"].as_str().unwrap_or("known").to_owned(),
                signature: it["signature"].as_str().unwrap_or("\u{0}").to_owned(),
                description: it["description"].as_str().unwrap_or("").to_owned(),
            });
        }
    }
    out
}

pub(crate) fn hex(bytes: &[u8]) -> String {
    let mut s = String::with_capacity(bytes.len() * 2);
    for b in bytes {
        s.push_str(&format!("{:02x}", b));
    }
    s
}
