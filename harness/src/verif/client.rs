//! The real client: real Storage on a RocksDB directory, real Peers, real protocol handlers and
//! RPC implementations, wired to a recording network context.

use std::path::{Path, PathBuf};
use std::sync::atomic::{AtomicU64, Ordering};
use std::sync::{Arc, RwLock};

use ckb_chain_spec::consensus::Consensus;
use ckb_network::{bytes::Bytes, CKBProtocolHandler, PeerIndex, SupportProtocols};
use ckb_types::prelude::*;

use crate::protocols::{
    FilterProtocol, LightClientProtocol, Peers, PendingTxs, RelayProtocol, SyncProtocol,
};
use crate::service::{BlockFilterRpcImpl, ChainRpcImpl, TransactionRpcImpl};
use crate::storage::{Storage, StorageWithChainData};
use crate::verif::net::{as_nc, Ctx, Outbox};

pub(crate) fn set_now(now: u64) {
    let guard = ckb_systemtime::faketime();
    guard.set_faketime(now);
    std::mem::forget(guard);
}

pub(crate) fn now() -> u64 {
    ckb_systemtime::unix_time_as_millis()
}

static DIR_COUNTER: AtomicU64 = AtomicU64::new(0);

pub(crate) fn tmp_root() -> PathBuf {
    let root = std::env::var("VERIF_TMP")
        .map(PathBuf::from)
        .unwrap_or_else(|_| PathBuf::from(format!("/dev/shm/lcverif-{}", std::process::id())));
    std::fs::create_dir_all(&root).expect("create tmp root");
    root
}

pub(crate) fn fresh_dir() -> PathBuf {
    let n = DIR_COUNTER.fetch_add(1, Ordering::SeqCst);
    let dir = tmp_root().join(format!("db-{}", n));
    let _ = std::fs::remove_dir_all(&dir);
    dir
}

pub(crate) fn cleanup_tmp_root() {
    let _ = std::fs::remove_dir_all(tmp_root());
}

fn copy_dir(from: &Path, to: &Path) {
    std::fs::create_dir_all(to).expect("mkdir");
    for entry in std::fs::read_dir(from).expect("read_dir") {
        let entry = entry.expect("entry");
        let ty = entry.file_type().expect("type");
        if ty.is_file() {
            if entry.file_name() == "LOCK" {
                continue;
            }
            std::fs::copy(entry.path(), to.join(entry.file_name())).expect("copy");
        }
    }
}

#[derive(Clone, Debug)]
pub(crate) struct ClientCfg {
    pub last_n: u64,
    pub max_outbound: u32,
    pub cp_interval: u64,
    pub mmr_activated_epoch: u64,
    pub blocks_in_transit: usize,
    pub pending_limit: usize,
}

impl Default for ClientCfg {
    fn default() -> Self {
        ClientCfg {
            last_n: 3,
            max_outbound: 1,
            cp_interval: 4,
            mmr_activated_epoch: 0,
            blocks_in_transit: 16,
            pending_limit: 64,
        }
    }
}

pub(crate) struct Client {
    pub cfg: ClientCfg,
    pub consensus: Arc<Consensus>,
    pub dir: PathBuf,
    pub storage: Storage,
    pub peers: Arc<Peers>,
    pub pending: Arc<RwLock<PendingTxs>>,
    pub lc: LightClientProtocol,
    pub fp: FilterProtocol,
    pub sp: SyncProtocol,
    pub relay: RelayProtocol,
    pub out: Arc<Outbox>,
    pub ctx_lc: Arc<Ctx>,
    pub ctx_f: Arc<Ctx>,
    pub ctx_s: Arc<Ctx>,
    pub ctx_r: Arc<Ctx>,
    pub rt: ckb_network::tokio::runtime::Runtime,
    pub keep_dir: bool,
}

/// A template store (genesis initialised) per consensus, copied for every fresh client: cheaper
/// than `init_genesis_block` and byte-identical every time.
pub(crate) struct Template {
    pub dir: PathBuf,
    /// complete key space of the freshly initialised store
    pub dump: Vec<(Vec<u8>, Vec<u8>)>,
}

impl Template {
    pub(crate) fn new(consensus: &Consensus) -> Template {
        let dir = fresh_dir();
        let dump;
        {
            let storage = Storage::new(&dir);
            storage.init_genesis_block(consensus.genesis_block().data());
            {
                use rocksdb::ops::Flush;
                storage.db.flush().expect("flush");
            }
            use rocksdb::{ops::Iterate, IteratorMode};
            dump = storage
                .db
                .iterator(IteratorMode::Start)
                .map(|(k, v)| (k.to_vec(), v.to_vec()))
                .collect();
        }
        Template { dir, dump }
    }
}

impl Client {
    /// start-up sequence of `subcmds.rs` on `dir` (which may already contain a store)
    pub(crate) fn open(cfg: ClientCfg, consensus: Arc<Consensus>, dir: PathBuf) -> Client {
        let storage = Storage::new(&dir);
        Client::assemble(cfg, consensus, dir, storage)
    }

    /// Brings this client back to "freshly started on a new store" without touching the file
    /// system: the key space is rewritten to the template's and every in-memory object is rebuilt.
    pub(crate) fn recycle(mut self, cfg: ClientCfg, template: &Template) -> Client {
        self.keep_dir = true;
        let consensus = Arc::clone(&self.consensus);
        let dir = self.dir.clone();
        let storage = self.storage.clone();
        drop(self);
        {
            use rocksdb::{ops::GetPinned, ops::Iterate, ops::WriteOps, IteratorMode, WriteBatch};
            let mut wb = WriteBatch::default();
            let template_keys: std::collections::HashSet<&[u8]> =
                template.dump.iter().map(|(k, _)| k.as_slice()).collect();
            for (k, v) in storage.db.iterator(IteratorMode::Start) {
                if !template_keys.contains(&k[..]) {
                    wb.delete(&k).expect("delete");
                } else if k.len() < 64 {
                    let _ = v;
                }
            }
            for (k, v) in &template.dump {
                // the big genesis transactions never change: rewrite only small records
                if v.len() <= 4096 {
                    wb.put(k, v).expect("put");
                } else if storage.db.get_pinned(k).expect("get").map(|cur| &cur[..] != &v[..]).unwrap_or(true) {
                    wb.put(k, v).expect("put");
                }
            }
            storage.db.write(&wb).expect("write");
        }
        Client::assemble(cfg, consensus, dir, storage)
    }

    fn assemble(cfg: ClientCfg, consensus: Arc<Consensus>, dir: PathBuf, storage: Storage) -> Client {
        storage.init_genesis_block(consensus.genesis_block().data());
        let pending = Arc::new(RwLock::new(PendingTxs::new(cfg.pending_limit)));
        let peers = Arc::new(Peers::new(
            cfg.max_outbound,
            cfg.cp_interval,
            storage.get_last_check_point(),
        ));
        let sp = SyncProtocol::new(storage.clone(), Arc::clone(&peers));
        let relay = RelayProtocol::new(
            Arc::clone(&pending),
            Arc::clone(&peers),
            (*consensus).clone(),
            storage.clone(),
            false,
        );
        let mut lc =
            LightClientProtocol::new(storage.clone(), Arc::clone(&peers), (*consensus).clone());
        lc.set_last_n_blocks(cfg.last_n);
        lc.set_mmr_activated_epoch(cfg.mmr_activated_epoch);
        lc.set_init_blocks_in_transit_per_peer(cfg.blocks_in_transit);
        let fp = FilterProtocol::new(storage.clone(), Arc::clone(&peers));
        let out = Arc::new(Outbox::default());
        let rt = ckb_network::tokio::runtime::Builder::new_current_thread()
            .build()
            .expect("runtime");
        Client {
            cfg,
            consensus,
            dir,
            storage,
            peers,
            pending,
            lc,
            fp,
            sp,
            relay,
            ctx_lc: Ctx::new(SupportProtocols::LightClient, Arc::clone(&out)),
            ctx_f: Ctx::new(SupportProtocols::Filter, Arc::clone(&out)),
            ctx_s: Ctx::new(SupportProtocols::Sync, Arc::clone(&out)),
            ctx_r: Ctx::new(SupportProtocols::RelayV2, Arc::clone(&out)),
            out,
            rt,
            keep_dir: false,
        }
    }

    pub(crate) fn fresh(cfg: ClientCfg, consensus: Arc<Consensus>, template: &Template) -> Client {
        let dir = fresh_dir();
        copy_dir(&template.dir, &dir);
        Client::open(cfg, consensus, dir)
    }

    /// Drops every in-memory object and runs the start-up sequence again on the same directory.
    pub(crate) fn restart(mut self) -> Client {
        self.keep_dir = true;
        let cfg = self.cfg.clone();
        let consensus = Arc::clone(&self.consensus);
        let dir = self.dir.clone();
        drop(self);
        Client::open(cfg, consensus, dir)
    }

    pub(crate) fn connect(&mut self, p: PeerIndex) {
        let nc = as_nc(&self.ctx_lc);
        self.rt.block_on(self.lc.connected(nc, p, "v"));
    }
    pub(crate) fn disconnect(&mut self, p: PeerIndex) {
        let nc = as_nc(&self.ctx_lc);
        self.rt.block_on(self.lc.disconnected(nc, p));
        let nc = as_nc(&self.ctx_r);
        self.rt.block_on(self.relay.disconnected(nc, p));
    }
    pub(crate) fn recv_lc(&mut self, p: PeerIndex, data: Bytes) {
        let nc = as_nc(&self.ctx_lc);
        self.rt.block_on(self.lc.received(nc, p, data));
    }
    pub(crate) fn recv_filter(&mut self, p: PeerIndex, data: Bytes) {
        let nc = as_nc(&self.ctx_f);
        self.rt.block_on(self.fp.received(nc, p, data));
    }
    pub(crate) fn recv_sync(&mut self, p: PeerIndex, data: Bytes) {
        let nc = as_nc(&self.ctx_s);
        self.rt.block_on(self.sp.received(nc, p, data));
    }
    pub(crate) fn recv_relay(&mut self, p: PeerIndex, data: Bytes) {
        let nc = as_nc(&self.ctx_r);
        self.rt.block_on(self.relay.received(nc, p, data));
    }
    pub(crate) fn relay_connect(&mut self, p: PeerIndex) {
        let nc = as_nc(&self.ctx_r);
        self.rt.block_on(self.relay.connected(nc, p, "v"));
    }
    pub(crate) fn tick_relay(&mut self) {
        let nc = as_nc(&self.ctx_r);
        self.rt.block_on(self.relay.notify(nc, 0));
    }
    /// token: 0 refresh peers, 1 fetch headers/txs, 2 idle blocks
    pub(crate) fn tick_lc(&mut self, token: u64) {
        let nc = as_nc(&self.ctx_lc);
        self.rt.block_on(self.lc.notify(nc, token));
    }
    /// token: 0 block filters, 1 filter hashes, 2 check points. `elapsed`: whether the 15 s
    /// `GET_BLOCK_FILTERS_TIMEOUT` since the last request has passed (an `Instant` the harness owns).
    pub(crate) fn tick_filter(&mut self, token: u64, elapsed: bool) {
        if elapsed {
            *self.fp.last_ask_time.write().unwrap() = None;
        } else {
            *self.fp.last_ask_time.write().unwrap() = Some(std::time::Instant::now());
        }
        let nc = as_nc(&self.ctx_f);
        self.rt.block_on(self.fp.notify(nc, token));
    }

    pub(crate) fn swc(&self) -> StorageWithChainData {
        StorageWithChainData::new(
            self.storage.clone(),
            Arc::clone(&self.peers),
            Arc::clone(&self.pending),
        )
    }
    pub(crate) fn rpc_filter(&self) -> BlockFilterRpcImpl {
        BlockFilterRpcImpl { swc: self.swc() }
    }
    pub(crate) fn rpc_chain(&self) -> ChainRpcImpl {
        ChainRpcImpl {
            swc: self.swc(),
            consensus: Arc::clone(&self.consensus),
        }
    }
    pub(crate) fn rpc_tx(&self) -> TransactionRpcImpl {
        TransactionRpcImpl {
            swc: self.swc(),
            consensus: Arc::clone(&self.consensus),
        }
    }

    /// Sorted dump of the whole key space.
    pub(crate) fn db_dump(&self) -> Vec<(Vec<u8>, Vec<u8>)> {
        use rocksdb::{ops::Iterate, IteratorMode};
        self.storage
            .db
            .iterator(IteratorMode::Start)
            .map(|(k, v)| (k.to_vec(), v.to_vec()))
            .collect()
    }

    pub(crate) fn db_hash(&self) -> [u8; 32] {
        let mut hasher = ckb_hash::new_blake2b();
        for (k, v) in self.db_dump() {
            hasher.update(&(k.len() as u32).to_le_bytes());
            hasher.update(&k);
            hasher.update(&(v.len() as u32).to_le_bytes());
            hasher.update(&v);
        }
        let mut out = [0u8; 32];
        hasher.finalize(&mut out);
        out
    }

    pub(crate) fn peers_dump(&self) -> String {
        self.peers.verif_dump(now())
    }

    /// Fingerprint of persistent store + complete peer state (ages, not absolute times).
    pub(crate) fn fingerprint(&self) -> [u8; 32] {
        let mut hasher = ckb_hash::new_blake2b();
        hasher.update(&self.db_hash());
        hasher.update(self.peers_dump().as_bytes());
        let pending = self.pending.read().unwrap();
        let _ = &pending;
        let mut out = [0u8; 32];
        hasher.finalize(&mut out);
        out
    }

    /// Cheap change detector: complete peer state (timestamps as raw values) plus the small
    /// meta records of the store (not the indexed data).
    pub(crate) fn light_print(&self) -> String {
        let mut s = self.peers.verif_dump(0);
        let (td, tip) = self.storage.get_last_state();
        s.push_str(&format!(
            "tip={:#x} td={:#x} min_filtered={} max_cp={} lastn={:?} earliest_matched={:?}\n",
            tip.calc_header_hash(),
            td,
            self.storage.get_min_filtered_block_number(),
            self.storage.get_max_check_point_index(),
            self.storage
                .get_last_n_headers()
                .iter()
                .map(|(n, h)| format!("{}:{:#x}", n, h))
                .collect::<Vec<_>>(),
            self.storage
                .get_earliest_matched_blocks()
                .map(|(a, b, c)| (a, b, c.len())),
        ));
        for ss in self.storage.get_filter_scripts() {
            s.push_str(&format!("script {:#x} {}\n", ss.script.calc_script_hash(), ss.block_number));
        }
        s
    }

    pub(crate) fn tip_number(&self) -> u64 {
        self.storage.get_tip_header().raw().number().unpack()
    }
}

impl Drop for Client {
    fn drop(&mut self) {
        if !self.keep_dir {
            let _ = std::fs::remove_dir_all(&self.dir);
        }
    }
}
