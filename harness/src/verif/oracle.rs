//! Reference index (RefIndex): a plain replay of the canonical chain giving, per script, the live
//! cells and the history entries, used as a three-valued oracle (must / may / must-not) for the
//! answers of get_cells, get_transactions, get_cells_capacity, get_scripts.

use std::collections::{BTreeMap, HashMap};

use ckb_types::{
    packed::{self, OutPoint, Script},
    prelude::*,
};
use serde_json::Value;

use crate::service::{BlockFilterRpc, Order, ScriptType as RpcScriptType, SearchKey};
use crate::storage::ScriptType;
use crate::verif::client::Client;
use crate::verif::world::Chain;

#[derive(Clone, Debug)]
pub(crate) struct Reg {
    pub script: Script,
    pub is_lock: bool,
    /// the block number given to set_scripts (blocks after it are examined)
    pub start: u64,
}

#[derive(Clone, Debug)]
pub(crate) struct CellRef {
    pub out_point: OutPoint,
    pub created: u64,
    pub tx_index: u32,
    pub out_index: u32,
    pub capacity: u64,
    pub spent_at: Option<u64>,
}

#[derive(Clone, Debug)]
pub(crate) struct EntryRef {
    pub tx_hash: packed::Byte32,
    pub block: u64,
    pub tx_index: u32,
    pub io_index: u32,
    pub is_input: bool,
    /// block in which the cell this entry is about was created
    pub cell_created: u64,
}

fn matches(out: &packed::CellOutput, script: &Script, is_lock: bool) -> bool {
    if is_lock {
        &out.lock() == script
    } else {
        out.type_().to_opt().as_ref() == Some(script)
    }
}

/// All cells `script` ever had on `chain` up to block `upto`, with their fate.
pub(crate) fn cells_of(chain: &Chain, script: &Script, is_lock: bool, upto: u64) -> Vec<CellRef> {
    let mut cells: Vec<CellRef> = vec![];
    let mut by_op: HashMap<OutPoint, usize> = HashMap::new();
    for n in 0..=upto.min(chain.tip_number()) {
        let block = &chain.blocks[n as usize];
        for (ti, tx) in block.transactions().into_iter().enumerate() {
            if ti > 0 {
                for input in tx.inputs().into_iter() {
                    if let Some(i) = by_op.get(&input.previous_output()) {
                        cells[*i].spent_at = Some(n);
                    }
                }
            }
            for (oi, out) in tx.outputs().into_iter().enumerate() {
                if matches(&out, script, is_lock) {
                    let op = OutPoint::new(tx.hash(), oi as u32);
                    by_op.insert(op.clone(), cells.len());
                    cells.push(CellRef {
                        out_point: op,
                        created: n,
                        tx_index: ti as u32,
                        out_index: oi as u32,
                        capacity: out.capacity().unpack(),
                        spent_at: None,
                    });
                }
            }
        }
    }
    cells
}

pub(crate) fn history_of(chain: &Chain, script: &Script, is_lock: bool, upto: u64) -> Vec<EntryRef> {
    let mut out = vec![];
    let mut created: HashMap<OutPoint, u64> = HashMap::new();
    for n in 0..=upto.min(chain.tip_number()) {
        let block = &chain.blocks[n as usize];
        for (ti, tx) in block.transactions().into_iter().enumerate() {
            if ti > 0 {
                for (ii, input) in tx.inputs().into_iter().enumerate() {
                    let op = input.previous_output();
                    if let Some(c) = created.get(&op) {
                        out.push(EntryRef {
                            tx_hash: tx.hash(),
                            block: n,
                            tx_index: ti as u32,
                            io_index: ii as u32,
                            is_input: true,
                            cell_created: *c,
                        });
                    }
                }
            }
            for (oi, o) in tx.outputs().into_iter().enumerate() {
                if matches(&o, script, is_lock) {
                    created.insert(OutPoint::new(tx.hash(), oi as u32), n);
                    out.push(EntryRef {
                        tx_hash: tx.hash(),
                        block: n,
                        tx_index: ti as u32,
                        io_index: oi as u32,
                        is_input: false,
                        cell_created: n,
                    });
                }
            }
        }
    }
    out
}

fn hex_u64(v: &Value) -> u64 {
    u64::from_str_radix(v.as_str().unwrap_or("0x0").trim_start_matches("0x"), 16).unwrap_or(0)
}

fn key(script: &Script, is_lock: bool) -> SearchKey {
    SearchKey {
        script: script.clone().into(),
        script_type: if is_lock { RpcScriptType::Lock } else { RpcScriptType::Type },
        filter: None,
        with_data: None,
        group_by_transaction: None,
    }
}

fn script_json_eq(v: &Value, script: &Script) -> bool {
    let j: ckb_jsonrpc_types::Script = script.clone().into();
    serde_json::to_value(&j).map(|s| &s == v).unwrap_or(false)
}

/// get_cells answer restricted to exactly `script` (the RPC does a prefix search).
pub(crate) fn rpc_cells(c: &Client, script: &Script, is_lock: bool) -> Result<Vec<Value>, String> {
    let page = c
        .rpc_filter()
        .get_cells(key(script, is_lock), Order::Asc, 100_000u32.into(), None)
        .map_err(|e| format!("{:?}", e))?;
    Ok(page
        .objects
        .into_iter()
        .map(|o| serde_json::to_value(o).unwrap())
        .filter(|v| {
            if is_lock {
                script_json_eq(&v["output"]["lock"], script)
            } else {
                script_json_eq(&v["output"]["type"], script)
            }
        })
        .collect())
}

pub(crate) fn rpc_txs(c: &Client, script: &Script, is_lock: bool) -> Result<Vec<Value>, String> {
    let page = c
        .rpc_filter()
        .get_transactions(key(script, is_lock), Order::Asc, 100_000u32.into(), None)
        .map_err(|e| format!("{:?}", e))?;
    Ok(page
        .objects
        .into_iter()
        .map(|o| serde_json::to_value(o).unwrap())
        .collect())
}

/// The answer of the real `get_scripts` RPC (not the stored records: what the user is told is
/// what the properties are about).
pub(crate) fn rpc_scripts(c: &Client) -> Vec<(Script, bool, u64)> {
    match c.rpc_filter().get_scripts() {
        Ok(list) => list
            .into_iter()
            .map(|s| {
                let script: Script = s.script.into();
                (script, matches!(s.script_type, RpcScriptType::Lock), s.block_number.value())
            })
            .collect(),
        Err(_) => stored_scripts(c),
    }
}

/// The stored script records (for diagnostics).
pub(crate) fn stored_scripts(c: &Client) -> Vec<(Script, bool, u64)> {
    c.storage
        .get_filter_scripts()
        .into_iter()
        .map(|s| {
            (
                s.script,
                matches!(s.script_type, ScriptType::Lock),
                s.block_number,
            )
        })
        .collect()
}

fn op_id(op: &OutPoint) -> String {
    format!("{:#x}:{:#x}", op.tx_hash(), Unpack::<u32>::unpack(&op.index()))
}

/// Judges the RPC answers for the registered scripts against the canonical `chain`.
///
/// * truthfulness (every state): every returned cell / history entry exists on the chain for that
///   script at that place; a returned cell is not spent at or below the script's reported number;
/// * completeness up to the reported number N_S (every state): every output entry of S in a block
///   in (start_S, N_S] is returned by get_transactions;
/// * `converged` (N_S = tip for all): get_cells is exactly the live set for cells created after
///   start_S (earlier ones may or may not be known), input entries are present whenever the spent
///   cell was created after start_S, get_cells_capacity is the sum of get_cells with the stored tip.
pub(crate) fn judge_index(c: &Client, chain: &Chain, regs: &[Reg], converged: bool) -> Vec<(String, String)> {
    let mut bad: Vec<(String, String)> = vec![];
    let reported = rpc_scripts(c);
    let tip = c.tip_number();
    for reg in regs {
        let name = format!("{}{:#x}", if reg.is_lock { "lock:" } else { "type:" }, reg.script.args().raw_data());
        let n_s = match reported
            .iter()
            .find(|(s, l, _)| s == &reg.script && *l == reg.is_lock)
        {
            Some((_, _, n)) => *n,
            None => {
                bad.push(("script-missing".into(), format!("{} is registered but get_scripts does not list it", name)));
                continue;
            }
        };
        // get_scripts may lag behind the filtered height (the number is raised when the next batch
        // without pending matched blocks is processed); with no matched blocks pending every block
        // up to the filtered height has been examined for every script registered before it
        let min_filtered = c.storage.get_min_filtered_block_number();
        let pending = c.storage.get_earliest_matched_blocks().is_some()
            || !c.peers.matched_blocks().read().map(|m| m.is_empty()).unwrap_or(true);
        let n_reported = n_s;
        let n_s = if !pending && min_filtered > n_s && min_filtered <= tip {
            min_filtered
        } else {
            n_s
        };
        if converged && n_s != tip {
            bad.push(("not-caught-up".into(), format!("{} reports block {} (filtered height {}) but the proven tip is {}", name, n_reported, min_filtered, tip)));
        }
        if n_reported > tip {
            bad.push(("number-beyond-tip".into(), format!("{} reports block {} beyond the proven tip {}", name, n_reported, tip)));
        }
        if n_s > chain.tip_number() {
            bad.push(("number-beyond-chain".into(), format!("{} reports block {} beyond the canonical tip {}", name, n_s, chain.tip_number())));
            continue;
        }
        let horizon = chain.tip_number();
        let cells = cells_of(chain, &reg.script, reg.is_lock, horizon);
        let hist = history_of(chain, &reg.script, reg.is_lock, horizon);
        // ---------------- get_cells
        match rpc_cells(c, &reg.script, reg.is_lock) {
            Err(e) => bad.push(("rpc-error".into(), format!("get_cells({}): {}", name, e))),
            Ok(got) => {
                let mut got_ids: Vec<String> = vec![];
                for v in &got {
                    let id = format!(
                        "{}:{}",
                        v["out_point"]["tx_hash"].as_str().unwrap_or("?"),
                        v["out_point"]["index"].as_str().unwrap_or("?")
                    );
                    match cells.iter().find(|c| op_id(&c.out_point) == id) {
                        None => bad.push(("phantom-cell".into(), format!("get_cells({}) returns {} which is not a cell of this script on the canonical chain", name, id))),
                        Some(cr) => {
                            if hex_u64(&v["block_number"]) != cr.created
                                || hex_u64(&v["tx_index"]) != cr.tx_index as u64
                                || hex_u64(&v["output"]["capacity"]) != cr.capacity
                            {
                                bad.push(("wrong-cell-fields".into(), format!("get_cells({}) returns {} with block/tx_index/capacity different from the chain", name, id)));
                            }
                            if let Some(sp) = cr.spent_at {
                                if sp <= n_s {
                                    bad.push(("spent-cell-served".into(), format!("get_cells({}) returns {} (created in block {}) which block {} spent; the script reports block {}", name, id, cr.created, sp, n_s)));
                                }
                            }
                        }
                    }
                    if got_ids.contains(&id) {
                        bad.push(("duplicate-cell".into(), format!("get_cells({}) returns {} twice", name, id)));
                    }
                    got_ids.push(id);
                }
                if converged {
                    for cr in &cells {
                        let live = cr.spent_at.map(|s| s > n_s).unwrap_or(true);
                        if live && cr.created > reg.start && cr.created <= n_s && !got_ids.contains(&op_id(&cr.out_point)) {
                            bad.push(("missing-live-cell".into(), format!("get_cells({}) misses the live cell {} created in block {} (start {}, reported {})", name, op_id(&cr.out_point), cr.created, reg.start, n_s)));
                        }
                    }
                    // capacity
                    match c.rpc_filter().get_cells_capacity(key(&reg.script, reg.is_lock)) {
                        Ok(cc) => {
                            let v = serde_json::to_value(&cc).unwrap();
                            // prefix search: sum over the unrestricted get_cells answer
                            let all = c
                                .rpc_filter()
                                .get_cells(key(&reg.script, reg.is_lock), Order::Asc, 100_000u32.into(), None)
                                .map(|p| p.objects.into_iter().map(|o| hex_u64(&serde_json::to_value(o).unwrap()["output"]["capacity"])).sum::<u64>())
                                .unwrap_or(0);
                            if hex_u64(&v["capacity"]) != all || hex_u64(&v["block_number"]) != tip {
                                bad.push(("capacity-mismatch".into(), format!("get_cells_capacity({}) = {} at block {}, sum of get_cells = {} at tip {}", name, hex_u64(&v["capacity"]), hex_u64(&v["block_number"]), all, tip)));
                            }
                        }
                        Err(e) => bad.push(("rpc-error".into(), format!("get_cells_capacity({}): {:?}", name, e))),
                    }
                }
            }
        }
        // ---------------- get_transactions
        match rpc_txs(c, &reg.script, reg.is_lock) {
            Err(e) => bad.push(("rpc-error".into(), format!("get_transactions({}): {}", name, e))),
            Ok(got) => {
                // prefix search returns entries of longer-args scripts too: judge only entries that
                // exist in this script's reference or claim its exact key; collect ids
                let mut ids: Vec<String> = vec![];
                for v in &got {
                    ids.push(format!(
                        "{}:{}:{}:{}:{}",
                        hex_u64(&v["block_number"]),
                        hex_u64(&v["tx_index"]),
                        v["transaction"]["hash"].as_str().unwrap_or("?"),
                        hex_u64(&v["io_index"]),
                        v["io_type"].as_str().unwrap_or("?")
                    ));
                }
                let ref_id = |e: &EntryRef| {
                    format!("{}:{}:{:#x}:{}:{}", e.block, e.tx_index, e.tx_hash, e.io_index, if e.is_input { "input" } else { "output" })
                };
                for e in &hist {
                    let must = if e.is_input {
                        converged && e.block > reg.start && e.block <= n_s && e.cell_created > reg.start
                    } else {
                        e.block > reg.start && e.block <= n_s
                    };
                    if must && !ids.contains(&ref_id(e)) {
                        bad.push((
                            if e.is_input { "missing-input-entry".into() } else { "missing-output-entry".into() },
                            format!("get_transactions({}) misses {} (start {}, reported {})", name, ref_id(e), reg.start, n_s),
                        ));
                    }
                }
                // truthfulness is judged on the exact-script key space below (db scan)
                let _ = got;
            }
        }
    }
    bad
}

/// Store-level truthfulness: every index record is what the canonical chain contains at that
/// place (reuses the C02 scan).
pub(crate) fn judge_store(sim: &crate::verif::driver::Sim, chain: &Chain) -> Vec<(String, String)> {
    crate::verif::props::c02::inv_committed(sim, chain)
        .into_iter()
        .map(|s| {
            let class = s.split(':').next().unwrap_or("").split(' ').next().unwrap_or("").to_owned();
            (format!("uncommitted-record/{}", class), s)
        })
        .collect()
}

pub(crate) fn group(bad: Vec<(String, String)>) -> BTreeMap<String, Vec<String>> {
    let mut m: BTreeMap<String, Vec<String>> = BTreeMap::new();
    for (k, v) in bad {
        m.entry(k).or_default().push(v);
    }
    m
}

/// At quiescence (nothing in flight, every request the client sent was answered by an honest
/// peer) no connected peer may still have a request on record: such a request can only end in the
/// message timeout, i.e. in the disconnection of a peer that answered everything.
pub(crate) fn outstanding_requests(sim: &crate::verif::driver::Sim) -> Vec<(String, String)> {
    let mut bad = vec![];
    for p in &sim.world.peers {
        if !p.connected {
            continue;
        }
        if let Some(peer) = sim.c().peers.get_peer(&ckb_network::PeerIndex::new(p.id)) {
            let mut kinds = vec![];
            if peer.get_blocks_request().is_some() {
                kinds.push("GetBlocks");
            }
            if peer.get_blocks_proof_request().is_some() {
                kinds.push("GetBlocksProof");
            }
            if peer.get_txs_proof_request().is_some() {
                kinds.push("GetTransactionsProof");
            }
            for k in kinds {
                bad.push((
                    format!("answered-request-still-outstanding/{}", k),
                    format!("peer {} answered everything and nothing is in flight, but its {} request is still on record (it will be disconnected by the message timeout)", p.id, k),
                ));
            }
        }
    }
    bad
}
