//! E-seq/BFS: explicit-state breadth-first search over event sequences on the real client.
//!
//! A state is the event list that reaches it: live objects cannot be cloned, so every state is
//! rebuilt by replaying its list on a recycled client. States are de-duplicated by a canonical
//! fingerprint supplied by the model (store dump, peers dump with ages, pending messages, world
//! position). The model's invariants are evaluated in every state reached; `on_new_state` lets a
//! model run a continuation (liveness / convergence oracle) from every distinct state.
//!
//! Sharding: the sequences of length `root_depth` are dealt round-robin to worker processes; each
//! worker searches the subtrees of its roots with its own `seen` set (a state reachable under two
//! roots may be explored twice: costs time, never hides a state). States shallower than the roots
//! are checked by worker 0.

use std::collections::HashSet;

use crate::verif::driver::Sim;
use crate::verif::props::panics::{self, PanicRec as Panic};

pub(crate) trait Model {
    type Ev: Clone + std::fmt::Debug;
    /// A fresh world + client (recycling the store of `old`); resets model-side trackers.
    fn init(&self, old: Option<Sim>) -> Sim;
    fn enabled(&self, sim: &Sim, hist: &[Self::Ev]) -> Vec<Self::Ev>;
    fn apply(&self, sim: &mut Sim, ev: &Self::Ev);
    /// Invariants of the state just reached (called after every apply of a replay, so that the
    /// model can track what it saw before; only the result for the last event is reported).
    fn check(&self, sim: &Sim, hist: &[Self::Ev]) -> Vec<(String, String)>;
    fn fingerprint(&self, sim: &Sim) -> [u8; 32];
    /// A panic that is documented behaviour in the state it happened in (the run ends there: a
    /// terminal state without successors, not a violation).
    fn documented_abort(&self, _sim: &Sim, _p: &Panic) -> bool {
        false
    }
    /// Continuation from a distinct new state (may consume the state).
    fn on_new_state(&self, _sim: &mut Sim, _hist: &[Self::Ev]) -> Vec<(String, String)> {
        vec![]
    }
}

#[derive(Default)]
pub(crate) struct Stats {
    pub states: u64,
    pub transitions: u64,
    pub replays: u64,
    pub applied_events: u64,
    pub max_depth: usize,
    pub per_depth: Vec<u64>,
    pub capped: bool,
    pub panics: u64,
    pub documented_aborts: u64,
}

pub(crate) enum Reached {
    Ok(Sim, Vec<(String, String)>),
    Panicked(Panic, usize),
    /// documented abort at event index
    Terminal(usize),
}

/// Rebuilds the state reached by `hist`.
pub(crate) fn replay<M: Model>(m: &M, old: Option<Sim>, hist: &[M::Ev], stats: &mut Stats) -> Reached {
    stats.replays += 1;
    let mut sim = m.init(old);
    let mut last = vec![];
    for (i, ev) in hist.iter().enumerate() {
        stats.applied_events += 1;
        let r = panics::catch(|| {
            m.apply(&mut sim, ev);
            m.check(&sim, &hist[..=i])
        });
        match r {
            Ok(v) => last = v,
            Err(p) => {
                if m.documented_abort(&sim, &p) {
                    return Reached::Terminal(i);
                }
                return Reached::Panicked(p, i);
            }
        }
    }
    Reached::Ok(sim, last)
}

/// All event sequences of length `depth` (no de-duplication), in a deterministic order.
pub(crate) fn roots<M: Model>(m: &M, depth: usize, stats: &mut Stats) -> Vec<Vec<M::Ev>> {
    let mut level: Vec<Vec<M::Ev>> = vec![vec![]];
    let mut old: Option<Sim> = None;
    for _ in 0..depth {
        let mut next = vec![];
        for h in &level {
            match replay(m, old.take(), h, stats) {
                Reached::Ok(sim, _) => {
                    for ev in m.enabled(&sim, h) {
                        let mut h2 = h.clone();
                        h2.push(ev);
                        next.push(h2);
                    }
                    old = Some(sim);
                }
                Reached::Panicked(..) | Reached::Terminal(..) => {}
            }
        }
        level = next;
    }
    level
}

/// Breadth-first search below `my_roots` up to `max_depth` events. `shallow`: also check the
/// states of all proper prefixes shorter than the roots (worker 0).
pub(crate) fn search<M: Model>(
    m: &M,
    my_roots: Vec<Vec<M::Ev>>,
    shallow: Vec<Vec<M::Ev>>,
    max_depth: usize,
    max_states: u64,
    report: &mut dyn FnMut(&[M::Ev], String, String),
) -> Stats {
    let mut stats = Stats::default();
    let mut seen: HashSet<[u8; 32]> = HashSet::new();
    let mut old: Option<Sim> = None;
    let mut frontier: Vec<Vec<M::Ev>> = vec![];

    let mut visit = |hist: &Vec<M::Ev>,
                     old: &mut Option<Sim>,
                     stats: &mut Stats,
                     seen: &mut HashSet<[u8; 32]>,
                     frontier: Option<&mut Vec<Vec<M::Ev>>>,
                     report: &mut dyn FnMut(&[M::Ev], String, String)| {
        stats.transitions += 1;
        match replay(m, old.take(), hist, stats) {
            Reached::Ok(mut sim, bad) => {
                for (k, d) in bad {
                    report(hist, k, d);
                }
                let fp = m.fingerprint(&sim);
                if seen.insert(fp) {
                    stats.states += 1;
                    if stats.per_depth.len() <= hist.len() {
                        stats.per_depth.resize(hist.len() + 1, 0);
                    }
                    stats.per_depth[hist.len()] += 1;
                    stats.max_depth = stats.max_depth.max(hist.len());
                    let r = panics::catch(|| m.on_new_state(&mut sim, hist));
                    match r {
                        Ok(bad) => {
                            for (k, d) in bad {
                                report(hist, k, d);
                            }
                            *old = Some(sim);
                        }
                        Err(p) => {
                            stats.panics += 1;
                            report(hist, format!("abort-in-continuation/{}", p.site()), p.describe());
                        }
                    }
                    if let Some(f) = frontier {
                        f.push(hist.clone());
                    }
                } else {
                    *old = Some(sim);
                }
            }
            Reached::Panicked(p, at) => {
                stats.panics += 1;
                if at + 1 == hist.len() {
                    report(hist, format!("abort/{}", p.site()), p.describe());
                }
            }
            Reached::Terminal(at) => {
                if at + 1 == hist.len() {
                    stats.documented_aborts += 1;
                }
            }
        }
    };

    for h in &shallow {
        visit(h, &mut old, &mut stats, &mut seen, None, report);
    }
    for h in &my_roots {
        visit(h, &mut old, &mut stats, &mut seen, Some(&mut frontier), report);
    }
    let mut depth = my_roots.first().map(|h| h.len()).unwrap_or(0);
    while depth < max_depth && !frontier.is_empty() {
        let mut next: Vec<Vec<M::Ev>> = vec![];
        for h in &frontier {
            if stats.states >= max_states {
                stats.capped = true;
                break;
            }
            // the events enabled in the state of `h`
            let evs = match replay(m, old.take(), h, &mut stats) {
                Reached::Ok(sim, _) => {
                    let e = m.enabled(&sim, h);
                    old = Some(sim);
                    e
                }
                Reached::Panicked(..) | Reached::Terminal(..) => vec![],
            };
            for ev in evs {
                let mut h2 = h.clone();
                h2.push(ev);
                visit(&h2, &mut old, &mut stats, &mut seen, Some(&mut next), report);
            }
        }
        if stats.capped {
            break;
        }
        frontier = next;
        depth += 1;
    }
    stats
}

/// `Name(1, -2)` -> ("Name", [1, -2])
pub(crate) fn parse_call(s: &str) -> (String, Vec<i64>) {
    let s = s.trim();
    let name = s.split('(').next().unwrap_or("").trim().to_owned();
    let args = s
        .split_once('(')
        .map(|(_, rest)| rest.trim_end_matches(')').split(',').filter_map(|a| a.trim().parse::<i64>().ok()).collect())
        .unwrap_or_default();
    (name, args)
}

/// (config, events) of a replay file written by a BFS check.
pub(crate) fn read_replay(file: &str) -> Option<(String, Vec<String>)> {
    let v: serde_json::Value = serde_json::from_str(&std::fs::read_to_string(file).ok()?).ok()?;
    let r = &v["replay"];
    let events: Vec<String> = r["events"].as_array()?.iter().filter_map(|e| e.as_str().map(|s| s.to_owned())).collect();
    Some((r["config"].as_str().unwrap_or("").to_owned(), events))
}

/// Replays one recorded event list: the invariants of the state it reaches and the continuation.
pub(crate) fn replay_one<M: Model>(m: &M, evs: &[M::Ev], report: &mut dyn FnMut(&[M::Ev], String, String)) {
    let mut stats = Stats::default();
    match replay(m, None, evs, &mut stats) {
        Reached::Ok(mut sim, bad) => {
            for (k, d) in bad {
                report(evs, k, d);
            }
            match panics::catch(|| m.on_new_state(&mut sim, evs)) {
                Ok(bad) => {
                    for (k, d) in bad {
                        report(evs, k, d);
                    }
                }
                Err(p) => report(evs, format!("abort-in-continuation/{}", p.site()), p.describe()),
            }
        }
        Reached::Panicked(p, _) => report(evs, format!("abort/{}", p.site()), p.describe()),
        Reached::Terminal(_) => {}
    }
}
