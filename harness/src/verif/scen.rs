//! Scenario building blocks shared by the checks: environments, standard worlds, "run the honest
//! history until a given message is about to be delivered".

use std::sync::Arc;

use ckb_chain_spec::consensus::Consensus;
use ckb_types::{core::TransactionView, packed, prelude::*};

use crate::storage::{ScriptStatus, ScriptType, SetScriptsCommand};
use crate::verif::client::{ClientCfg, Template};
use crate::verif::driver::{InFlight, Sim, World};
use crate::verif::net::Proto;
use crate::verif::txlib::{build_tx, OutSpec, Scripts};
use crate::verif::world::{compact_of, load_consensus, Chain, EpochPlan};

pub(crate) struct Env {
    pub consensus: Arc<Consensus>,
    pub template: Arc<Template>,
    pub scripts: Scripts,
    pub spec: String,
}

impl Env {
    pub(crate) fn new(spec: &str) -> Env {
        let consensus = Arc::new(load_consensus(spec));
        let template = Arc::new(Template::new(&consensus));
        let scripts = Scripts::new(&consensus);
        Env {
            consensus,
            template,
            scripts,
            spec: spec.to_owned(),
        }
    }
    pub(crate) fn dummy() -> Env {
        Env::new("mini_dummy.toml")
    }
    pub(crate) fn eaglesong() -> Env {
        Env::new("mini_eaglesong.toml")
    }
}

/// Variable-difficulty plan: epochs of `len` blocks, difficulties 16, 24, 40, 28, 16, 16...
pub(crate) fn wavy_plan(len: u64) -> EpochPlan {
    EpochPlan {
        epochs: vec![
            (len, compact_of(16)),
            (len, compact_of(24)),
            (len, compact_of(40)),
            (len, compact_of(28)),
            (len, compact_of(16)),
        ],
    }
}

/// What happens for the registered scripts in block `n` of a standard chain.
#[derive(Clone, Debug, PartialEq, Eq)]
pub(crate) enum Act {
    /// cellbase pays to script
    Mine(char),
    /// spend the most recent live cell of script X and create a new cell for script Y
    Move(char, char),
    /// create a typed cell (lock X, type T) from the most recent live cell of X
    Typed(char),
    /// spend the most recent live typed cell of lock X and create a plain cell for script Y
    Untype(char, char),
    /// include this very transaction (e.g. one that an abandoned branch had committed already);
    /// its output 0 becomes the most recent live plain cell of script X with that capacity
    Raw(TransactionView, char, u64),
}

/// Appends blocks `from+1 ..= to` to `chain`; `acts` lists (block number, activity).
pub(crate) fn extend_chain(chain: &mut Chain, scripts: &Scripts, to: u64, acts: &[(u64, Act)]) {
    // live cells per script name, most recent last
    let mut live: Vec<(char, packed::OutPoint, u64, bool)> = vec![];
    // recover live cells created by earlier Mine acts is not needed: callers pass all acts for
    // the whole chain and extend from genesis or from a fork point with their own acts.
    let start = chain.tip_number() + 1;
    for n in start..=to {
        let mut txs = vec![];
        chain.miner_lock = Default::default();
        let mut mined: Option<char> = None;
        for (bn, act) in acts.iter().filter(|(bn, _)| *bn == n) {
            let _ = bn;
            match act {
                Act::Mine(x) => {
                    chain.miner_lock = scripts.by_name(*x);
                    mined = Some(*x);
                }
                Act::Move(x, y) => {
                    // (plain cells only: a typed cell is spent by Untype)
                    if let Some(pos) = live.iter().rposition(|(name, _, _, typed)| name == x && !typed) {
                        let (_, op, cap, _) = live.remove(pos);
                        let tx = build_tx(
                            &[scripts.always_dep.clone()],
                            &[op],
                            &[OutSpec::lock(&scripts.by_name(*y), cap - 1000)],
                            n,
                        );
                        live.push((*y, packed::OutPoint::new(tx.hash(), 0), cap - 1000, false));
                        txs.push(tx);
                    }
                }
                Act::Raw(tx, x, cap) => {
                    live.push((*x, packed::OutPoint::new(tx.hash(), 0), *cap, false));
                    txs.push(tx.clone());
                }
                Act::Untype(x, y) => {
                    if let Some(pos) = live.iter().rposition(|(name, _, _, typed)| name == x && *typed) {
                        let (_, op, cap, _) = live.remove(pos);
                        let tx = build_tx(
                            &[scripts.always_dep.clone()],
                            &[op],
                            &[OutSpec::lock(&scripts.by_name(*y), cap - 1000)],
                            n,
                        );
                        live.push((*y, packed::OutPoint::new(tx.hash(), 0), cap - 1000, false));
                        txs.push(tx);
                    }
                }
                Act::Typed(x) => {
                    if let Some(pos) = live.iter().rposition(|(name, _, _, typed)| name == x && !typed) {
                        let (_, op, cap, _) = live.remove(pos);
                        let tx = build_tx(
                            &[scripts.always_dep.clone()],
                            &[op],
                            &[OutSpec::typed(
                                &scripts.by_name(*x),
                                &scripts.t,
                                cap - 1000,
                                vec![1, 2, 3],
                            )],
                            n,
                        );
                        live.push((*x, packed::OutPoint::new(tx.hash(), 0), cap - 1000, true));
                        txs.push(tx);
                    }
                }
            }
        }
        let block = chain.push(txs).clone();
        if let Some(x) = mined {
            let cb = block.transaction(0).unwrap();
            live.push((x, packed::OutPoint::new(cb.hash(), 0), 1000_0000_0000, false));
        }
    }
}

pub(crate) fn std_acts() -> Vec<(u64, Act)> {
    vec![
        (2, Act::Mine('A')),
        (3, Act::Mine('A')),
        (5, Act::Move('A', 'B')),
        (7, Act::Move('A', 'A')),
        (9, Act::Typed('A')),
        (10, Act::Mine('C')),
    ]
}

pub(crate) fn std_chain(env: &Env, len: u64, epoch_len: u64) -> Chain {
    let mut chain = Chain::new(Arc::clone(&env.consensus), wavy_plan(epoch_len));
    extend_chain(&mut chain, &env.scripts, len, &std_acts());
    chain
}

pub(crate) fn register(sim: &Sim, scripts: &[(packed::Script, ScriptType, u64)]) {
    let list = scripts
        .iter()
        .map(|(s, t, n)| ScriptStatus {
            script: s.clone(),
            script_type: match t {
                ScriptType::Lock => ScriptType::Lock,
                ScriptType::Type => ScriptType::Type,
            },
            block_number: *n,
        })
        .collect();
    sim.c()
        .storage
        .update_filter_scripts(list, SetScriptsCommand::All);
}

pub(crate) fn lc_kind(data: &[u8]) -> Option<String> {
    packed::LightClientMessageReader::from_compatible_slice(data)
        .ok()
        .map(|m| m.to_enum().item_name().to_owned())
}
pub(crate) fn filter_kind(data: &[u8]) -> Option<String> {
    packed::BlockFilterMessage::from_slice(data)
        .ok()
        .map(|m| m.to_enum().item_name().to_owned())
}
pub(crate) fn sync_kind(data: &[u8]) -> Option<String> {
    packed::SyncMessageReader::from_compatible_slice(data)
        .ok()
        .map(|m| m.to_enum().item_name().to_owned())
}

pub(crate) fn kind_of(m: &InFlight) -> String {
    match m.proto {
        Proto::LightClient => lc_kind(&m.data),
        Proto::Filter => filter_kind(&m.data),
        Proto::Sync => sync_kind(&m.data),
        Proto::Relay => Some("relay".to_owned()),
    }
    .unwrap_or_else(|| "?".to_owned())
}

/// Runs the honest history (FIFO, ticks when idle) until a queued message satisfies `pred`
/// for the `nth` time (0-based); that message is moved to the front of the queue and NOT
/// delivered. Returns false if it never shows up.
pub(crate) fn advance_until(
    sim: &mut Sim,
    mut pred: impl FnMut(&InFlight) -> bool,
    nth: usize,
    max_steps: usize,
) -> bool {
    let mut seen = 0usize;
    let mut skipped: std::collections::HashSet<Vec<u8>> = Default::default();
    for _ in 0..max_steps {
        // look for a match among queued messages not yet counted
        let mut hit = None;
        for (i, m) in sim.queue.iter().enumerate() {
            if pred(m) && !skipped.contains(&m.data.to_vec()) {
                hit = Some(i);
                break;
            }
        }
        if let Some(i) = hit {
            if seen == nth {
                let m = sim.queue.remove(i).unwrap();
                sim.queue.push_front(m);
                return true;
            }
            seen += 1;
            skipped.insert(sim.queue[i].data.to_vec());
        }
        if sim.queue.is_empty() {
            sim.advance(10);
            sim.tick_all();
        } else {
            sim.deliver(0);
        }
    }
    false
}

pub(crate) fn default_cfg() -> ClientCfg {
    ClientCfg {
        last_n: 2,
        max_outbound: 1,
        cp_interval: 4,
        ..Default::default()
    }
}

/// Connects peer `id` and runs the light-client exchange (only light-client messages are
/// delivered) until the peer's announced last state is proven. Other queued messages stay queued.
pub(crate) fn prove_peer(sim: &mut Sim, id: usize) -> bool {
    if !sim.world.peer(id).connected {
        sim.connect(id);
    }
    for _ in 0..12 {
        let p = ckb_network::PeerIndex::new(id);
        let proved = sim
            .c()
            .peers
            .get_state(&p)
            .map(|s| match (s.get_prove_state(), s.get_last_state()) {
                (Some(ps), Some(ls)) => ps.is_same_as(ls.as_ref()),
                _ => false,
            })
            .unwrap_or(false);
        if proved {
            return true;
        }
        let pos = sim.queue.iter().position(|m| {
            m.peer == id && m.proto == Proto::LightClient
        });
        match pos {
            Some(i) => sim.deliver(i),
            None => {
                sim.advance(10);
                sim.cm().tick_lc(0);
                sim.pump_out();
            }
        }
    }
    false
}

pub(crate) fn new_sim(env: &Env, cfg: ClientCfg, world: World) -> Sim {
    crate::verif_hooks::rng_reset(0xC0FFEE);
    Sim::new(cfg, Arc::clone(&env.consensus), Arc::clone(&env.template), world)
}
