//! C16 — fetch statuses and get_transaction (transaction, block) answers are truthful.
//!
//! E-seq/BFS with 2 honest peers (one serving, one spare), script A registered and synced.
//! Hash alphabet: X (indexed transaction of A), Y (on-chain transaction of no registered script, in
//! a block the fork replaces), Z (never mined), YF (transaction of the fork block at Y's height);
//! headers H (block 6), H12 (main block 12, abandoned by the fork), H12F (fork block 12), HZ
//! (unknown). Events: fetch_transaction / fetch_header calls, FETCH tick, REFRESH tick after
//! {0, timeout+1}, FIFO delivery per peer, disconnect / connect, the serving peer silently moving
//! to the other branch (its next answer is a "new tip" reply), all peers switching to the heavier
//! fork. After every event: every status a call returned is a legal successor of the previous
//! one for that hash; not_found is only reported after a proven peer listed the hash as missing;
//! whenever get_transaction reports committed + block hash, that header is stored and that world
//! block contains the transaction (and the call does not abort). From every distinct state an
//! honest continuation follows (peers honest again, FETCH / REFRESH ticks, calls repeated): every
//! requested on-chain item ends fetched, every unknown one not_found — no request is lost.

use std::cell::RefCell;
use std::collections::{BTreeMap, BTreeSet};

use ckb_types::{packed, prelude::*, H256};
use serde_json::json;

use crate::service::{ChainRpc, FetchStatus, Status as TxStatusKind, TransactionRpc};
use crate::verif::bfs::{self, Model};
use crate::verif::client::{self, ClientCfg};
use crate::verif::driver::{Sim, World};
use crate::verif::net::Proto;
use crate::verif::props::Opts;
use crate::verif::report::Report;
use crate::verif::scen::{self, Act, Env};
use crate::verif::world::{self, Chain};

#[derive(Clone, Debug, PartialEq, Eq)]
pub(crate) enum Ev {
    FetchTx(usize),
    FetchHeader(usize),
    FetchTick,
    Refresh(usize),
    Deliver(usize),
    Disconnect(usize),
    Connect(usize),
    /// the peer moves to the other branch without telling (its next proof answer is a new-tip reply)
    SilentSwitch(usize),
    /// every peer adopts the heavier fork and announces it
    ForkAll,
    /// the next proof answer of the peer arrives well-formed but with a bogus MMR proof
    DeliverCorrupt(usize),
    /// the next transactions-proof answer of the peer lists one requested hash as missing as
    /// often as hashes were requested (right count, but the other hashes are not covered)
    DeliverDupMissing(usize),
    /// the peer's SECOND pending answer arrives before its first one (answers to two different
    /// outstanding requests overtake each other)
    DeliverSecond(usize),
}

const REFRESH: [u64; 2] = [0, 60_001];
const TX_NAMES: [&str; 5] = ["X(indexed)", "Y(main#12)", "Z(unknown)", "YF(fork#12)", "W(main#13)"];
const HD_NAMES: [&str; 5] = ["H(#6)", "H12(main)", "H12F(fork)", "HZ(unknown)", "H13(main)"];

/// 0 = never asked, 1 = added, 2 = fetching, 3 = fetched, 4 = not_found
type St = u8;

#[derive(Default)]
struct Track {
    tx_status: BTreeMap<usize, St>,
    hd_status: BTreeMap<usize, St>,
    /// hashes a proven peer listed as missing in a delivered answer
    reported_missing: BTreeSet<packed::Byte32>,
    pending: Vec<(String, String)>,
    forked: bool,
    calls: u32,
    fetch_ticks: u32,
    refreshes: u32,
    disconnects: u32,
    connects: u32,
    silent: u32,
    corrupts: u32,
}

pub(crate) struct FetchModel<'a> {
    env: &'a Env,
    main: Chain,
    fork: Chain,
    cfg: ClientCfg,
    txs: Vec<packed::Byte32>,
    hds: Vec<packed::Byte32>,
    /// 0: nothing in flight; 1: start with two transaction fetches and a header fetch in flight;
    /// 2 / 3: two headers of neighbouring blocks (main #12, #13) in ONE blocks-proof request and a
    /// transaction of #12 (2) or of #13 (3) in a transactions-proof request (whose answer also
    /// stores the block's header, whatever the order of the hashes in the blocks-proof request)
    start_in_flight: u8,
    /// indices of the transactions / headers the user may ask for (quick: a subset)
    ask_txs: Vec<usize>,
    ask_hds: Vec<usize>,
    track: RefCell<Track>,
}

const FORK_AT: u64 = 11;

impl<'a> FetchModel<'a> {
    fn status_of_tx(r: &FetchStatus<crate::service::TransactionWithStatus>) -> St {
        match r {
            FetchStatus::Added { .. } => 1,
            FetchStatus::Fetching { .. } => 2,
            FetchStatus::Fetched { .. } => 3,
            FetchStatus::NotFound => 4,
        }
    }
    fn status_of_hd(r: &FetchStatus<ckb_jsonrpc_types::HeaderView>) -> St {
        match r {
            FetchStatus::Added { .. } => 1,
            FetchStatus::Fetching { .. } => 2,
            FetchStatus::Fetched { .. } => 3,
            FetchStatus::NotFound => 4,
        }
    }

    fn legal(prev: St, now: St, reported_missing: bool) -> Result<(), String> {
        let name = |s: St| ["never-asked", "added", "fetching", "fetched", "not_found"][s as usize];
        let ok = match (prev, now) {
            // first call: added, or fetched when the data is already there
            (0, 1) | (0, 3) => true,
            (1, 1) | (1, 2) | (1, 3) => true,
            (2, 2) | (2, 3) => true,
            // a peer may answer between two calls: added -> not_found needs fetching in between,
            // which the user may not have observed
            (1, 4) | (2, 4) => reported_missing,
            // the not_found call re-adds the request
            (4, 1) | (4, 2) | (4, 3) => true,
            (4, 4) => reported_missing,
            (3, 3) => true,
            // fetched data of a block the chain abandoned may disappear: the request starts anew
            (3, 1) => true,
            _ => false,
        };
        if ok {
            Ok(())
        } else {
            Err(format!("{} -> {}{}", name(prev), name(now), if now == 4 && !reported_missing { " (no proven peer reported it missing)" } else { "" }))
        }
    }

    fn block_of(&self, hash: &packed::Byte32) -> Option<&ckb_types::core::BlockView> {
        for c in [&self.main, &self.fork] {
            if let Some(n) = c.number_of(hash) {
                return Some(&c.blocks[n as usize]);
            }
        }
        None
    }

    /// get_transaction on every transaction of the alphabet: committed => header stored and the
    /// block contains the transaction.
    fn committed_answers(&self, sim: &Sim) -> Vec<(String, String)> {
        let mut bad = vec![];
        for (i, h) in self.txs.iter().enumerate() {
            let hh: H256 = h.unpack();
            let r = match sim.c().rpc_tx().get_transaction(hh) {
                Ok(r) => r,
                Err(e) => {
                    bad.push(("get_transaction-error".into(), format!("{}: {:?}", TX_NAMES[i], e)));
                    continue;
                }
            };
            if r.tx_status.status == TxStatusKind::Committed {
                match r.tx_status.block_hash {
                    None => bad.push(("committed-without-block-hash".into(), TX_NAMES[i].to_owned())),
                    Some(bh) => {
                        let bh: packed::Byte32 = bh.pack();
                        let stored = sim.c().rpc_chain().get_header(bh.unpack()).ok().flatten().is_some();
                        if !stored {
                            bad.push(("committed-in-a-block-whose-header-is-not-stored".into(), format!("{} reported committed in {:#x}", TX_NAMES[i], bh)));
                        }
                        match self.block_of(&bh) {
                            None => bad.push(("committed-in-an-unknown-block".into(), format!("{} reported committed in {:#x}", TX_NAMES[i], bh))),
                            Some(b) => {
                                if !b.transactions().iter().any(|t| &t.hash() == h) {
                                    bad.push((
                                        "committed-in-a-block-that-does-not-contain-it".into(),
                                        format!("{} is reported committed in block #{} {:#x}, which does not contain it", TX_NAMES[i], b.number(), bh),
                                    ));
                                }
                            }
                        }
                    }
                }
            }
        }
        bad
    }

    fn call_tx(&self, sim: &mut Sim, i: usize) -> St {
        let h: H256 = self.txs[i].unpack();
        let r = sim.c().rpc_tx().fetch_transaction(h).expect("fetch_transaction");
        let st = Self::status_of_tx(&r);
        let mut t = self.track.borrow_mut();
        let prev = *t.tx_status.get(&i).unwrap_or(&0);
        let rm = t.reported_missing.contains(&self.txs[i]);
        if let Err(e) = Self::legal(prev, st, rm) {
            t.pending.push(("illegal-status-step/transaction".into(), format!("fetch_transaction({}): {}", TX_NAMES[i], e)));
        }
        if st == 4 {
            // the call re-added it: a later not_found needs a new report
            let h = self.txs[i].clone();
            t.reported_missing.remove(&h);
        }
        t.tx_status.insert(i, st);
        st
    }

    fn call_hd(&self, sim: &mut Sim, i: usize) -> St {
        let h: H256 = self.hds[i].unpack();
        let r = sim.c().rpc_chain().fetch_header(h).expect("fetch_header");
        let st = Self::status_of_hd(&r);
        let mut t = self.track.borrow_mut();
        let prev = *t.hd_status.get(&i).unwrap_or(&0);
        let rm = t.reported_missing.contains(&self.hds[i]);
        if let Err(e) = Self::legal(prev, st, rm) {
            t.pending.push(("illegal-status-step/header".into(), format!("fetch_header({}): {}", HD_NAMES[i], e)));
        }
        if st == 4 {
            let h = self.hds[i].clone();
            t.reported_missing.remove(&h);
        }
        t.hd_status.insert(i, st);
        st
    }

    fn note_missing(&self, data: &[u8]) {
        if let Ok(msg) = packed::LightClientMessage::from_compatible_slice(data) {
            let mut t = self.track.borrow_mut();
            match msg.to_enum() {
                packed::LightClientMessageUnion::SendTransactionsProof(m) => {
                    for h in m.missing_tx_hashes().into_iter() {
                        t.reported_missing.insert(h);
                    }
                }
                packed::LightClientMessageUnion::SendBlocksProof(m) => {
                    for h in m.missing_block_hashes().into_iter() {
                        t.reported_missing.insert(h);
                    }
                }
                _ => {}
            }
        }
    }

    fn deliver_front_of(&self, sim: &mut Sim, p: usize) -> bool {
        if let Some(i) = sim.queue.iter().position(|m| m.peer == p) {
            let m = sim.queue.remove(i).unwrap();
            if m.proto == Proto::LightClient {
                self.note_missing(&m.data);
            }
            sim.deliver_msg(m);
            true
        } else {
            false
        }
    }

    fn after_event(&self, sim: &mut Sim) {
        let banned: Vec<usize> = sim.bans().iter().map(|(p, _)| p.value()).collect();
        for p in banned {
            if sim.world.peer(p).connected {
                sim.disconnect(p);
            }
        }
        let discs: Vec<usize> = sim.c().out.disconnects().iter().map(|(p, _)| p.value()).collect();
        for p in discs {
            if sim.world.peer(p).connected {
                sim.disconnect(p);
            }
        }
        let _ = sim.c().out.take_disconnects();
    }
}

impl<'a> Model for FetchModel<'a> {
    type Ev = Ev;

    fn init(&self, old: Option<Sim>) -> Sim {
        let mut world = World::new(vec![self.main.clone(), self.fork.clone()], self.cfg.cp_interval);
        world.add_peer(1, 0, 14);
        world.add_peer(2, 0, 14);
        client::set_now(world::BASE_TS + 1_000_000);
        let mut sim = match old {
            Some(old) => Sim::recycle(old, self.cfg.clone(), world),
            None => scen::new_sim(self.env, self.cfg.clone(), world),
        };
        crate::verif_hooks::rng_reset(16);
        *self.track.borrow_mut() = Track::default();
        scen::register(&sim, &[(self.env.scripts.a.clone(), crate::storage::ScriptType::Lock, 0)]);
        sim.connect(1);
        sim.connect(2);
        sim.converge(60);
        if self.start_in_flight == 1 {
            // two transactions in one request (Y is on the chain, YF only on the fork) + a header
            self.call_tx(&mut sim, 1);
            self.call_tx(&mut sim, 3);
            self.call_hd(&mut sim, 0);
            sim.cm().tick_lc(1);
            sim.pump_out();
        } else if self.start_in_flight >= 2 {
            self.call_hd(&mut sim, 1);
            self.call_hd(&mut sim, 4);
            self.call_tx(&mut sim, if self.start_in_flight == 2 { 1 } else { 4 });
            sim.cm().tick_lc(1);
            sim.pump_out();
        }
        sim
    }

    fn enabled(&self, sim: &Sim, _hist: &[Ev]) -> Vec<Ev> {
        let t = self.track.borrow();
        let mut v = vec![];
        if t.calls < 3 {
            for i in &self.ask_txs {
                v.push(Ev::FetchTx(*i));
            }
            for i in &self.ask_hds {
                v.push(Ev::FetchHeader(*i));
            }
        }
        if t.fetch_ticks < 2 {
            v.push(Ev::FetchTick);
        }
        if t.refreshes < 2 {
            for i in 0..REFRESH.len() {
                v.push(Ev::Refresh(i));
            }
        }
        for p in 1..=2usize {
            if sim.queue.iter().any(|m| m.peer == p) {
                v.push(Ev::Deliver(p));
            }
            if sim.queue.iter().filter(|m| m.peer == p).count() >= 2 {
                v.push(Ev::DeliverSecond(p));
            }
            let connected = sim.world.peer(p).connected;
            if connected && t.disconnects < 1 {
                v.push(Ev::Disconnect(p));
            }
            if !connected && t.connects < 1 && !sim.bans().iter().any(|(b, _)| b.value() == p) {
                v.push(Ev::Connect(p));
            }
            if connected && t.silent < 1 && !t.forked {
                v.push(Ev::SilentSwitch(p));
            }
        }
        if !t.forked {
            v.push(Ev::ForkAll);
        }
        if t.corrupts < 1 {
            for p in 1..=2usize {
                if sim.queue.iter().find(|m| m.peer == p).map(|m| corrupt(&m.data).is_some()).unwrap_or(false) {
                    v.push(Ev::DeliverCorrupt(p));
                }
                if sim.queue.iter().find(|m| m.peer == p).map(|m| dup_missing(&m.data).is_some()).unwrap_or(false) {
                    v.push(Ev::DeliverDupMissing(p));
                }
            }
        }
        v
    }

    fn apply(&self, sim: &mut Sim, ev: &Ev) {
        match ev {
            Ev::FetchTx(i) => {
                self.track.borrow_mut().calls += 1;
                self.call_tx(sim, *i);
            }
            Ev::FetchHeader(i) => {
                self.track.borrow_mut().calls += 1;
                self.call_hd(sim, *i);
            }
            Ev::FetchTick => {
                self.track.borrow_mut().fetch_ticks += 1;
                sim.cm().tick_lc(1);
                sim.pump_out();
            }
            Ev::Refresh(i) => {
                self.track.borrow_mut().refreshes += 1;
                sim.advance(REFRESH[*i]);
                sim.cm().tick_lc(0);
                sim.pump_out();
            }
            Ev::Deliver(p) => {
                self.deliver_front_of(sim, *p);
            }
            Ev::DeliverSecond(p) => {
                if let Some(i) = sim.queue.iter().enumerate().filter(|(_, m)| m.peer == *p).map(|(i, _)| i).nth(1) {
                    let m = sim.queue.remove(i).unwrap();
                    if m.proto == Proto::LightClient {
                        self.note_missing(&m.data);
                    }
                    sim.deliver_msg(m);
                }
            }
            Ev::Disconnect(p) => {
                self.track.borrow_mut().disconnects += 1;
                sim.disconnect(*p);
            }
            Ev::Connect(p) => {
                self.track.borrow_mut().connects += 1;
                sim.connect(*p);
            }
            Ev::SilentSwitch(p) => {
                self.track.borrow_mut().silent += 1;
                sim.set_view(*p, 1, 15, false);
            }
            Ev::DeliverCorrupt(p) => {
                self.track.borrow_mut().corrupts += 1;
                if let Some(i) = sim.queue.iter().position(|m| m.peer == *p) {
                    let mut m = sim.queue.remove(i).unwrap();
                    if let Some(d) = corrupt(&m.data) {
                        m.data = d;
                        m.note = format!("{} [bogus proof]", m.note);
                    }
                    sim.deliver_msg(m);
                }
            }
            Ev::DeliverDupMissing(p) => {
                self.track.borrow_mut().corrupts += 1;
                if let Some(i) = sim.queue.iter().position(|m| m.peer == *p) {
                    let mut m = sim.queue.remove(i).unwrap();
                    if let Some(d) = dup_missing(&m.data) {
                        m.data = d;
                        m.note = format!("{} [one hash missing n times]", m.note);
                    }
                    // (what this deviating peer calls missing is no honest report)
                    sim.deliver_msg(m);
                }
            }
            Ev::ForkAll => {
                self.track.borrow_mut().forked = true;
                for p in 1..=2usize {
                    sim.set_view(p, 1, 16, sim.world.peer(p).connected);
                }
            }
        }
        self.after_event(sim);
    }

    fn check(&self, sim: &Sim, _hist: &[Ev]) -> Vec<(String, String)> {
        let mut bad: Vec<(String, String)> = self.track.borrow_mut().pending.drain(..).collect();
        bad.extend(self.committed_answers(sim));
        bad
    }

    fn fingerprint(&self, sim: &Sim) -> [u8; 32] {
        let mut hasher = ckb_hash::new_blake2b();
        hasher.update(&sim.c().db_hash());
        hasher.update(sim.c().peers.verif_dump(client::now()).as_bytes());
        for m in &sim.queue {
            hasher.update(&(m.peer as u64).to_le_bytes());
            hasher.update(&m.data);
        }
        for p in &sim.world.peers {
            hasher.update(&[p.chain as u8, p.connected as u8]);
            hasher.update(&p.height.to_le_bytes());
        }
        let t = self.track.borrow();
        hasher.update(&[t.calls as u8, t.fetch_ticks as u8, t.refreshes as u8, t.disconnects as u8, t.connects as u8, t.silent as u8, t.forked as u8, t.corrupts as u8]);
        for (i, s) in &t.tx_status {
            hasher.update(&[*i as u8, *s]);
        }
        for (i, s) in &t.hd_status {
            hasher.update(&[0x80 | *i as u8, *s]);
        }
        for h in &t.reported_missing {
            hasher.update(h.as_slice());
        }
        let mut out = [0u8; 32];
        hasher.finalize(&mut out);
        out
    }

    fn on_new_state(&self, sim: &mut Sim, _hist: &[Ev]) -> Vec<(String, String)> {
        match crate::verif::props::panics::catch(|| self.continuation(sim)) {
            Ok(bad) => bad,
            Err(p) => {
                self.track.borrow_mut().pending.clear();
                // the client followed a (silently switched) peer onto a branch and is now more than
                // last-N blocks beyond the fork point, while the continuation's peers are on the
                // other branch: the documented long-fork abort, not a lost fetch
                let (_, tip) = sim.c().storage.get_last_state();
                let n: u64 = tip.raw().number().unpack();
                if p.msg.contains("long fork detected") && n > FORK_AT + 3 {
                    return vec![("~not-judged/documented-long-fork".into(), String::new())];
                }
                vec![(format!("abort-in-continuation/{}", p.site()), p.describe())]
            }
        }
    }
}

impl<'a> FetchModel<'a> {
    fn continuation(&self, sim: &mut Sim) -> Vec<(String, String)> {
        // honest continuation: both peers honest on one chain (the fork if it was announced, the
        // main chain otherwise), everything in flight delivered, timers running, calls repeated
        let mut forked = self.track.borrow().forked;
        // a stored tip more than last-N blocks beyond the fork point binds the continuation to its
        // branch: the way back to the other branch is the documented long-fork abort (a peer that
        // switched silently to the heavier fork and was proven again gets the client there
        // without any announcement the model tracks)
        {
            let (_, tip) = sim.c().storage.get_last_state();
            let n: u64 = tip.raw().number().unpack();
            if n > FORK_AT + 3 {
                forked = self.fork.number_of(&tip.calc_header_hash()).is_some() && self.main.number_of(&tip.calc_header_hash()).is_none();
            }
        }
        // (one block beyond what the client has seen: a peer that reconnects at the stored tip's
        // height cannot be proven again before the chain grows)
        // ... and strictly heavier than any branch a peer has shown (a silent switch shows fork@15):
        // a stored tip that no connected peer follows can serve no fetch until it is replaced
        let (chain, height) = if forked { (1usize, 17u64) } else { (0usize, 17u64) };
        for p in 1..=2usize {
            if sim.bans().iter().any(|(b, _)| b.value() == p) {
                continue;
            }
            if !sim.world.peer(p).connected {
                sim.connect(p);
            }
            let moved = sim.world.peer(p).chain != chain || sim.world.peer(p).height != height;
            if moved {
                sim.set_view(p, chain, height, true);
            }
        }
        let asked_tx: Vec<usize> = self.track.borrow().tx_status.keys().cloned().collect();
        let asked_hd: Vec<usize> = self.track.borrow().hd_status.keys().cloned().collect();
        let the_chain = if forked { &self.fork } else { &self.main };
        let mut bad = vec![];
        let mut final_tx: BTreeMap<usize, St> = BTreeMap::new();
        let mut final_hd: BTreeMap<usize, St> = BTreeMap::new();
        for _round in 0..6 {
            // deliveries (recording what is reported missing), then the timers
            for _ in 0..200 {
                if sim.queue.is_empty() {
                    break;
                }
                let p = sim.queue[0].peer;
                self.deliver_front_of(sim, p);
                self.after_event(sim);
            }
            sim.advance(3_000);
            if std::env::var("VERIF_TRACE").is_ok() {
                let tip = sim.c().storage.get_tip_header();
                eprintln!("round: tip #{} best {:?} to-fetch {}/{} busy {:?}", Unpack::<u64>::unpack(&tip.raw().number()), sim.c().peers.get_best_proved_peers(&tip), sim.c().peers.get_headers_to_fetch().len(), sim.c().peers.get_txs_to_fetch().len(), (1..=2usize).map(|p| sim.c().peers.get_peer(&ckb_network::PeerIndex::new(p)).map(|x| (x.get_blocks_proof_request().is_some(), x.get_txs_proof_request().is_some()))).collect::<Vec<_>>());
            }
            sim.tick_all();
            self.after_event(sim);
            for i in &asked_tx {
                let st = self.call_tx(sim, *i);
                final_tx.insert(*i, st);
            }
            for i in &asked_hd {
                let st = self.call_hd(sim, *i);
                final_hd.insert(*i, st);
            }
        }
        bad.extend(self.track.borrow_mut().pending.drain(..));
        if sim.bans().iter().any(|(b, _)| b.value() == 1 || b.value() == 2) && !sim.world.peers.iter().any(|p| p.connected) {
            return vec![("~not-judged/all-peers-banned".into(), String::new())];
        }
        // no request is lost: on-chain items end fetched, unknown ones not_found (seen at least
        // once during the continuation, since the not_found call re-adds the request)
        for i in &asked_tx {
            let on_chain = the_chain.tx_block.get(&self.txs[*i]).map(|n| *n < height).unwrap_or(false);
            let st = final_tx[i];
            if on_chain && st != 3 {
                bad.push((
                    "fetch-lost/transaction".into(),
                    format!("{} is on the proven chain and was requested, but after the honest continuation fetch_transaction still reports {}", TX_NAMES[*i], ["never-asked", "added", "fetching", "fetched", "not_found"][st as usize]),
                ));
            }
            if !on_chain && st == 2 {
                // unknown items cycle added -> fetching -> not_found -> added ...; being stuck in
                // `fetching` for 6 rounds of 3 s with idle honest peers means the request is lost
                let h: H256 = self.txs[*i].unpack();
                let stuck = (0..3).all(|_| {
                    sim.advance(3_000);
                    sim.tick_all();
                    let _ = sim.deliver_all_fifo(200);
                    matches!(sim.c().rpc_tx().fetch_transaction(h.clone()), Ok(FetchStatus::Fetching { .. }))
                });
                if stuck {
                    bad.push(("fetch-lost/transaction".into(), format!("{} (not on the chain) stays `fetching` forever: no peer is asked again and nobody reported it missing", TX_NAMES[*i])));
                }
            }
        }
        for i in &asked_hd {
            let on_chain = the_chain.number_of(&self.hds[*i]).map(|n| n < height).unwrap_or(false);
            let st = final_hd[i];
            if on_chain && st != 3 {
                bad.push((
                    "fetch-lost/header".into(),
                    format!("{} is on the proven chain and was requested, but after the honest continuation fetch_header still reports {}", HD_NAMES[*i], ["never-asked", "added", "fetching", "fetched", "not_found"][st as usize]),
                ));
            }
            if !on_chain && st == 2 {
                // (as for transactions: an unknown header cycles added -> fetching -> not_found)
                let h: H256 = self.hds[*i].unpack();
                let stuck = (0..3).all(|_| {
                    sim.advance(3_000);
                    sim.tick_all();
                    let _ = sim.deliver_all_fifo(200);
                    matches!(sim.c().rpc_chain().fetch_header(h.clone()), Ok(FetchStatus::Fetching { .. }))
                });
                if stuck {
                    bad.push(("fetch-lost/header".into(), format!("{} (not on the chain) stays `fetching` forever: no peer is asked again and nobody reported it missing", HD_NAMES[*i])));
                }
            }
        }
        bad.extend(self.committed_answers(sim));
        bad
    }
}

/// A SendBlocksProof / SendTransactionsProof with data, whose MMR proof is replaced by a bogus one.
fn corrupt(data: &[u8]) -> Option<ckb_network::bytes::Bytes> {
    let msg = packed::LightClientMessage::from_compatible_slice(data).ok()?;
    let bogus = packed::HeaderDigestVec::new_builder().push(packed::HeaderDigest::default()).build();
    match msg.to_enum() {
        packed::LightClientMessageUnion::SendBlocksProof(m) if !m.headers().is_empty() => {
            Some(packed::LightClientMessage::new_builder().set(m.as_builder().proof(bogus).build()).build().as_bytes())
        }
        packed::LightClientMessageUnion::SendTransactionsProof(m) if !m.filtered_blocks().is_empty() => {
            Some(packed::LightClientMessage::new_builder().set(m.as_builder().proof(bogus).build()).build().as_bytes())
        }
        _ => None,
    }
}

/// A SendTransactionsProof answering >= 2 hashes, rewritten to "the first requested hash is
/// missing", repeated once per requested hash.
fn dup_missing(data: &[u8]) -> Option<ckb_network::bytes::Bytes> {
    let msg = packed::LightClientMessage::from_compatible_slice(data).ok()?;
    match msg.to_enum() {
        packed::LightClientMessageUnion::SendTransactionsProof(m) => {
            let mut requested: Vec<packed::Byte32> = vec![];
            for fb in m.filtered_blocks().into_iter() {
                for tx in fb.transactions().into_iter() {
                    requested.push(tx.calc_tx_hash());
                }
            }
            requested.extend(m.missing_tx_hashes().into_iter());
            if requested.len() < 2 {
                return None;
            }
            let dup: Vec<packed::Byte32> = requested.iter().map(|_| requested[0].clone()).collect();
            let c = packed::SendTransactionsProof::new_builder().last_header(m.last_header()).missing_tx_hashes(dup.pack()).build();
            Some(packed::LightClientMessage::new_builder().set(c).build().as_bytes())
        }
        _ => None,
    }
}

fn build_chains(env: &Env) -> (Chain, Chain) {
    let mut main = Chain::new(std::sync::Arc::clone(&env.consensus), scen::wavy_plan(6));
    let acts = vec![
        (2, Act::Mine('A')),
        (3, Act::Mine('A')),
        (5, Act::Move('A', 'B')),
        (7, Act::Move('A', 'A')),
        (9, Act::Mine('C')),
        (10, Act::Mine('C')),
        (12, Act::Move('C', 'C')),
        (13, Act::Move('C', 'C')),
    ];
    scen::extend_chain(&mut main, &env.scripts, 20, &acts);
    let mut fork = main.fork(FORK_AT, 4711);
    scen::extend_chain(&mut fork, &env.scripts, 24, &[(12, Act::Mine('A')), (13, Act::Mine('C')), (14, Act::Move('C', 'A'))]);
    (main, fork)
}

/// A fork switch away and back (main -> fork -> main, both within last-N = 10) with both blocks of
/// height 12 stored: the header of main#12 is fetched, the peers adopt the fork, the header of
/// fork#12 is fetched, the peers return to the (meanwhile heavier) main chain, and transaction Y
/// of main#12 is fetched. Every committed answer must name a stored block whose transactions
/// root commits to the transaction - the per-height slot must point to main#12 again.
fn switch_back_pass(env: &Env, report: &mut Report) {
    let mut m = make_model(env, 0, true);
    m.cfg.last_n = 10;
    // (no check point may become final inside the forked range: a reorganisation below a final
    // check point is outside every property - in production the interval is 2000, last-N 100)
    m.cfg.cp_interval = 40;
    let mut sim = m.init(None);
    sim.record_trace = true;
    // (one serving peer: two peers that sit on different branches for a while are C05's subject)
    sim.disconnect(2);
    let mut round = |sim: &mut Sim| {
        sim.cm().tick_lc(1);
        sim.pump_out();
        let _ = sim.converge(80);
    };
    let r = crate::verif::props::panics::catch(|| {
        m.call_hd(&mut sim, 1);
        round(&mut sim);
        m.call_hd(&mut sim, 1);
        sim.set_view(1, 1, 17, true);
        let _ = sim.converge(80);
        m.call_hd(&mut sim, 2);
        round(&mut sim);
        m.call_hd(&mut sim, 2);
        sim.set_view(1, 0, 20, true);
        let _ = sim.converge(80);
        m.call_tx(&mut sim, 1);
        round(&mut sim);
        m.call_tx(&mut sim, 1)
    });
    report.count("switch_back_runs", 1);
    report.count("transitions", 1);
    let final_status = match r {
        Err(p) => {
            if !p.msg.contains("long fork detected") {
                report.violation(format!("abort/{}", p.site()), format!("{} [fork switch away and back]", p.describe()), json!({"scenario": "switch-back"}));
            }
            return;
        }
        Ok(st) => st,
    };
    let mut bad: Vec<(String, String)> = m.track.borrow_mut().pending.drain(..).collect();
    if !sim.bans().is_empty() {
        bad.push(("honest-peer-banned".into(), format!("{:?}", sim.bans())));
    }
    let tip_ok = sim.c().tip_number() == 20;
    if final_status != 3 || !tip_ok {
        bad.push(("harness/switch-back-not-reached".into(), format!("Y ends with status {} and the tip is {} (the pass would be vacuous)", final_status, sim.c().tip_number())));
    }
    // a transaction of an ABANDONED block (YF: only the fork contains it; it was indexed while the
    // fork was the best chain) that is reported committed in the block which replaced it is the
    // recorded finding (records keyed by block number survive a rollback) reached another way;
    // a transaction of the FINAL chain reported in the wrong block is not
    for (class, detail) in m.committed_answers(&sim) {
        if class == "committed-in-a-block-that-does-not-contain-it" && detail.starts_with(TX_NAMES[3]) {
            report.violation(format!("{}/fork", class), format!("[switch-back pass] {}", detail), json!({"scenario": "switch-back", "transaction": TX_NAMES[3]}));
        } else {
            bad.push((class, detail));
        }
    }
    for (class, items) in crate::verif::oracle::group(bad) {
        report.violation(
            format!("{}/switch-back", class),
            format!("[main -> fork -> main with the headers of main#12 and fork#12 fetched, then fetch_transaction(Y of main#12)] {}", items[0]),
            json!({"scenario": "switch-back", "all": items, "trace": sim.trace.iter().rev().take(60).rev().collect::<Vec<_>>()}),
        );
    }
}

fn parse_ev(s: &str) -> Option<Ev> {
    let (name, a) = bfs::parse_call(s);
    Some(match name.as_str() {
        "FetchTx" => Ev::FetchTx(*a.first()? as usize),
        "FetchHeader" => Ev::FetchHeader(*a.first()? as usize),
        "FetchTick" => Ev::FetchTick,
        "Refresh" => Ev::Refresh(*a.first()? as usize),
        "Deliver" => Ev::Deliver(*a.first()? as usize),
        "DeliverSecond" => Ev::DeliverSecond(*a.first()? as usize),
        "Disconnect" => Ev::Disconnect(*a.first()? as usize),
        "Connect" => Ev::Connect(*a.first()? as usize),
        "SilentSwitch" => Ev::SilentSwitch(*a.first()? as usize),
        "ForkAll" => Ev::ForkAll,
        "DeliverCorrupt" => Ev::DeliverCorrupt(*a.first()? as usize),
        "DeliverDupMissing" => Ev::DeliverDupMissing(*a.first()? as usize),
        _ => return None,
    })
}

fn signature(hist: &[Ev], class: &str) -> String {
    // a stale (transaction, block) answer after a fork has one root cause whatever else happened
    if class.starts_with("committed-in-a-block-that-does-not-contain-it") && hist.iter().any(|e| matches!(e, Ev::ForkAll)) {
        return format!("{}/fork", class);
    }
    let kinds: BTreeSet<String> = hist
        .iter()
        .filter_map(|e| match e {
            Ev::SilentSwitch(_) => Some("silent-switch".to_owned()),
            Ev::ForkAll => Some("fork".to_owned()),
            Ev::Disconnect(_) => Some("disconnect".to_owned()),
            Ev::Refresh(1) => Some("timeout".to_owned()),
            Ev::DeliverCorrupt(_) => Some("bogus-proof".to_owned()),
            Ev::DeliverDupMissing(_) => Some("dup-missing".to_owned()),
            _ => None,
        })
        .collect();
    format!("{}/{}", class, kinds.into_iter().collect::<Vec<_>>().join("+"))
}

const START_NAMES: [&str; 4] = ["idle", "in-flight", "two-headers+tx12", "two-headers+tx13"];

fn start_of(config: &str) -> u8 {
    START_NAMES.iter().position(|n| *n == config).unwrap_or(0) as u8
}

fn make_model<'a>(env: &'a Env, start_in_flight: u8, all_calls: bool) -> FetchModel<'a> {
    let (main, fork) = build_chains(env);
    let x = main.blocks[7].transactions()[1].hash();
    let y = main.blocks[12].transactions()[1].hash();
    let z = crate::verif::txlib::build_tx(&[], &[packed::OutPoint::new(x.clone(), 7)], &[crate::verif::txlib::OutSpec::lock(&env.scripts.c, 1)], 0xbad).hash();
    let yf = fork.blocks[12].transactions()[0].hash();
    let hz = packed::Byte32::new_unchecked(vec![0x5au8; 32].into());
    let w = main.blocks[13].transactions()[1].hash();
    FetchModel {
        env,
        txs: vec![x, y, z, yf, w],
        hds: vec![main.blocks[6].hash(), main.blocks[12].hash(), fork.blocks[12].hash(), hz, main.blocks[13].hash()],
        main,
        fork,
        cfg: ClientCfg { last_n: 3, max_outbound: 2, cp_interval: 4, ..Default::default() },
        start_in_flight,
        ask_txs: if all_calls { vec![0, 1, 2, 3] } else { vec![1, 2] },
        ask_hds: if all_calls { vec![0, 1, 2, 3] } else { vec![0, 3] },
        track: RefCell::new(Track::default()),
    }
}

pub(crate) fn run(opts: &Opts, report: &mut Report) {
    let thorough = opts.thorough();
    // a recorded event list is replayed directly
    if let Some((config, events)) = opts.replay.as_deref().and_then(bfs::read_replay) {
        let env = Env::dummy();
        let m = make_model(&env, start_of(&config), true);
        let evs: Vec<Ev> = events.iter().filter_map(|e| parse_ev(e)).collect();
        let mut rep = |hist: &[Ev], class: String, detail: String| {
            if !class.starts_with("~not-judged") {
                report.violation(signature(hist, &class), format!("[{}] after {:?}: {}", config, hist, detail), json!({"config": config, "events": hist.iter().map(|e| format!("{:?}", e)).collect::<Vec<_>>(), "transactions": TX_NAMES, "headers": HD_NAMES}));
            }
        };
        bfs::replay_one(&m, &evs, &mut rep);
        return;
    }
    // (start state, max depth)
    let configs: Vec<(u8, usize)> = if thorough { vec![(0, 4), (1, 4), (2, 3), (3, 3)] } else { vec![(0, 3), (1, 3), (2, 2), (3, 2)] };
    const SHARDS: usize = 16;
    let n_items = configs.len() * SHARDS + 1;
    let worker = crate::verif::props::shard::run("C16", opts, report, n_items, 16, |item, report| {
        let env = Env::dummy();
        if item == configs.len() * SHARDS {
            switch_back_pass(&env, report);
            return;
        }
        let (start_in_flight, max_depth) = configs[item / SHARDS];
        let shard = item % SHARDS;
        let m = make_model(&env, start_in_flight, thorough);
        let mut st0 = bfs::Stats::default();
        let all_roots = bfs::roots(&m, 2, &mut st0);
        let mine: Vec<Vec<Ev>> = all_roots.iter().enumerate().filter(|(i, _)| i % SHARDS == shard).map(|(_, h)| h.clone()).collect();
        let shallow: Vec<Vec<Ev>> = if shard == 0 {
            let mut v = vec![vec![]];
            v.extend(bfs::roots(&m, 1, &mut st0));
            v
        } else {
            vec![]
        };
        let name = START_NAMES[start_in_flight as usize];
        let mut not_judged = 0u64;
        let stats = {
            let mut rep = |hist: &[Ev], class: String, detail: String| {
                if class.starts_with("~not-judged") {
                    not_judged += 1;
                    return;
                }
                report.violation(
                    signature(hist, &class),
                    format!("[{}] after {:?}: {}", name, hist, detail),
                    json!({"config": name, "events": hist.iter().map(|e| format!("{:?}", e)).collect::<Vec<_>>(), "transactions": TX_NAMES, "headers": HD_NAMES}),
                );
            };
            bfs::search(&m, mine, shallow, max_depth, if thorough { 300_000 } else { 20_000 }, &mut rep)
        };
        report.count("states", stats.states);
        report.count("transitions", stats.transitions);
        report.count("replays", stats.replays + st0.replays);
        report.count("events_applied", stats.applied_events);
        report.count("continuations_not_judged", not_judged);
        for (d, n) in stats.per_depth.iter().enumerate() {
            report.count(&format!("states_at_depth_{}/{}", d, name), *n);
        }
        if stats.capped {
            report.cap(&format!("{} shard {}: state cap reached at depth {}", name, shard, stats.max_depth));
        }
        if shard == 0 && item == 0 {
            report.sample(json!({"config": name, "example_events": all_roots.iter().take(12).map(|h| format!("{:?}", h)).collect::<Vec<_>>()}));
        }
    });
    if worker {
        return;
    }
    report.set("evaluations", json!(report.get("transitions")));
    report.set("distinct_nontrivial", json!(report.get("states")));
    report.set("traces_validated_against_impl", json!(report.get("replays")));
    report.set("rule", json!("state = event list replayed on the real client (fingerprint: store + peers + pending messages + world position + statuses seen + budgets); transitions = (state, enabled event) pairs executed; every state: status-step legality and truthfulness of committed answers; every distinct state: honest continuation (6 rounds of deliveries, timers and repeated calls)"));
    report.set("bounds", json!({"depth": if thorough { "4" } else { "3" }, "budgets": "calls <= 3, FETCH ticks <= 2, REFRESH ticks <= 2, disconnect <= 1, connect <= 1, silent switch <= 1, fork <= 1, bogus proof <= 1"}));
    report.assume("honest peers (what varies is timing, availability and the branch they follow); dummy PoW");
}

#[allow(dead_code)]
pub(crate) fn debug_case() {
    let env = Env::dummy();
    let m = make_model(&env, std::env::var("C16_INFLIGHT").ok().and_then(|x| x.parse().ok()).unwrap_or(0), true);
    let evs: Vec<Ev> = std::env::var("C16_EVENTS").unwrap_or_default().split(';').filter(|x| !x.trim().is_empty()).filter_map(parse_ev).collect();
    let mut sim = m.init(None);
    sim.record_trace = true;
    for (i, ev) in evs.iter().enumerate() {
        m.apply(&mut sim, ev);
        println!("after {:?}: {:?}", ev, m.check(&sim, &evs[..=i]));
    }
    println!("--- continuation");
    println!("continuation: {:?}", m.on_new_state(&mut sim, &evs));
    for l in &sim.trace {
        println!("{}", l);
    }
    println!("{}", sim.c().peers.verif_dump(client::now()));
    println!("bans {:?}", sim.bans());
}
