//! One module per property.
use crate::verif::report::Report;

pub(crate) mod c14;
pub(crate) mod panics;

pub(crate) struct Opts {
    pub tier: String,
    pub seed: u64,
    pub replay: Option<String>,
}

impl Opts {
    pub(crate) fn thorough(&self) -> bool {
        self.tier == "thorough"
    }
}

pub(crate) fn run(id: &str, opts: &Opts) -> Option<i32> {
    let mut report = Report::new(id, &opts.tier, opts.seed);
    match id {
        "C14" => c14::run(opts, &mut report),
        _ => return None,
    }
    Some(report.finish())
}
