//! One module per property.
use crate::verif::report::Report;

pub(crate) mod c01;
pub(crate) mod c02;
pub(crate) mod c03;
pub(crate) mod c04;
pub(crate) mod c05;
pub(crate) mod c06;
pub(crate) mod c07;
pub(crate) mod c08;
pub(crate) mod c09;
pub(crate) mod c11;
pub(crate) mod c12;
pub(crate) mod c10;
pub(crate) mod c13;
pub(crate) mod c14;
pub(crate) mod c15;
pub(crate) mod c16;
pub(crate) mod c17;
pub(crate) mod c18;
pub(crate) mod panics;
pub(crate) mod shard;
pub(crate) mod sweep;

pub(crate) struct Opts {
    pub tier: String,
    pub seed: u64,
    pub replay: Option<String>,
}

impl Opts {
    pub(crate) fn thorough(&self) -> bool {
        self.tier == "thorough"
    }
}

pub(crate) fn run(id: &str, opts: &Opts) -> Option<i32> {
    let mut report = Report::new(id, &opts.tier, opts.seed);
    match id {
        "C01" => c01::run(opts, &mut report),
        "C02" => c02::run(opts, &mut report),
        "C03" => c03::run(opts, &mut report),
        "C04" => c04::run(opts, &mut report),
        "C05" => c05::run(opts, &mut report),
        "C06" => c06::run(opts, &mut report),
        "C07" => c07::run(opts, &mut report),
        "C08" => c08::run(opts, &mut report),
        "C09" => c09::run(opts, &mut report),
        "C11" => c11::run(opts, &mut report),
        "C12" => c12::run(opts, &mut report),
        "C10" => c10::run(opts, &mut report),
        "C13" => c13::run(opts, &mut report),
        "C14" => c14::run(opts, &mut report),
        "C15" => c15::run(opts, &mut report),
        "C16" => c16::run(opts, &mut report),
        "C17" => c17::run(opts, &mut report),
        "C18" => c18::run(opts, &mut report),
        _ => return None,
    }
    if shard::child_item().is_some() {
        return Some(0);
    }
    if !shard::DEAD.lock().unwrap().is_empty() && id != "C10" {
        eprintln!("worker processes died: machinery failure, no verdict");
        return Some(2);
    }
    if let Some(file) = &opts.replay {
        return Some(report.finish_replay(file));
    }
    Some(report.finish())
}
