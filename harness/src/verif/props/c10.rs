//! C10 — no message from a peer can terminate the client.
//!
//! E-mut: for each scenario (a real history driven to the point where a given honest answer is
//! about to be delivered) every mutant of that answer is delivered to the real handler under
//! `catch_unwind`; every honest answer and structural mutant is also delivered in every other
//! scenario state, from the right and from a foreign peer.

use std::collections::BTreeMap;

use ckb_network::PeerIndex;
use ckb_types::{packed, prelude::*, H256};
use serde_json::json;

use crate::service::{ChainRpc, TransactionRpc};
use crate::storage::ScriptType;
use crate::verif::driver::{InFlight, Sim, World};
use crate::verif::mutate::{self, Mutant};
use crate::verif::net::Proto;
use crate::verif::props::{panics, Opts};
use crate::verif::report::{hex, Report};
use crate::verif::scen::{self, advance_until, kind_of, Env};
use crate::verif::world::Chain;

pub(crate) struct Worlds {
    pub main: Chain,  // 30 blocks
    pub fork: Chain,  // forks off main at 11, 16 blocks
}

pub(crate) fn worlds(env: &Env) -> Worlds {
    let main = scen::std_chain(env, 30, 6);
    let mut fork = main.fork(11, 99);
    scen::extend_chain(&mut fork, &env.scripts, 16, &[(13, scen::Act::Mine('A'))]);
    Worlds { main, fork }
}

#[derive(Clone, Copy, Debug, PartialEq, Eq)]
pub(crate) enum Scn {
    NoPeer,
    Connected,
    FirstProof,
    Ready,
    NewProofSampled,
    NewProofShort,
    ReorgProof,
    MatchedBlocksProof,
    MatchedBlocks,
    FetchProofs,
    CheckPoints,
    FilterHashes,
    Filters,
}

pub(crate) const ALL_SCN: [Scn; 13] = [
    Scn::NoPeer,
    Scn::Connected,
    Scn::FirstProof,
    Scn::Ready,
    Scn::NewProofSampled,
    Scn::NewProofShort,
    Scn::ReorgProof,
    Scn::MatchedBlocksProof,
    Scn::MatchedBlocks,
    Scn::FetchProofs,
    Scn::CheckPoints,
    Scn::FilterHashes,
    Scn::Filters,
];

fn is(kind: &'static str) -> impl FnMut(&InFlight) -> bool {
    move |m| kind_of(m) == kind
}

/// Builds the scenario; the "home" messages (honest answers about to be delivered) are the
/// front `n` entries of the queue, n is returned.
pub(crate) fn build(env: &Env, w: &Worlds, scn: Scn) -> (Sim, usize) {
    let mut world = World::new(vec![w.main.clone(), w.fork.clone()], 4);
    world.add_peer(1, 0, 12);
    world.filter_batch = 5;
    let mut sim = scen::new_sim(env, scen::default_cfg(), world);
    sim.record_trace = std::env::var("C10_TRACE").is_ok();
    let with_scripts = matches!(
        scn,
        Scn::MatchedBlocksProof | Scn::MatchedBlocks | Scn::Filters | Scn::FilterHashes | Scn::CheckPoints
    );
    if with_scripts {
        scen::register(
            &sim,
            &[
                (env.scripts.a.clone(), ScriptType::Lock, 0),
                (env.scripts.t.clone(), ScriptType::Type, 0),
            ],
        );
    }
    let ok = match scn {
        Scn::NoPeer => return (sim, 0),
        Scn::Connected => {
            sim.connect(1);
            true
        }
        Scn::FirstProof => {
            sim.connect(1);
            advance_until(&mut sim, is("SendLastStateProof"), 0, 50)
        }
        Scn::Ready => {
            assert!(scen::prove_peer(&mut sim, 1));
            sim.queue.clear();
            return (sim, 0);
        }
        Scn::NewProofSampled | Scn::NewProofShort | Scn::ReorgProof => {
            assert!(scen::prove_peer(&mut sim, 1));
            sim.queue.clear();
            match scn {
                Scn::NewProofSampled => sim.set_view(1, 0, 30, true),
                Scn::NewProofShort => sim.set_view(1, 0, 14, true),
                _ => sim.set_view(1, 1, 16, true),
            }
            sim.deliver(0);
            sim.cm().tick_lc(0);
            sim.pump_out();
            advance_until(&mut sim, is("SendLastStateProof"), 0, 10)
        }
        Scn::MatchedBlocksProof => {
            sim.connect(1);
            advance_until(&mut sim, is("SendBlocksProof"), 0, 400)
        }
        Scn::MatchedBlocks => {
            sim.connect(1);
            advance_until(&mut sim, is("SendBlock"), 0, 400)
        }
        Scn::FetchProofs => {
            assert!(scen::prove_peer(&mut sim, 1));
            sim.queue.clear();
            let h6: H256 = w.main.blocks[6].hash().unpack();
            let tx7: H256 = w.main.blocks[7].transactions()[1].hash().unpack();
            let _ = sim.c().rpc_chain().fetch_header(h6);
            let _ = sim.c().rpc_tx().fetch_transaction(tx7);
            sim.cm().tick_lc(1);
            sim.pump_out();
            let n = sim.queue.len();
            return (sim, n);
        }
        Scn::CheckPoints => {
            sim.connect(1);
            advance_until(&mut sim, is("BlockFilterCheckPoints"), 0, 400)
        }
        Scn::FilterHashes => {
            sim.connect(1);
            advance_until(&mut sim, is("BlockFilterHashes"), 0, 400)
        }
        Scn::Filters => {
            sim.connect(1);
            advance_until(&mut sim, is("BlockFilters"), 1, 400)
        }
    };
    if !ok {
        for l in &sim.trace {
            eprintln!("  {}", l);
        }
        eprintln!("queue: {:?}", sim.queue.iter().map(|m| m.note.clone()).collect::<Vec<_>>());
    }
    assert!(ok, "scenario {:?} could not be reached (machinery)", scn);
    (sim, 1)
}

struct Sweep<'a> {
    env: &'a Env,
    w: &'a Worlds,
    report: &'a mut Report,
    deliveries: u64,
    rebuilds: u64,
    panics_seen: u64,
    state_changes: u64,
    bans: u64,
    sites: BTreeMap<String, u64>,
}

impl<'a> Sweep<'a> {
    /// Delivers `data` on `proto` as `peer`; returns true if the scenario must be rebuilt.
    fn deliver(
        &mut self,
        sim: &mut Sim,
        scn: Scn,
        before: &str,
        proto: &Proto,
        peer: usize,
        data: ckb_network::bytes::Bytes,
        label: &str,
    ) -> bool {
        self.deliveries += 1;
        let p = PeerIndex::new(peer);
        let r = panics::catch(|| {
            let c = sim.cm();
            match proto {
                Proto::LightClient => c.recv_lc(p, data.clone()),
                Proto::Filter => c.recv_filter(p, data.clone()),
                Proto::Sync => c.recv_sync(p, data.clone()),
                Proto::Relay => c.recv_relay(p, data.clone()),
            }
        });
        let mut rebuild = false;
        let mut panic_rec = r.err();
        if panic_rec.is_none() {
            let _ = sim.c().out.take_sent();
            self.bans += sim.c().out.take_bans().len() as u64;
            let after = sim.c().light_print();
            if after != before {
                self.state_changes += 1;
                rebuild = true;
                // an accepted message must not make a later timer abort either
                let r2 = panics::catch(|| {
                    sim.advance(10);
                    sim.tick_all();
                });
                panic_rec = r2.err();
            }
        }
        if let Some(p) = panic_rec {
            if p.msg.contains("long fork detected") {
                self.report.count("documented_long_fork_panics", 1);
                return true;
            }
            self.panics_seen += 1;
            *self.sites.entry(p.site()).or_insert(0) += 1;
            let data_hex = if data.len() <= 4096 {
                hex(&data)
            } else {
                format!("{}… ({} bytes)", hex(&data[..64]), data.len())
            };
            self.report.violation(
                format!("abort/{}", p.site()),
                format!("{} [scenario {:?}, {:?} message from peer {}, mutant {}]", p.describe(), scn, proto, peer, label),
                json!({"scenario": format!("{:?}", scn), "protocol": format!("{:?}", proto), "peer": peer, "mutant": label, "message_hex": data_hex}),
            );
            rebuild = true;
        }
        rebuild
    }

    fn sweep_scenario(&mut self, scn: Scn, thorough: bool, cross: &[(Proto, String, ckb_network::bytes::Bytes)]) {
        let (mut sim, n_home) = build(self.env, self.w, scn);
        let homes: Vec<InFlight> = sim.queue.iter().take(n_home).cloned().collect();
        let mut before = sim.c().light_print();
        self.report.count("scenarios", 1);
        macro_rules! go {
            ($proto:expr, $peer:expr, $data:expr, $label:expr) => {{
                if self.deliver(&mut sim, scn, &before, $proto, $peer, $data, $label) {
                    self.rebuilds += 1;
                    let (s, _) = build(self.env, self.w, scn);
                    sim = s;
                    before = sim.c().light_print();
                }
            }};
        }
        for home in &homes {
            let kind = kind_of(home);
            self.report.count(&format!("home/{:?}/{}", scn, kind), 1);
            // the honest message itself is NOT delivered here (it would advance the history);
            // mutants:
            let mut muts: Vec<Mutant> = vec![];
            mutate::byte_windows(&home.data, thorough, |m| muts.push(m));
            mutate::truncations(&home.data, |m| muts.push(m));
            if thorough {
                mutate::bit_flips(&home.data, |m| muts.push(m));
            }
            muts.extend(mutate::structural(&home.proto, &home.data));
            for m in muts {
                go!(&home.proto, home.peer, m.data.clone(), &m.label);
                if home.proto == Proto::LightClient {
                    // the same mutant with the attacker-controlled commitments recomputed
                    if let Some(resealed) = mutate::reseal_lc(&self.env.consensus, &m.data) {
                        if resealed != m.data {
                            let label = format!("{}+resealed", m.label);
                            go!(&home.proto, home.peer, resealed, &label);
                        }
                    }
                }
            }
        }
        // every honest message / structural mutant / bare variant of the whole alphabet in this
        // state, from the known peer and from a peer the client never connected
        for (proto, label, data) in cross {
            for peer in [1usize, 7] {
                let l = format!("cross:{}", label);
                go!(proto, peer, data.clone(), &l);
            }
        }
    }
}

pub(crate) fn run(opts: &Opts, report: &mut Report) {
    let thorough = opts.thorough();
    let envs: Vec<Env> = if thorough {
        vec![Env::dummy(), Env::eaglesong()]
    } else {
        vec![Env::dummy()]
    };
    let mut total = (0u64, 0u64, 0u64, 0u64, 0u64);
    let mut sites_all: BTreeMap<String, u64> = BTreeMap::new();
    for env in &envs {
        let w = worlds(env);
        // the cross alphabet: honest home messages of every scenario + their structural mutants
        // + one bare message of every union variant
        let mut cross: Vec<(Proto, String, ckb_network::bytes::Bytes)> = vec![];
        for scn in ALL_SCN {
            let (sim, n) = build(env, &w, scn);
            for home in sim.queue.iter().take(n) {
                cross.push((home.proto.clone(), format!("{:?}/{}", scn, kind_of(home)), home.data.clone()));
                for m in mutate::structural(&home.proto, &home.data) {
                    cross.push((home.proto.clone(), format!("{:?}/{}/{}", scn, kind_of(home), m.label), m.data));
                }
                if let Some(r) = mutate::reseal_lc(&env.consensus, &home.data) {
                    cross.push((home.proto.clone(), format!("{:?}/{}/resealed", scn, kind_of(home)), r));
                }
            }
        }
        for (proto, name, data) in mutate::all_variants() {
            cross.push((proto, format!("bare/{}", name), data));
        }
        // four junk byte strings per protocol
        for proto in [Proto::LightClient, Proto::Filter, Proto::Sync, Proto::Relay] {
            for (i, junk) in [vec![], vec![2u8, 3, 4, 5], vec![0xff; 64], vec![0u8; 64]].into_iter().enumerate() {
                cross.push((proto.clone(), format!("junk{}", i), junk.into()));
            }
        }
        report.count("cross_alphabet", cross.len() as u64);
        let mut sweep = Sweep {
            env,
            w: &w,
            report,
            deliveries: 0,
            rebuilds: 0,
            panics_seen: 0,
            state_changes: 0,
            bans: 0,
            sites: BTreeMap::new(),
        };
        for scn in ALL_SCN {
            sweep.sweep_scenario(scn, thorough, &cross);
        }
        total.0 += sweep.deliveries;
        total.1 += sweep.rebuilds;
        total.2 += sweep.panics_seen;
        total.3 += sweep.state_changes;
        total.4 += sweep.bans;
        for (k, v) in sweep.sites {
            *sites_all.entry(k).or_insert(0) += v;
        }
    }
    report.set("states", json!(ALL_SCN.len() * envs.len()));
    report.set("transitions", json!(total.0));
    report.set("traces_validated_against_impl", json!(total.0));
    report.set("evaluations", json!(total.0));
    report.set("distinct_nontrivial", json!(total.0));
    report.set("rule", json!("states = receiver scenarios (real histories stopped where an honest answer is pending); transitions = mutant deliveries to the real `received` under catch_unwind (+ a timer round after every accepted one); mutants are distinct by construction (window offset x width x value, truncation length, structural operator, re-sealed twin)"));
    report.set("rebuilds_after_state_change_or_panic", json!(total.1));
    report.set("panics", json!(total.2));
    report.set("deliveries_that_changed_state", json!(total.3));
    report.set("bans", json!(total.4));
    report.set("panic_sites", json!(sites_all));
    report.sample(json!({"scenario": "FirstProof", "home": "SendLastStateProof", "mutant": "window(off=..,w=32,v=0) + resealed twin"}));
    report.sample(json!({"scenario": "Filters", "home": "BlockFilters", "mutant": "filters+hashes:doubled"}));
    report.assume("Dummy PoW (quick) / Dummy + Eaglesong with easy targets (thorough); hash collisions excluded");
    report.assume("the documented `long fork detected` panic is not counted");
}
