//! C10 — no message from a peer can terminate the client.
//!
//! E-mut: for each scenario (a real history driven to the point where a given honest answer is
//! about to be delivered) every mutant of that answer is delivered to the real handler under
//! `catch_unwind`; every honest answer and structural mutant is also delivered in every other
//! scenario state, from the right and from a foreign peer.

use std::collections::BTreeMap;

use ckb_network::PeerIndex;
use ckb_types::{packed, prelude::*, H256};
use serde_json::json;

use crate::service::{ChainRpc, TransactionRpc};
use crate::storage::ScriptType;
use crate::verif::driver::{InFlight, Sim, World};
use crate::verif::mutate::{self, Mutant};
use crate::verif::net::Proto;
use crate::verif::props::{panics, Opts};
use crate::verif::report::{hex, Report};
use crate::verif::scen::{self, advance_until, kind_of, Env};
use crate::verif::world::Chain;

/// Shape of the scenario worlds (defaults = the C10 worlds).
#[derive(Clone, Debug)]
pub(crate) struct Params {
    pub main_len: u64,
    /// height the peer first announces
    pub h1: u64,
    /// later announcements: sampled path, short path
    pub h_sampled: u64,
    pub h_short: u64,
    pub fork_at: u64,
    pub fork_tip: u64,
    pub last_n: u64,
    pub epoch_len: u64,
    pub mmr_epoch: u64,
    pub filter_batch: u64,
    pub seed: u64,
    /// peers answer GetBlocksProof / GetTransactionsProof with the V1 layout
    pub proof_v1: bool,
}

impl Default for Params {
    fn default() -> Self {
        Params {
            main_len: 30,
            h1: 12,
            h_sampled: 30,
            h_short: 14,
            fork_at: 11,
            fork_tip: 24,
            last_n: 2,
            epoch_len: 6,
            mmr_epoch: 0,
            filter_batch: 5,
            seed: 0xC0FFEE,
            proof_v1: false,
        }
    }
}

pub(crate) struct Worlds {
    pub main: Chain,
    /// forks off main at `fork_at`
    pub fork: Chain,
    /// same content as main up to h1, but only the tip (h1) is mined (Eaglesong only)
    pub unmined: Chain,
}

pub(crate) fn worlds(env: &Env) -> Worlds {
    worlds_with(env, &Params::default())
}

pub(crate) fn worlds_with(env: &Env, p: &Params) -> Worlds {
    let main = scen::std_chain(env, p.main_len, p.epoch_len);
    let mut fork = main.fork(p.fork_at, 99);
    scen::extend_chain(&mut fork, &env.scripts, p.fork_tip, &[(p.fork_at + 2, scen::Act::Mine('A'))]);
    let mut unmined = Chain::new(std::sync::Arc::clone(&env.consensus), scen::wavy_plan(p.epoch_len));
    unmined.salt = 5;
    unmined.mine = false;
    scen::extend_chain(&mut unmined, &env.scripts, p.h1 - 1, &scen::std_acts());
    unmined.mine = true;
    scen::extend_chain(&mut unmined, &env.scripts, p.h1, &[]);
    Worlds { main, fork, unmined }
}

#[derive(Clone, Copy, Debug, PartialEq, Eq)]
pub(crate) enum Scn {
    NoPeer,
    Connected,
    FirstProof,
    Ready,
    NewProofSampled,
    NewProofShort,
    ReorgProof,
    /// proven peer, the announcement of a last state far ahead (sampled path) is pending
    NewLastState,
    MatchedBlocksProof,
    MatchedBlocks,
    FetchProofs,
    /// fetch requests outstanding, the peer switched to the fork branch and announced its new
    /// last state: the pending answers are "my tip changed" answers whose last header IS the
    /// last state the client has on record for the peer
    FetchNewTip,
    CheckPoints,
    FilterHashes,
    Filters,
    /// first proof pending for a chain whose non-tip headers fail PoW (meaningful on Eaglesong)
    UnminedProof,
}

pub(crate) const ALL_SCN: [Scn; 15] = [
    Scn::NoPeer,
    Scn::Connected,
    Scn::FirstProof,
    Scn::Ready,
    Scn::NewProofSampled,
    Scn::NewProofShort,
    Scn::ReorgProof,
    Scn::NewLastState,
    Scn::MatchedBlocksProof,
    Scn::MatchedBlocks,
    Scn::FetchProofs,
    Scn::FetchNewTip,
    Scn::CheckPoints,
    Scn::FilterHashes,
    Scn::Filters,
];

fn is(kind: &'static str) -> impl FnMut(&InFlight) -> bool {
    move |m| kind_of(m) == kind
}

/// Builds the scenario; the "home" messages (honest answers about to be delivered) are the
/// front `n` entries of the queue, n is returned.
pub(crate) fn build(env: &Env, w: &Worlds, scn: Scn) -> (Sim, usize) {
    build_on(env, w, scn, None)
}

pub(crate) fn build_on(env: &Env, w: &Worlds, scn: Scn, old: Option<Sim>) -> (Sim, usize) {
    build_with(env, w, &Params::default(), scn, old)
}

pub(crate) fn build_with(env: &Env, w: &Worlds, p: &Params, scn: Scn, old: Option<Sim>) -> (Sim, usize) {
    match try_build_with(env, w, p, scn, old) {
        Ok(r) => r,
        Err(sim) => {
            for l in &sim.trace {
                eprintln!("  {}", l);
            }
            panic!("scenario {:?} could not be reached (machinery)", scn);
        }
    }
}

/// `Err(sim)` if the world never produces the scenario's pending answer (e.g. no check points
/// are needed on a very short chain).
pub(crate) fn try_build_with(env: &Env, w: &Worlds, p: &Params, scn: Scn, old: Option<Sim>) -> Result<(Sim, usize), Sim> {
    let mut world = World::new(vec![w.main.clone(), w.fork.clone(), w.unmined.clone()], 4);
    if scn == Scn::UnminedProof {
        world.add_peer(1, 2, p.h1);
    } else {
        world.add_peer(1, 0, p.h1);
    }
    world.filter_batch = p.filter_batch;
    if p.proof_v1 {
        world.peer_mut(1).version = crate::verif::world::ProofVersion::V1;
    }
    let cfg = crate::verif::client::ClientCfg {
        last_n: p.last_n,
        mmr_activated_epoch: p.mmr_epoch,
        ..scen::default_cfg()
    };
    crate::verif::client::set_now(crate::verif::world::BASE_TS + 1_000_000);
    let mut sim = match old {
        Some(old) => Sim::recycle(old, cfg, world),
        None => scen::new_sim(env, cfg, world),
    };
    crate::verif_hooks::rng_reset(p.seed);
    sim.record_trace = std::env::var("C10_TRACE").is_ok();
    let with_scripts = matches!(
        scn,
        Scn::MatchedBlocksProof | Scn::MatchedBlocks | Scn::Filters | Scn::FilterHashes | Scn::CheckPoints
    );
    if with_scripts {
        scen::register(
            &sim,
            &[
                (env.scripts.a.clone(), ScriptType::Lock, 0),
                (env.scripts.t.clone(), ScriptType::Type, 0),
            ],
        );
    }
    let ok = match scn {
        Scn::NoPeer => return Ok((sim, 0)),
        Scn::Connected => {
            sim.connect(1);
            true
        }
        Scn::FirstProof | Scn::UnminedProof => {
            sim.connect(1);
            advance_until(&mut sim, is("SendLastStateProof"), 0, 50)
        }
        Scn::Ready => {
            assert!(scen::prove_peer(&mut sim, 1));
            sim.queue.clear();
            return Ok((sim, 0));
        }
        Scn::NewProofSampled | Scn::NewProofShort | Scn::ReorgProof => {
            assert!(scen::prove_peer(&mut sim, 1));
            sim.queue.clear();
            match scn {
                Scn::NewProofSampled => sim.set_view(1, 0, p.h_sampled, true),
                Scn::NewProofShort => sim.set_view(1, 0, p.h_short, true),
                _ => sim.set_view(1, 1, p.fork_tip, true),
            }
            sim.deliver(0);
            sim.cm().tick_lc(0);
            sim.pump_out();
            advance_until(&mut sim, is("SendLastStateProof"), 0, 10)
        }
        Scn::NewLastState => {
            assert!(scen::prove_peer(&mut sim, 1));
            sim.queue.clear();
            sim.set_view(1, 0, p.h_sampled, true);
            return Ok((sim, 1));
        }
        Scn::MatchedBlocksProof => {
            sim.connect(1);
            advance_until(&mut sim, is("SendBlocksProof"), 0, 400)
        }
        Scn::MatchedBlocks => {
            sim.connect(1);
            advance_until(&mut sim, is("SendBlock"), 0, 400)
        }
        Scn::FetchProofs => {
            assert!(scen::prove_peer(&mut sim, 1));
            sim.queue.clear();
            let h6: H256 = w.main.blocks[6].hash().unpack();
            let tx7: H256 = w.main.blocks[7].transactions()[1].hash().unpack();
            let _ = sim.c().rpc_chain().fetch_header(h6);
            let _ = sim.c().rpc_tx().fetch_transaction(tx7);
            // a second transaction from another block and a second header: the answers carry
            // several filtered blocks / headers
            if let Some(b) = w.main.blocks[2..7].iter().rev().find(|b| b.transactions().len() > 1) {
                let tx: H256 = b.transactions()[1].hash().unpack();
                let _ = sim.c().rpc_tx().fetch_transaction(tx);
            } else {
                let tx: H256 = w.main.blocks[3].transactions()[0].hash().unpack();
                let _ = sim.c().rpc_tx().fetch_transaction(tx);
            }
            let h4: H256 = w.main.blocks[4].hash().unpack();
            let _ = sim.c().rpc_chain().fetch_header(h4);
            // and a transaction no block contains (an honest server reports it as missing)
            let phantom: H256 = phantom_tx(w).hash().unpack();
            let _ = sim.c().rpc_tx().fetch_transaction(phantom);
            sim.cm().tick_lc(1);
            sim.pump_out();
            let n = sim.queue.len();
            return Ok((sim, n));
        }
        Scn::FetchNewTip => {
            assert!(scen::prove_peer(&mut sim, 1));
            sim.queue.clear();
            let h6: H256 = w.main.blocks[6].hash().unpack();
            let tx7: H256 = w.main.blocks[7].transactions()[1].hash().unpack();
            let _ = sim.c().rpc_chain().fetch_header(h6);
            let _ = sim.c().rpc_tx().fetch_transaction(tx7);
            sim.cm().tick_lc(1);
            // the requests are on their way; the peer reorganises to the fork branch (which does
            // not contain the requested last block), announces, and answers from its new view
            sim.set_view(1, 1, p.fork_tip, true);
            sim.pump_out();
            let i = sim.queue.iter().position(|m| kind_of(m) == "SendLastState").expect("announcement queued");
            sim.deliver(i);
            let n = sim.queue.iter().take_while(|m| matches!(kind_of(m).as_str(), "SendBlocksProof" | "SendTransactionsProof")).count();
            assert!(n >= 2, "new-tip answers pending (machinery)");
            return Ok((sim, n));
        }
        Scn::CheckPoints => {
            sim.connect(1);
            advance_until(&mut sim, is("BlockFilterCheckPoints"), 0, 400)
        }
        Scn::FilterHashes => {
            sim.connect(1);
            advance_until(&mut sim, is("BlockFilterHashes"), 0, 400)
        }
        Scn::Filters => {
            sim.connect(1);
            advance_until(&mut sim, is("BlockFilters"), 1, 400)
        }
    };
    if !ok {
        return Err(sim);
    }
    Ok((sim, 1))
}

/// A user call made behind the protocol handlers' back right after the scenario was reached
/// (0 = none): the handlers keep derived state in memory (cached filter hashes, check point
/// positions, matched blocks) that the call does not refresh.
pub(crate) const POSTS: [u8; 3] = [0, 1, 2];

pub(crate) fn apply_post(env: &Env, sim: &mut Sim, post: u8) {
    match post {
        // set_scripts all: both scripts again from block 0 (filter syncing is rewound to 0)
        1 => crate::verif::explore::user_set_scripts(sim, 0, &[(env.scripts.a.clone(), true, 0), (env.scripts.t.clone(), false, 0)]),
        // set_scripts partial: one more script from block 0
        2 => crate::verif::explore::user_set_scripts(sim, 1, &[(env.scripts.b.clone(), true, 0)]),
        _ => {}
    }
    let _ = sim.c().out.take_sent();
}

/// Every honest message of the complete sync history of the main world (scripts registered, one
/// peer, FIFO), de-duplicated: what a peer could replay at any later moment.
pub(crate) fn history_alphabet(env: &Env, w: &Worlds) -> Vec<(Proto, String, ckb_network::bytes::Bytes)> {
    let (mut sim, _) = build(env, w, Scn::Connected);
    scen::register(
        &sim,
        &[
            (env.scripts.a.clone(), ScriptType::Lock, 0),
            (env.scripts.t.clone(), ScriptType::Type, 0),
        ],
    );
    let mut out: Vec<(Proto, String, ckb_network::bytes::Bytes)> = vec![];
    let mut idle = 0;
    for _ in 0..800 {
        if sim.queue.is_empty() {
            sim.advance(10);
            sim.tick_all();
            idle += 1;
            if idle > 6 {
                break;
            }
            continue;
        }
        idle = 0;
        let m = sim.queue[0].clone();
        if !out.iter().any(|(_, _, d)| d == &m.data) {
            out.push((m.proto.clone(), format!("hist/{}", m.note), m.data.clone()));
        }
        sim.deliver(0);
    }
    out
}

struct Sweep<'a> {
    env: &'a Env,
    w: &'a Worlds,
    report: &'a mut Report,
    deliveries: u64,
    rebuilds: u64,
    panics_seen: u64,
    state_changes: u64,
    bans: u64,
    sites: BTreeMap<String, u64>,
    last_panicked: bool,
    post_label: &'static str,
}

impl<'a> Sweep<'a> {
    /// Delivers `data` on `proto` as `peer`; returns true if the scenario must be rebuilt.
    fn deliver(
        &mut self,
        sim: &mut Sim,
        scn: Scn,
        before: &str,
        proto: &Proto,
        peer: usize,
        data: ckb_network::bytes::Bytes,
        label: &str,
    ) -> bool {
        self.deliveries += 1;
        let p = PeerIndex::new(peer);
        let r = panics::catch(|| {
            let c = sim.cm();
            match proto {
                Proto::LightClient => c.recv_lc(p, data.clone()),
                Proto::Filter => c.recv_filter(p, data.clone()),
                Proto::Sync => c.recv_sync(p, data.clone()),
                Proto::Relay => c.recv_relay(p, data.clone()),
            }
        });
        let mut rebuild = false;
        self.last_panicked = false;
        let mut panic_rec = r.err();
        if panic_rec.is_none() {
            let _ = sim.c().out.take_sent();
            self.bans += sim.c().out.take_bans().len() as u64;
            let after = sim.c().light_print();
            if after != before {
                self.state_changes += 1;
                rebuild = true;
                // an accepted message must not make a later timer abort either
                let r2 = panics::catch(|| {
                    sim.advance(10);
                    sim.tick_all();
                });
                panic_rec = r2.err();
            }
        }
        if let Some(p) = panic_rec {
            self.last_panicked = true;
            if p.msg.contains("long fork detected") {
                self.report.count("documented_long_fork_panics", 1);
                return true;
            }
            self.panics_seen += 1;
            *self.sites.entry(p.site()).or_insert(0) += 1;
            let data_hex = if data.len() <= 4096 {
                hex(&data)
            } else {
                format!("{}… ({} bytes)", hex(&data[..64]), data.len())
            };
            self.report.violation(
                format!("abort/{}", p.site()),
                format!("{} [scenario {:?}{}, {:?} message from peer {}, mutant {}]", p.describe(), scn, self.post_label, proto, peer, label),
                json!({"scenario": format!("{:?}", scn), "user_call_before": self.post_label, "protocol": format!("{:?}", proto), "peer": peer, "mutant": label, "message_hex": data_hex}),
            );
            rebuild = true;
        }
        rebuild
    }

    /// `part` 0: single-message mutants of the pending answers; 1: two-message sequences and the
    /// cross alphabet (work splitting).
    fn sweep_scenario(&mut self, scn: Scn, thorough: bool, cross: &[(Proto, String, ckb_network::bytes::Bytes)], part: usize, post: u8) {
        let (mut sim, n_home) = build(self.env, self.w, scn);
        apply_post(self.env, &mut sim, post);
        let homes: Vec<InFlight> = sim.queue.iter().take(n_home).cloned().collect();
        let mut before = sim.c().light_print();
        self.report.count("scenarios", if part == 0 { 1 } else { 0 });
        macro_rules! go {
            ($proto:expr, $peer:expr, $data:expr, $label:expr) => {{
                crate::verif::props::shard::journal($label);
                if self.deliver(&mut sim, scn, &before, $proto, $peer, $data, $label) {
                    self.rebuilds += 1;
                    // a panic may have poisoned locks: only recycle a client that did not panic
                    let reusable = !self.last_panicked;
                    let (s, _) = if reusable {
                        build_on(self.env, self.w, scn, Some(sim))
                    } else {
                        build(self.env, self.w, scn)
                    };
                    sim = s;
                    apply_post(self.env, &mut sim, post);
                    before = sim.c().light_print();
                }
            }};
        }
        for home in homes.iter().filter(|_| part == 0) {
            let kind = kind_of(home);
            self.report.count(&format!("home/{:?}/{}", scn, kind), 1);
            // the honest message itself is NOT delivered here (it would advance the history);
            // mutants:
            let mut muts: Vec<Mutant> = vec![];
            mutate::byte_windows(&home.data, thorough, |m| {
                // quick: the all-ones value of every width (and zero for 8 bytes) at every offset
                if thorough || m.label.ends_with("v=0)") || ((m.label.contains("w=8") || m.label.contains("w=32")) && m.label.ends_with("v=1)")) {
                    muts.push(m)
                }
            });
            mutate::truncations(&home.data, |m| muts.push(m));
            if thorough {
                mutate::bit_flips(&home.data, |m| muts.push(m));
            }
            muts.extend(mutate::structural(&home.proto, &home.data));
            // total difficulties next to what the client trusts already (stored and proven)
            if home.proto == Proto::LightClient {
                let mut bases: Vec<ckb_types::U256> = vec![sim.c().storage.get_last_state().0];
                for (_, ps) in sim.c().peers.get_all_prove_states() {
                    let td = ps.get_last_header().total_difficulty();
                    if !bases.contains(&td) {
                        bases.push(td);
                    }
                }
                let tv = mutate::td_variants(&self.env.consensus, &home.data, &bases);
                self.report.count("relative_total_difficulty_mutants", tv.len() as u64);
                muts.extend(tv);
            }
            for m in muts {
                go!(&home.proto, home.peer, m.data.clone(), &m.label);
                if home.proto == Proto::LightClient {
                    // the same mutant with the attacker-controlled commitments recomputed
                    if let Some(resealed) = mutate::reseal_lc(&self.env.consensus, &m.data) {
                        if resealed != m.data {
                            let label = format!("{}+resealed", m.label);
                            go!(&home.proto, home.peer, resealed, &label);
                        }
                    }
                }
            }
        }
        // two-message sequences: a variant of the pending answer followed by the honest answer, by
        // itself again, or by a variant of another length (thorough: by every variant). A handler
        // may trust what an earlier message of the same peer left behind.
        for home in homes.iter().filter(|_| part == 1) {
            let mut variants: Vec<Mutant> = vec![Mutant { label: "honest".to_owned(), data: home.data.clone() }];
            variants.extend(mutate::structural(&home.proto, &home.data));
            for (i, v1) in variants.iter().enumerate() {
                for (j, v2) in variants.iter().enumerate() {
                    if i == 0 && j == 0 {
                        continue;
                    }
                    let second_ok = thorough
                        || j == 0
                        || j == i
                        || ["drop-last", "doubled", "first-only", "dup-first", "empty"].iter().any(|k| v2.label.contains(k));
                    if !second_ok {
                        continue;
                    }
                    let label = format!("seq:{} -> {}", v1.label, v2.label);
                    crate::verif::props::shard::journal(&label);
                    self.report.count("two_message_sequences", 1);
                    self.deliveries += 2;
                    let p = PeerIndex::new(home.peer);
                    let r = panics::catch(|| {
                        for d in [&v1.data, &v2.data] {
                            let c = sim.cm();
                            match home.proto {
                                Proto::LightClient => c.recv_lc(p, d.clone()),
                                Proto::Filter => c.recv_filter(p, d.clone()),
                                Proto::Sync => c.recv_sync(p, d.clone()),
                                Proto::Relay => c.recv_relay(p, d.clone()),
                            }
                        }
                        sim.advance(10);
                        sim.tick_all();
                    });
                    let panicked = r.is_err();
                    if let Err(pr) = r {
                        if pr.msg.contains("long fork detected") {
                            self.report.count("documented_long_fork_panics", 1);
                        } else {
                            self.panics_seen += 1;
                            *self.sites.entry(pr.site()).or_insert(0) += 1;
                            self.report.violation(
                                format!("abort/{}", pr.site()),
                                format!("{} [scenario {:?}, two {:?} messages from peer {}: {}]", pr.describe(), scn, home.proto, home.peer, label),
                                json!({"scenario": format!("{:?}", scn), "protocol": format!("{:?}", home.proto), "peer": home.peer, "sequence": label, "first_hex": hex(&v1.data[..v1.data.len().min(2048)]), "second_hex": hex(&v2.data[..v2.data.len().min(2048)])}),
                            );
                        }
                    }
                    let _ = sim.c().out.take_sent();
                    self.bans += sim.c().out.take_bans().len() as u64;
                    self.rebuilds += 1;
                    let (s2, _) = if panicked { build(self.env, self.w, scn) } else { build_on(self.env, self.w, scn, Some(sim)) };
                    sim = s2;
                    apply_post(self.env, &mut sim, post);
                    before = sim.c().light_print();
                }
            }
        }
        // every honest message / structural mutant / bare variant of the whole alphabet in this
        // state, from the known peer and from a peer the client never connected
        for (proto, label, data) in cross.iter().filter(|_| part >= 1) {
            for peer in [1usize, 7] {
                let l = format!("cross:{}", label);
                go!(proto, peer, data.clone(), &l);
            }
        }
    }
}

impl<'a> Sweep<'a> {
    /// The min filtered block number moved (a user's set_scripts `all` with one script from block
    /// m, for EVERY m up to two blocks beyond the chain the world has) while BlockFilters answers
    /// are on their way: every honest BlockFilters message of the sync history arrives with the
    /// start number m + 1 (continuous with the new number, whatever the cached / agreed filter
    /// hashes cover at that moment) and once more as it was.
    fn filter_start_grid(&mut self, scn: Scn, history: &[(Proto, String, ckb_network::bytes::Bytes)]) {
        if !matches!(scn, Scn::Ready | Scn::CheckPoints | Scn::FilterHashes | Scn::Filters | Scn::MatchedBlocksProof | Scn::MatchedBlocks) {
            return;
        }
        let answers: Vec<packed::BlockFilters> = history
            .iter()
            .filter(|(p, _, _)| *p == Proto::Filter)
            .filter_map(|(_, _, d)| match packed::BlockFilterMessage::from_slice(d).map(|m| m.to_enum()) {
                Ok(packed::BlockFilterMessageUnion::BlockFilters(m)) => Some(m),
                _ => None,
            })
            .collect();
        let top = self.w.main.tip_number() + 2;
        let mut sim_opt: Option<Sim> = None;
        for m in 0..=top {
            let prepare = |env: &Env, w: &Worlds, old: Option<Sim>| {
                let (mut sim, _) = match old {
                    Some(o) => build_on(env, w, scn, Some(o)),
                    None => build(env, w, scn),
                };
                crate::verif::explore::user_set_scripts(&mut sim, 0, &[(env.scripts.a.clone(), true, m)]);
                let _ = sim.c().out.take_sent();
                sim
            };
            let mut sim = prepare(self.env, self.w, sim_opt.take());
            let mut before = sim.c().light_print();
            for (k, f) in answers.iter().enumerate() {
                for (variant, start) in [("start=m+1", m + 1), ("as-it-was", Unpack::<u64>::unpack(&f.start_number()))] {
                    let msg = packed::BlockFilterMessage::new_builder().set(f.clone().as_builder().start_number(start.pack()).build()).build();
                    let label = format!("filter-start-grid: set_scripts(all, A from block {}), then BlockFilters #{} of the history with {} ({})", m, k, variant, start);
                    crate::verif::props::shard::journal(&label);
                    self.post_label = "";
                    if self.deliver(&mut sim, scn, &before, &Proto::Filter, 1, msg.as_bytes(), &label) {
                        self.rebuilds += 1;
                        sim = if self.last_panicked { prepare(self.env, self.w, None) } else { prepare(self.env, self.w, Some(sim)) };
                        before = sim.c().light_print();
                    }
                }
            }
            sim_opt = Some(sim);
        }
        self.report.count("filter_start_grid/min_filtered_values_x_scenarios", top + 1);
    }
}

pub(crate) fn run(opts: &Opts, report: &mut Report) {
    let thorough = opts.thorough();
    let specs: Vec<&str> = if thorough {
        vec!["mini_dummy.toml", "mini_eaglesong.toml"]
    } else {
        vec!["mini_dummy.toml"]
    };
    // parts: 0 = single-message mutants of the pending answers; 1 = two-message sequences + cross
    // alphabet; 2, 3 = the cross alphabet after a user call (set_scripts all / partial from
    // block 0) made behind the handlers' back
    // 4 = the filter start grid (every min filtered block number x every BlockFilters answer)
    const PARTS: usize = 5;
    let items = specs.len() * ALL_SCN.len() * PARTS;
    let worker = crate::verif::props::shard::run("C10", opts, report, items, 16, |item, report| {
        let part_raw = item % PARTS;
        let item = item / PARTS;
        let (part, post) = match part_raw {
            0 => (0usize, 0u8),
            1 => (1, 0),
            2 => (2, 1),
            3 => (2, 2),
            _ => (9, 0),
        };
        let env = Env::new(specs[item / ALL_SCN.len()]);
        let scn = ALL_SCN[item % ALL_SCN.len()];
        let w = worlds(&env);
        if part == 9 {
            let hist = history_alphabet(&env, &w);
            let mut sweep = Sweep { env: &env, w: &w, report, deliveries: 0, rebuilds: 0, panics_seen: 0, state_changes: 0, bans: 0, sites: BTreeMap::new(), last_panicked: false, post_label: "" };
            sweep.filter_start_grid(scn, &hist);
            let (d, r, p, c, b) = (sweep.deliveries, sweep.rebuilds, sweep.panics_seen, sweep.state_changes, sweep.bans);
            let sites = std::mem::take(&mut sweep.sites);
            drop(sweep);
            report.count("transitions", d);
            report.count("filter_start_grid/deliveries", d);
            report.count("rebuilds_after_state_change_or_panic", r);
            report.count("panics", p);
            report.count("deliveries_that_changed_state", c);
            report.count("bans", b);
            for (k, v) in sites {
                report.count(&format!("panic_site/{}", k), v);
            }
            return;
        }
        // the cross alphabet: honest home messages of every scenario + their structural mutants
        // + re-sealed twins + one bare message of every union variant + junk
        let mut cross: Vec<(Proto, String, ckb_network::bytes::Bytes)> = vec![];
        for s in ALL_SCN {
            let (sim, n) = build(&env, &w, s);
            for home in sim.queue.iter().take(n) {
                cross.push((home.proto.clone(), format!("{:?}/{}", s, kind_of(home)), home.data.clone()));
                for m in mutate::structural(&home.proto, &home.data) {
                    cross.push((home.proto.clone(), format!("{:?}/{}/{}", s, kind_of(home), m.label), m.data));
                }
                if let Some(r) = mutate::reseal_lc(&env.consensus, &home.data) {
                    cross.push((home.proto.clone(), format!("{:?}/{}/resealed", s, kind_of(home)), r));
                }
            }
        }
        for (proto, name, data) in mutate::all_variants() {
            cross.push((proto, format!("bare/{}", name), data));
        }
        // every honest message of the whole sync history (a peer may replay any of them later),
        // and the structural mutants of the filter protocol ones
        for (proto, name, data) in history_alphabet(&env, &w) {
            if !cross.iter().any(|(_, _, d)| d == &data) {
                if proto == Proto::Filter {
                    for m in mutate::structural(&proto, &data) {
                        cross.push((proto.clone(), format!("{}/{}", name, m.label), m.data));
                    }
                }
                cross.push((proto, name, data));
            }
        }
        for proto in [Proto::LightClient, Proto::Filter, Proto::Sync, Proto::Relay] {
            for (i, junk) in [vec![], vec![2u8, 3, 4, 5], vec![0xff; 64], vec![0u8; 64]].into_iter().enumerate() {
                cross.push((proto.clone(), format!("junk{}", i), junk.into()));
            }
        }
        report.count("cross_alphabet_size_x_scenarios", if part >= 1 { cross.len() as u64 } else { 0 });
        let mut sweep = Sweep {
            env: &env,
            w: &w,
            report,
            deliveries: 0,
            rebuilds: 0,
            panics_seen: 0,
            state_changes: 0,
            bans: 0,
            sites: BTreeMap::new(),
            last_panicked: false,
            post_label: match post {
                1 => " after set_scripts(all, from block 0)",
                2 => " after set_scripts(partial, one more script from block 0)",
                _ => "",
            },
        };
        sweep.sweep_scenario(scn, thorough, &cross, part, post);
        let (d, r, p, c, b) = (sweep.deliveries, sweep.rebuilds, sweep.panics_seen, sweep.state_changes, sweep.bans);
        let sites = std::mem::take(&mut sweep.sites);
        drop(sweep);
        report.count("transitions", d);
        report.count("rebuilds_after_state_change_or_panic", r);
        report.count("panics", p);
        report.count("deliveries_that_changed_state", c);
        report.count("bans", b);
        report.count("states", if part == 0 || part == 2 { 1 } else { 0 });
        for (k, v) in sites {
            report.count(&format!("panic_site/{}", k), v);
        }
    });
    if worker {
        return;
    }
    // a worker that died took the process down with it: that is exactly what C10 forbids
    for (item, why) in crate::verif::props::shard::DEAD.lock().unwrap().iter() {
        let scn = ALL_SCN[(item / PARTS) % ALL_SCN.len()];
        report.violation(
            format!("process-abort/{:?}", scn),
            format!("the worker process for scenario {:?} died: {}", scn, why),
            json!({"scenario": format!("{:?}", scn), "how": why}),
        );
    }
    let t = report.get("transitions");
    report.set("traces_validated_against_impl", json!(t));
    report.set("evaluations", json!(t));
    report.set("distinct_nontrivial", json!(t));
    report.set("rule", json!("states = receiver scenarios (real histories stopped where an honest answer is pending) x PoW engines; transitions = mutant deliveries to the real `received` under catch_unwind (+ a timer round after every accepted one); mutants are distinct by construction (window offset x width x value, truncation length, structural operator, re-sealed twin)"));
    report.sample(json!({"scenario": "ReorgProof", "home": "SendLastStateProof", "mutant": "window(off=..,w=32,v=0): 32 bytes of 0xff over a reorg header's parent total difficulty, delivered raw and re-sealed"}));
    report.sample(json!({"scenario": "Filters", "home": "BlockFilters", "mutant": "filters+hashes:doubled"}));
    report.assume("Dummy PoW (quick) / Dummy + Eaglesong with easy targets (thorough); hash collisions excluded");
    report.assume("the documented `long fork detected` panic is not counted");
    report.assume("quick: byte windows use the all-ones value of widths 4/8/32, zero for width 8 and 2^255-1 for width 32; thorough: all boundary values and bit flips");
}

/// A well-formed transaction that no block of any world chain contains.
pub(crate) fn phantom_tx(w: &Worlds) -> ckb_types::core::TransactionView {
    let cb = w.main.blocks[1].transactions()[0].clone();
    let out = cb.outputs().get(0).expect("cellbase output");
    crate::verif::txlib::build_tx(
        &[],
        &[ckb_types::packed::OutPoint::new(cb.hash(), 0)],
        &[crate::verif::txlib::OutSpec::lock(&out.lock(), 4242)],
        0xdead_beef,
    )
}
