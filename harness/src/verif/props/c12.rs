//! C12 — the stored tip only moves to heavier proven headers with truthful difficulty.
//!
//! E-seq/BFS over event sequences with 2 (thorough 3) peers on the same or competing chains:
//! honest growth by 1 (child fast path), 2 (short path), 5 (sampled path), a switch to the other
//! branch, FIFO delivery per peer, duplicates, timer rounds, a restart, and a deviating peer that
//! announces a PoW-valid, self-consistent child of its proven header whose parent chain root
//! carries a false total difficulty (inflated, +1, -1). Invariants in every state: the stored tip
//! is a world header or a registered child, the stored total difficulty is that header's true
//! cumulative difficulty, the tip changed only to strictly more difficulty and only to a header a
//! peer has proven at that moment, the stored last-N headers are ancestors of the tip,
//! get_tip_header agrees, a restart reproduces (tip, difficulty, last-N). From every distinct
//! state an honest continuation follows (all peers honest, the main chain 20 blocks ahead): the
//! client must reach the honest tip (a frozen tip is a violation).

use std::cell::RefCell;
use std::collections::HashMap;

use ckb_network::PeerIndex;
use ckb_types::{core::EpochNumberWithFraction, packed, prelude::*, U256};
use serde_json::json;

use crate::verif::bfs::{self, Model};
use crate::verif::client::{self, ClientCfg};
use crate::verif::driver::{InFlight, Sim, World};
use crate::verif::net::Proto;
use crate::verif::props::Opts;
use crate::verif::report::Report;
use crate::verif::scen::{self, Env};
use crate::verif::world::{self, Chain};

#[derive(Clone, Debug, PartialEq, Eq)]
pub(crate) enum Ev {
    Deliver(usize),
    Grow(usize, u64),
    Switch(usize),
    /// deviating child announcement: 0 = total difficulty 2^100, 1 = +1, 2 = -1
    Forged(usize, u8),
    Dup(usize),
    Tick,
    Restart,
    /// the peer's tip grows by one block and the announcement overtakes the answers that are
    /// still pending (the full node announced before it served the request)
    GrowFirst(usize),
}

#[derive(Clone)]
struct Forged {
    true_td: U256,
    parent_chain: usize,
    parent_number: u64,
}

#[derive(Default)]
struct Track {
    prev: Option<(U256, packed::Byte32)>,
    forged: HashMap<packed::Byte32, Forged>,
    pending: Vec<(String, String)>,
    last_delivered: HashMap<usize, InFlight>,
    grows: u32,
    forgeries: u32,
    restarts: u32,
    ticks: u32,
    dups: u32,
    switches: u32,
    /// the documented long-fork abort happened (terminal state)
    aborted: bool,
    /// headers for which the client was GIVEN a proof (the last header of a delivered non-empty
    /// SendLastStateProof) or the announcement of a child of such a header - kept by the model
    /// from the messages, independent of what the client believes to have proven
    proof_delivered: std::collections::HashSet<packed::Byte32>,
}

pub(crate) struct TipModel<'a> {
    env: &'a Env,
    main: Chain,
    fork: Chain,
    cfg: ClientCfg,
    n_peers: usize,
    /// 0 = fresh (nothing delivered), 1 = all peers proven on the main chain, 2 = split: peer 1
    /// proven on the main chain one block ahead, peer 2 proven on the competing branch,
    /// 3 / 4 = staggered: both on the main chain, peer 1 proven 8 blocks ahead of peer 2 (the stored
    /// tip is peer 1's), and the announcement of peer 2's next last state (+2: short path, +5:
    /// sampled path, both still below the stored tip) is in flight
    start: u8,
    base_height: u64,
    /// the forged-child variants of this configuration's alphabet
    variants: Vec<u8>,
    track: RefCell<Track>,
}

const FORK_AT: u64 = 11;

impl<'a> TipModel<'a> {
    fn note_delivery(&self, data: &[u8]) {
        let msg = match packed::LightClientMessageReader::from_slice(data) {
            Ok(m) => m.to_entity(),
            Err(_) => return,
        };
        let mut t = self.track.borrow_mut();
        match msg.to_enum() {
            packed::LightClientMessageUnion::SendLastStateProof(p) => {
                if !p.headers().is_empty() || !p.proof().is_empty() {
                    t.proof_delivered.insert(p.last_header().header().calc_header_hash());
                }
            }
            packed::LightClientMessageUnion::SendLastState(m) => {
                let h = m.last_header().header();
                if t.proof_delivered.contains(&h.raw().parent_hash()) {
                    t.proof_delivered.insert(h.calc_header_hash());
                }
            }
            _ => {}
        }
    }

    fn chains(&self) -> [&Chain; 2] {
        [&self.main, &self.fork]
    }

    fn locate(&self, hash: &packed::Byte32) -> Option<(usize, u64)> {
        for (ci, c) in self.chains().iter().enumerate() {
            if let Some(n) = c.number_of(hash) {
                return Some((ci, n));
            }
        }
        None
    }

    fn true_td(&self, hash: &packed::Byte32) -> Option<U256> {
        if let Some((ci, n)) = self.locate(hash) {
            return Some(self.chains()[ci].tds[n as usize].clone());
        }
        self.track.borrow().forged.get(hash).map(|f| f.true_td.clone())
    }

    fn is_ancestor(&self, tip: &packed::Byte32, number: u64, hash: &packed::Byte32) -> bool {
        let (chain, below) = if let Some((ci, n)) = self.locate(tip) {
            (ci, n)
        } else if let Some(f) = self.track.borrow().forged.get(tip) {
            (f.parent_chain, f.parent_number + 1)
        } else {
            return false;
        };
        number < below && self.chains()[chain].blocks.get(number as usize).map(|b| &b.hash() == hash).unwrap_or(false)
    }

    fn forged_child(&self, sim: &Sim, peer: usize, variant: u8) -> Option<packed::VerifiableHeader> {
        let st = sim.c().peers.get_state(&PeerIndex::new(peer))?;
        let ps = st.get_prove_state()?;
        let parent = ps.get_last_header().header();
        let (ci, n) = self.locate(&parent.hash())?;
        let chain = self.chains()[ci];
        let true_parent_td = chain.tds[n as usize].clone();
        // variants 0..2: a chain root that claims another total difficulty; 3..5: the true chain root
        // of the parent (consistent with it in every field) under a header that is NOT the parent's
        // successor: its number (3: + 1000, 4: + 2) or its epoch (5: the next epoch) is rewritten
        let td = match variant {
            0 => U256::one() << 100,
            1 => true_parent_td.clone() + U256::one(),
            2 => true_parent_td.clone() - U256::one(),
            _ => true_parent_td.clone(),
        };
        let root = chain.roots[n as usize].clone().as_builder().total_difficulty(td.pack()).build();
        let (e, i, l, compact) = chain.plan.locate(n + 1);
        let (number, e, i) = match variant {
            3 => (n + 1000, e, i),
            4 => (n + 2, e, i),
            5 => (n + 1, e + 1, 0),
            _ => (n + 1, e, i),
        };
        let vh = world::seal_vh(
            &self.env.consensus,
            number,
            root,
            compact,
            EpochNumberWithFraction::new(e, i, l),
            world::BASE_TS + (n + 1) * 10 + 3,
            parent.hash(),
        );
        let hash = vh.header().calc_header_hash();
        self.track.borrow_mut().forged.insert(
            hash,
            Forged { true_td: true_parent_td + world::difficulty_of(compact), parent_chain: ci, parent_number: n },
        );
        Some(vh)
    }

    /// The stored tip is more than last-N blocks beyond the fork point: a switch to the other
    /// branch is the documented long-fork abort.
    fn deep_on_fork(&self, sim: &Sim) -> bool {
        // the two branches part after block FORK_AT: once the stored tip (on either branch) is more
        // than last-N blocks beyond that, a switch to the other branch is a fork deeper than last-N
        let (_, tip_now, number, _) = Self::stored(sim);
        let _ = tip_now;
        number > FORK_AT + self.cfg.last_n
    }

    fn stored(sim: &Sim) -> (U256, packed::Byte32, u64, Vec<(u64, packed::Byte32)>) {
        let (td, tip) = sim.c().storage.get_last_state();
        let n: u64 = tip.raw().number().unpack();
        (td, tip.calc_header_hash(), n, sim.c().storage.get_last_n_headers())
    }
}

impl<'a> Model for TipModel<'a> {
    type Ev = Ev;

    fn init(&self, old: Option<Sim>) -> Sim {
        let mut world = World::new(vec![self.main.clone(), self.fork.clone()], self.cfg.cp_interval);
        for p in 1..=self.n_peers {
            if p == 3 {
                world.add_peer(p, 1, self.base_height - 1);
            } else if self.start == 2 && p == 1 {
                world.add_peer(p, 0, self.base_height + 1);
            } else if self.start >= 3 && p == 1 {
                world.add_peer(p, 0, self.base_height + 8);
            } else if self.start == 2 && p == 2 {
                world.add_peer(p, 1, self.base_height);
            } else {
                world.add_peer(p, 0, self.base_height);
            }
        }
        client::set_now(world::BASE_TS + 1_000_000);
        let mut sim = match old {
            Some(old) => Sim::recycle(old, self.cfg.clone(), world),
            None => scen::new_sim(self.env, self.cfg.clone(), world),
        };
        crate::verif_hooks::rng_reset(12);
        *self.track.borrow_mut() = Track::default();
        sim.record_trace = std::env::var("VERIF_TRACE").is_ok();
        if self.start == 2 {
            // peer 2 (competing branch, lighter) is proven first, then peer 1 takes the tip over
            sim.connect(2);
            sim.converge(40);
            sim.connect(1);
            sim.converge(40);
        } else {
            for p in 1..=self.n_peers {
                sim.connect(p);
            }
            if self.start >= 1 {
                sim.converge(40);
            }
            if self.start >= 3 {
                let k = if self.start == 3 { 2 } else { 5 };
                sim.set_view(2, 0, self.base_height + k, true);
            }
        }
        let (td, tip, _, _) = Self::stored(&sim);
        {
            // (the start states are honest-only histories: what the client holds as proven there
            // is what the peers proved)
            let mut t = self.track.borrow_mut();
            t.proof_delivered.insert(tip.clone());
            for (_, ps) in sim.c().peers.get_all_prove_states() {
                t.proof_delivered.insert(ps.get_last_header().header().hash());
            }
        }
        self.track.borrow_mut().prev = Some((td, tip));
        sim
    }

    fn enabled(&self, sim: &Sim, _hist: &[Ev]) -> Vec<Ev> {
        let t = self.track.borrow();
        let mut v = vec![];
        if t.aborted {
            return v;
        }
        for p in 1..=self.n_peers {
            if sim.queue.iter().any(|m| m.peer == p) {
                v.push(Ev::Deliver(p));
            }
        }
        for p in 1..=self.n_peers {
            let ps = sim.world.peer(p);
            if !ps.connected {
                continue;
            }
            if t.grows < 3 {
                for k in [1u64, 2, 5] {
                    if ps.height + k <= sim.world.chains[ps.chain].tip_number() - 22 {
                        v.push(Ev::Grow(p, k));
                    }
                }
                if sim.queue.iter().any(|m| m.peer == p) && ps.height + 1 <= sim.world.chains[ps.chain].tip_number() - 22 {
                    v.push(Ev::GrowFirst(p));
                }
            }
            if t.switches < 2 && p != 1 {
                v.push(Ev::Switch(p));
            }
            if p == 2 && t.forgeries < 2 {
                let proven = sim.c().peers.get_state(&PeerIndex::new(p)).and_then(|s| s.get_prove_state().cloned()).is_some();
                if proven {
                    for variant in self.variants.clone() {
                        v.push(Ev::Forged(p, variant));
                    }
                }
            }
            if t.dups < 1 && t.last_delivered.contains_key(&p) {
                v.push(Ev::Dup(p));
            }
        }
        if t.ticks < 2 {
            v.push(Ev::Tick);
        }
        if t.restarts < 1 {
            v.push(Ev::Restart);
        }
        v
    }

    fn apply(&self, sim: &mut Sim, ev: &Ev) {
        match ev {
            Ev::Deliver(p) => {
                if let Some(i) = sim.queue.iter().position(|m| m.peer == *p) {
                    let m = sim.queue.remove(i).unwrap();
                    self.track.borrow_mut().last_delivered.insert(*p, m.clone());
                    if m.proto == Proto::LightClient {
                        self.note_delivery(&m.data);
                    }
                    sim.deliver_msg(m);
                }
            }
            Ev::Grow(p, k) => {
                self.track.borrow_mut().grows += 1;
                let (chain, height) = {
                    let ps = sim.world.peer(*p);
                    (ps.chain, ps.height + k)
                };
                sim.set_view(*p, chain, height, true);
            }
            Ev::Switch(p) => {
                self.track.borrow_mut().switches += 1;
                let (chain, height) = {
                    let ps = sim.world.peer(*p);
                    (1 - ps.chain, ps.height.max(FORK_AT + 1) + 1)
                };
                sim.set_view(*p, chain, height, true);
            }
            Ev::Forged(p, variant) => {
                self.track.borrow_mut().forgeries += 1;
                if let Some(vh) = self.forged_child(sim, *p, *variant) {
                    let msg = packed::LightClientMessage::new_builder()
                        .set(packed::SendLastState::new_builder().last_header(vh).build())
                        .build();
                    sim.deliver_msg(InFlight {
                        proto: Proto::LightClient,
                        peer: *p,
                        data: msg.as_bytes(),
                        note: format!("SendLastState(forged child, variant {})", variant),
                    });
                }
            }
            Ev::Dup(p) => {
                self.track.borrow_mut().dups += 1;
                let m = self.track.borrow().last_delivered.get(p).cloned();
                if let Some(m) = m {
                    if m.proto == Proto::LightClient {
                        self.note_delivery(&m.data);
                    }
                    sim.deliver_msg(m);
                }
            }
            Ev::GrowFirst(p) => {
                self.track.borrow_mut().grows += 1;
                let (chain, height) = {
                    let ps = sim.world.peer(*p);
                    (ps.chain, ps.height + 1)
                };
                sim.set_view(*p, chain, height, false);
                let m = sim.world.view(*p).send_last_state();
                let m = InFlight { proto: Proto::LightClient, peer: *p, data: m.as_bytes(), note: format!("SendLastState({}) [overtaking]", height) };
                self.note_delivery(&m.data);
                sim.deliver_msg(m);
            }
            Ev::Tick => {
                self.track.borrow_mut().ticks += 1;
                sim.advance(1000);
                sim.tick_all();
            }
            Ev::Restart => {
                self.track.borrow_mut().restarts += 1;
                let before = Self::stored(sim);
                sim.restart();
                let after = Self::stored(sim);
                if before != after {
                    self.track.borrow_mut().pending.push((
                        "restart-changed-stored-state".into(),
                        format!("before the restart: tip #{} td {:#x} last-N {:?}; after: tip #{} td {:#x} last-N {:?}", before.2, before.0, before.3.iter().map(|x| x.0).collect::<Vec<_>>(), after.2, after.0, after.3.iter().map(|x| x.0).collect::<Vec<_>>()),
                    ));
                }
                self.track.borrow_mut().last_delivered.clear();
                for p in 1..=self.n_peers {
                    sim.connect(p);
                }
            }
        }
        // a banned peer is disconnected by the network layer
        let banned: Vec<usize> = sim.bans().iter().map(|(p, _)| p.value()).collect();
        for p in banned {
            if sim.world.peer(p).connected {
                sim.disconnect(p);
            }
        }
    }

    fn check(&self, sim: &Sim, _hist: &[Ev]) -> Vec<(String, String)> {
        let mut bad: Vec<(String, String)> = self.track.borrow_mut().pending.drain(..).collect();
        let (td, tip, number, last_n) = Self::stored(sim);
        match self.true_td(&tip) {
            None => bad.push(("stored-tip-unknown".into(), format!("stored tip #{} {:#x} is no header of the world", number, tip))),
            Some(t) => {
                // (the initial state: genesis is stored with total difficulty 0 by convention; it
                // has no chain root that commits to anything)
                if t != td && !(number == 0 && td == U256::zero()) {
                    bad.push((
                        "stored-difficulty-not-truthful".into(),
                        format!("stored tip #{}: stored total difficulty {:#x}, cumulative difficulty of that header {:#x}", number, td, t),
                    ));
                }
            }
        }
        for (n, h) in &last_n {
            if !self.is_ancestor(&tip, *n, h) {
                bad.push(("last-n-header-not-an-ancestor".into(), format!("stored last-N header #{} {:#x} is not an ancestor of the stored tip #{}", n, h, number)));
            }
        }
        let rpc_tip: packed::Byte32 = {
            use crate::service::ChainRpc;
            sim.c().rpc_chain().get_tip_header().map(|h| h.hash.pack()).unwrap_or_default()
        };
        if rpc_tip != tip {
            bad.push(("get_tip_header-differs".into(), format!("get_tip_header {:#x} but stored tip {:#x}", rpc_tip, tip)));
        }
        let prev = self.track.borrow().prev.clone();
        if let Some((ptd, ptip)) = prev {
            if ptip != tip {
                if td <= ptd {
                    bad.push(("tip-moved-without-more-difficulty".into(), format!("tip moved to #{} with total difficulty {:#x} <= previous {:#x}", number, td, ptd)));
                }
                let proven_by_someone = sim.c().peers.get_all_prove_states().iter().any(|(_, ps)| ps.get_last_header().header().hash() == tip);
                if !proven_by_someone {
                    bad.push(("tip-moved-to-unproven-header".into(), format!("tip moved to #{} {:#x} which is no peer's proven header", number, tip)));
                }
                if !self.track.borrow().proof_delivered.contains(&tip) {
                    bad.push(("tip-moved-to-a-header-nobody-proved".into(), format!("tip moved to #{} {:#x}: no proof with that last header and no announcement of a child of a proven header was ever delivered", number, tip)));
                }
            } else if ptd != td {
                bad.push(("difficulty-changed-for-same-tip".into(), format!("stored difficulty changed {:#x} -> {:#x} for the same tip", ptd, td)));
            }
        }
        self.track.borrow_mut().prev = Some((td, tip));
        if sim.bans().iter().any(|(p, _)| p.value() == 1 || p.value() == 3) {
            // honest peers banned: C05's subject (known zero-sample / plateau findings); flagged so
            // that the continuation is not judged
        }
        bad
    }

    fn fingerprint(&self, sim: &Sim) -> [u8; 32] {
        let mut hasher = ckb_hash::new_blake2b();
        hasher.update(&sim.c().db_hash());
        hasher.update(sim.c().peers.verif_dump(client::now()).as_bytes());
        for m in &sim.queue {
            hasher.update(&(m.peer as u64).to_le_bytes());
            hasher.update(&m.data);
        }
        for p in &sim.world.peers {
            hasher.update(&[p.chain as u8, p.connected as u8]);
            hasher.update(&p.height.to_le_bytes());
        }
        let t = self.track.borrow();
        hasher.update(&[t.grows as u8, t.forgeries as u8, t.restarts as u8, t.ticks as u8, t.dups as u8, t.switches as u8, t.aborted as u8]);
        let mut out = [0u8; 32];
        hasher.finalize(&mut out);
        out
    }

    fn documented_abort(&self, sim: &Sim, p: &crate::verif::props::panics::PanicRec) -> bool {
        p.msg.contains("long fork detected") && self.deep_on_fork(sim)
    }

    fn on_new_state(&self, sim: &mut Sim, _hist: &[Ev]) -> Vec<(String, String)> {
        if self.track.borrow().aborted {
            return vec![("~not-judged/documented-long-fork".into(), String::new())];
        }
        // honest continuation: every peer follows the main chain, 20 blocks beyond anything seen
        let target = sim.world.peers.iter().map(|p| p.height).max().unwrap_or(0) + 20;
        let honest_banned_before = sim.bans().iter().any(|(p, _)| p.value() != 2);
        for p in 1..=self.n_peers {
            if !sim.world.peer(p).connected {
                if sim.bans().iter().any(|(b, _)| b.value() == p) {
                    continue;
                }
                sim.connect(p);
            }
            sim.set_view(p, 0, target, true);
        }
        let converged = match crate::verif::props::panics::catch(|| sim.converge(80)) {
            Ok((_, _, c)) => c,
            Err(p) => {
                self.track.borrow_mut().pending.clear();
                // a stored tip on the fork branch more than last-N blocks beyond the fork point
                // (adopted legitimately: it was heavier) makes the way back to the main chain
                // the documented long-fork abort
                let deep_on_fork = self.deep_on_fork(sim);
                if p.msg.contains("long fork detected") && deep_on_fork {
                    return vec![("~not-judged/documented-long-fork".into(), String::new())];
                }
                return vec![(format!("abort-in-continuation/{}", p.site()), p.describe())];
            }
        };
        let mut bad = vec![];
        let honest_banned = sim.bans().iter().any(|(p, _)| p.value() != 2);
        if honest_banned || honest_banned_before {
            self.track.borrow_mut().pending.clear();
            return vec![("~not-judged/honest-peer-banned".into(), String::new())];
        }
        let (td, tip, number, _) = Self::stored(sim);
        let want = self.main.blocks[target as usize].hash();
        if tip != want {
            bad.push((
                "tip-frozen".into(),
                format!("honest peers at block {} of the main chain (total difficulty {:#x}) cannot move the stored tip #{} (stored total difficulty {:#x}); converged={}", target, self.main.tds[target as usize], number, td, converged),
            ));
        } else if td != self.main.tds[target as usize] {
            bad.push(("stored-difficulty-not-truthful".into(), format!("after the honest continuation: stored {:#x}, true {:#x}", td, self.main.tds[target as usize])));
        }
        bad
    }
}

const START_NAMES: [&str; 5] = ["fresh", "proven", "split", "staggered+2", "staggered+5"];

fn parse_ev(s: &str) -> Option<Ev> {
    let (name, a) = bfs::parse_call(s);
    Some(match name.as_str() {
        "Deliver" => Ev::Deliver(*a.first()? as usize),
        "Grow" => Ev::Grow(*a.first()? as usize, *a.get(1)? as u64),
        "Switch" => Ev::Switch(*a.first()? as usize),
        "Forged" => Ev::Forged(*a.first()? as usize, *a.get(1)? as u8),
        "Dup" => Ev::Dup(*a.first()? as usize),
        "Tick" => Ev::Tick,
        "Restart" => Ev::Restart,
        "GrowFirst" => Ev::GrowFirst(*a.first()? as usize),
        _ => return None,
    })
}

fn signature(hist: &[Ev], class: &str) -> String {
    let kinds: Vec<String> = hist
        .iter()
        .filter_map(|e| match e {
            Ev::Forged(_, v) => Some(format!("forged{}", v)),
            Ev::Restart => Some("restart".to_owned()),
            Ev::Switch(_) => Some("switch".to_owned()),
            _ => None,
        })
        .collect();
    format!("{}/{}", class, kinds.join("+"))
}

fn make_model<'a>(env: &'a Env, n_peers: usize, start: u8) -> TipModel<'a> {
    let mut main = Chain::new(std::sync::Arc::clone(&env.consensus), scen::wavy_plan(6));
    scen::extend_chain(&mut main, &env.scripts, 60, &[]);
    let mut fork = main.fork(FORK_AT, 777);
    scen::extend_chain(&mut fork, &env.scripts, 60, &[]);
    TipModel {
        env,
        main,
        fork,
        cfg: ClientCfg { last_n: 3, max_outbound: 2, cp_interval: 4, ..Default::default() },
        n_peers,
        start,
        base_height: 14,
        variants: vec![0, 1, 2, 3, 4, 5],
        track: RefCell::new(Track::default()),
    }
}

pub(crate) fn run(opts: &Opts, report: &mut Report) {
    let thorough = opts.thorough();
    // a recorded event list is replayed directly
    if let Some((config, events)) = opts.replay.as_deref().and_then(bfs::read_replay) {
        let env = Env::dummy();
        let n_peers: usize = config.chars().next().and_then(|c| c.to_digit(10)).unwrap_or(2) as usize;
        let start = START_NAMES.iter().position(|s| config.ends_with(s)).unwrap_or(0) as u8;
        let m = make_model(&env, n_peers, start);
        let evs: Vec<Ev> = events.iter().filter_map(|e| parse_ev(e)).collect();
        let mut rep = |hist: &[Ev], class: String, detail: String| {
            if !class.starts_with("~not-judged") {
                report.violation(signature(hist, &class), format!("[{}] after {:?}: {}", config, hist, detail), json!({"config": config, "events": hist.iter().map(|e| format!("{:?}", e)).collect::<Vec<_>>()}));
            }
        };
        bfs::replay_one(&m, &evs, &mut rep);
        return;
    }
    // (peers, start, max depth)
    // (peers, start, max depth, forged-child variants: 0..2 lie about the total difficulty, 3..5
    // carry the true chain root under a rewritten number / epoch)
    let td = vec![0u8, 1, 2];
    let hdr = vec![3u8, 4, 5];
    let mixed = vec![0u8, 1, 3, 5];
    let configs: Vec<(usize, u8, usize, Vec<u8>)> = if thorough {
        vec![(2, 1, 5, td.clone()), (2, 0, 5, td.clone()), (2, 2, 5, td.clone()), (3, 1, 4, td.clone()), (2, 3, 4, td.clone()), (2, 4, 4, td.clone()), (2, 1, 4, hdr.clone()), (2, 0, 4, hdr.clone()), (2, 2, 4, hdr.clone()), (2, 3, 3, hdr.clone())]
    } else {
        vec![(2, 1, 3, mixed.clone()), (2, 0, 3, mixed.clone()), (2, 2, 3, mixed.clone()), (2, 3, 3, mixed.clone()), (2, 4, 3, mixed.clone())]
    };
    const SHARDS: usize = 16;
    let n_items = configs.len() * SHARDS;
    let worker = crate::verif::props::shard::run("C12", opts, report, n_items, 16, |item, report| {
        let env = Env::dummy();
        let (n_peers, start, max_depth, variants) = configs[item / SHARDS].clone();
        let shard = item % SHARDS;
        let mut main = Chain::new(std::sync::Arc::clone(&env.consensus), scen::wavy_plan(6));
        scen::extend_chain(&mut main, &env.scripts, 60, &[]);
        let mut fork = main.fork(FORK_AT, 777);
        scen::extend_chain(&mut fork, &env.scripts, 60, &[]);
        let m = TipModel {
            env: &env,
            main,
            fork,
            cfg: ClientCfg { last_n: 3, max_outbound: 2, cp_interval: 4, ..Default::default() },
            n_peers,
            start,
            base_height: 14,
            variants: variants.clone(),
            track: RefCell::new(Track::default()),
        };
        let mut st0 = bfs::Stats::default();
        let root_depth = 2;
        let all_roots = bfs::roots(&m, root_depth, &mut st0);
        let mine: Vec<Vec<Ev>> = all_roots.iter().enumerate().filter(|(i, _)| i % SHARDS == shard).map(|(_, h)| h.clone()).collect();
        let shallow: Vec<Vec<Ev>> = if shard == 0 {
            let mut v = vec![vec![]];
            v.extend(bfs::roots(&m, 1, &mut st0));
            v
        } else {
            vec![]
        };
        let name = format!("{}peers/{}", n_peers, START_NAMES[start as usize]);
        let mut not_judged = 0u64;
        let stats = {
            let mut rep = |hist: &[Ev], class: String, detail: String| {
                if class.starts_with("~not-judged") {
                    not_judged += 1;
                    return;
                }
                let kinds: Vec<String> = hist
                    .iter()
                    .filter_map(|e| match e {
                        Ev::Forged(_, v) => Some(format!("forged{}", v)),
                        Ev::Restart => Some("restart".to_owned()),
                        Ev::Switch(_) => Some("switch".to_owned()),
                        _ => None,
                    })
                    .collect();
                report.violation(
                    format!("{}/{}", class, kinds.join("+")),
                    format!("[{}] after {:?}: {}", name, hist, detail),
                    json!({"config": name, "events": hist.iter().map(|e| format!("{:?}", e)).collect::<Vec<_>>()}),
                );
            };
            bfs::search(&m, mine, shallow, max_depth, if thorough { 400_000 } else { 20_000 }, &mut rep)
        };
        report.count("states", stats.states);
        report.count("transitions", stats.transitions);
        report.count("replays", stats.replays + st0.replays);
        report.count("events_applied", stats.applied_events);
        report.count("continuations_not_judged_honest_peer_banned_or_documented_abort", not_judged);
        report.count("documented_long_fork_aborts", stats.documented_aborts);
        for (d, n) in stats.per_depth.iter().enumerate() {
            report.count(&format!("states_at_depth_{}", d), *n);
        }
        if stats.capped {
            report.cap(&format!("{} shard {}: state cap reached at depth {}", name, shard, stats.max_depth));
        }
        if shard == 0 && item == 0 {
            report.sample(json!({"config": name, "example_events": all_roots.iter().take(12).map(|h| format!("{:?}", h)).collect::<Vec<_>>()}));
        }
    });
    if worker {
        return;
    }
    let s = report.get("states");
    report.set("evaluations", json!(report.get("transitions")));
    report.set("distinct_nontrivial", json!(s));
    report.set("traces_validated_against_impl", json!(report.get("replays")));
    report.set("rule", json!("state = event list replayed on the real client (store + peers + pending messages + world position + event budgets, fingerprinted); transitions = (state, enabled event) pairs executed; every state: invariants; every distinct state: honest continuation to convergence"));
    report.set("bounds", json!({"depth": if thorough { "5 (2 peers, total-difficulty forgeries), 4 (3 peers; 2 peers with the header forgeries)" } else { "3" }, "budgets": "grow <= 3, forged <= 2, switch <= 2, tick <= 2, restart <= 1, duplicate <= 1", "roots": "sequences of length 2 dealt to 16 workers (a state reachable under two roots may be counted twice)"}));
    report.assume("dummy PoW: every re-sealed header is PoW-valid (an adversary can always mine one easy-target child)");
}

#[allow(dead_code)]
pub(crate) fn debug_case() {
    // C12_START=0|1|2, C12_PEERS=2|3, C12_EVENTS="Deliver(2);Grow(1,5);Forged(2,0);Restart;Tick;Switch(2);Dup(1)"
    let env = Env::dummy();
    let mut main = Chain::new(std::sync::Arc::clone(&env.consensus), scen::wavy_plan(6));
    scen::extend_chain(&mut main, &env.scripts, 60, &[]);
    let mut fork = main.fork(FORK_AT, 777);
    scen::extend_chain(&mut fork, &env.scripts, 60, &[]);
    let getn = |k: &str, d: u64| -> u64 { std::env::var(k).ok().and_then(|x| x.parse().ok()).unwrap_or(d) };
    let m = TipModel {
        env: &env,
        main,
        fork,
        cfg: ClientCfg { last_n: 3, max_outbound: 2, cp_interval: 4, ..Default::default() },
        n_peers: getn("C12_PEERS", 2) as usize,
        start: getn("C12_START", 0) as u8,
        base_height: 14,
        variants: vec![0, 1, 2, 3, 4, 5],
        track: RefCell::new(Track::default()),
    };
    let evs: Vec<Ev> = std::env::var("C12_EVENTS")
        .unwrap_or_default()
        .split(';')
        .filter(|x| !x.trim().is_empty())
        .map(|x| {
            let x = x.trim();
            let name = x.split('(').next().unwrap();
            let args: Vec<u64> = x.split('(').nth(1).unwrap_or("").trim_end_matches(')').split(',').filter_map(|a| a.trim().parse().ok()).collect();
            match name {
                "Deliver" => Ev::Deliver(args[0] as usize),
                "Grow" => Ev::Grow(args[0] as usize, args[1]),
                "Switch" => Ev::Switch(args[0] as usize),
                "Forged" => Ev::Forged(args[0] as usize, args[1] as u8),
                "Dup" => Ev::Dup(args[0] as usize),
                "Tick" => Ev::Tick,
                "Restart" => Ev::Restart,
                "GrowFirst" => Ev::GrowFirst(args[0] as usize),
                other => panic!("unknown event {}", other),
            }
        })
        .collect();
    let mut sim = m.init(None);
    sim.record_trace = true;
    for (i, ev) in evs.iter().enumerate() {
        m.apply(&mut sim, ev);
        println!("after {:?}: {:?} stored #{}", ev, m.check(&sim, &evs[..=i]), TipModel::stored(&sim).2);
    }
    println!("continuation: {:?}", m.on_new_state(&mut sim, &evs));
    for l in &sim.trace {
        println!("{}", l);
    }
    println!("{}", sim.c().peers.verif_dump(client::now()));
    println!("bans {:?}", sim.bans());
}
