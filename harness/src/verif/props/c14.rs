//! C14 — difficulty checks accept every legal difficulty history and bound illegal ones.
//!
//! E-grid: every epoch sequence over a small grid of epoch lengths and block difficulties whose
//! adjacent *epoch* difficulties (block difficulty x length, the quantity the client measures)
//! stay within tau, every start/end position; the real `verify_tau` / `verify_total_difficulty`
//! are called on each and judged by an exact integer reference.

use std::collections::BTreeMap;
use std::sync::Mutex;

use ckb_types::{
    core::EpochNumberWithFraction,
    utilities::{compact_to_difficulty, difficulty_to_compact},
    U256,
};
use serde_json::json;

use crate::protocols::light_client::verif_exports::{verify_tau, verify_total_difficulty};
use crate::verif::props::{panics, Opts};
use crate::verif::report::Report;

const TAU: u64 = 2;

#[derive(Clone, Copy, Debug)]
struct Ep {
    len: u64,
    d: u64,
    compact: u32,
    /// the real difficulty is `d << shift` (0 in the main grid; 248 in the scaled completeness
    /// pass, where every product with tau reaches the top of the 256-bit range)
    shift: u32,
}

impl Ep {
    fn epoch_difficulty(&self) -> u128 {
        self.len as u128 * self.d as u128
    }
}

impl Acc {
    fn push(&mut self, sig: String, detail: String, replay: serde_json::Value) {
        *self.violation_counts.entry(sig.clone()).or_insert(0) += 1;
        // keep the smallest witness per signature
        let size = replay["epochs"].as_array().map(|a| a.len()).unwrap_or(0) * 10_000
            + replay.to_string().len();
        match self.violations.iter_mut().find(|(s, _, _, _)| *s == sig) {
            Some(entry) => {
                if size < entry.3 {
                    *entry = (sig, detail, replay, size);
                }
            }
            None => self.violations.push((sig, detail, replay, size)),
        }
    }
}

#[derive(Default)]
struct Acc {
    violation_counts: BTreeMap<String, u64>,
    histories: u64,
    calls: u64,
    complete_checked: u64,
    reject_checked: u64,
    by_switches: BTreeMap<u64, u64>,
    violations: Vec<(String, String, serde_json::Value, usize)>,
    sample: Vec<serde_json::Value>,
}

fn u(x: u128) -> U256 {
    U256::from(x)
}

fn legal_step(a: &Ep, b: &Ep) -> bool {
    let (da, db) = (a.epoch_difficulty(), b.epoch_difficulty());
    db <= da * TAU as u128 && db * TAU as u128 >= da
}

fn pow(n: u64) -> u128 {
    (TAU as u128).pow(n as u32)
}

/// Exact envelope of the sum of the n-1 epoch difficulties strictly between epoch a and epoch b
/// (n switches), all quantities scaled by tau^n so that divisions are exact.
/// `db_hi` / `db_lo` are the end difficulty widened to the next / previous power-of-tau multiple of
/// the start difficulty (the granularity the FlyClient check works at).
fn envelopes(da: u128, db: u128, n: u64) -> (u128, u128, u128, u128) {
    let s = pow(n);
    // exact
    let mut max_exact = 0u128;
    let mut min_exact = 0u128;
    for i in 1..n {
        let up = da * pow(i) * s;
        let down = db * pow(n - i) * s;
        max_exact += up.min(down);
        let lo_a = da * s / pow(i); // exact: s = tau^n, i < n
        let lo_b = db * s / pow(n - i);
        min_exact += lo_a.max(lo_b);
    }
    // widened end point
    let mut hi = da * s; // scaled candidates da * tau^m
    let db_s = db * s;
    // smallest da*tau^m >= db (m may be negative down to -n)
    let mut cand = da * s / pow(n);
    while cand < db_s {
        cand *= TAU as u128;
    }
    if cand >= db_s {
        hi = cand;
    }
    let mut lo = da * s * pow(n);
    while lo > db_s {
        lo /= TAU as u128;
    }
    let mut max_wide = 0u128;
    let mut min_wide = 0u128;
    for i in 1..n {
        let up = da * pow(i) * s;
        let down = hi * pow(n - i);
        max_wide += up.min(down);
        let lo_a = da * s / pow(i);
        let lo_b = lo / pow(n - i);
        min_wide += lo_a.max(lo_b);
    }
    // unscale: max rounds up, min rounds down
    (
        (max_exact + s - 1) / s,
        min_exact / s,
        (max_wide + s - 1) / s,
        min_wide / s,
    )
}

fn classify_err(msg: &str) -> &'static str {
    if msg.contains("greater than the upper limit") {
        "upper-limit"
    } else if msg.contains("less than the lower limit") || msg.contains("is less than") {
        "lower-limit"
    } else if msg.contains("changed") && msg.contains("too fast") {
        "too-fast"
    } else if msg.contains("but the calculated is") {
        "exact-mismatch"
    } else if msg.contains("is decreased") {
        "decreased"
    } else {
        "other"
    }
}

fn eval_history(seq: &[Ep], full_positions: bool, acc: &mut Acc) {
    let n = (seq.len() - 1) as u64;
    let first = seq[0];
    let last = seq[seq.len() - 1];
    let positions = |len: u64| -> Vec<u64> {
        if full_positions || len <= 2 {
            (0..len).collect()
        } else {
            vec![0, len - 1]
        }
    };
    let base_epoch = 7u64;
    let middle: u128 = seq[1..seq.len().max(2) - 1]
        .iter()
        .map(|e| e.epoch_difficulty())
        .sum();
    for i in positions(first.len) {
        for j in positions(last.len) {
            if n == 0 && j <= i {
                continue;
            }
            acc.histories += 1;
            *acc.by_switches.entry(n).or_insert(0) += 1;
            let start_epoch = EpochNumberWithFraction::new(base_epoch, i, first.len);
            let end_epoch = EpochNumberWithFraction::new(base_epoch + n, j, last.len);
            let unaligned: u128 = if n == 0 {
                (j - i) as u128 * first.d as u128
            } else {
                (first.len - i - 1) as u128 * first.d as u128 + (j + 1) as u128 * last.d as u128
            };
            let true_total: u128 = if n == 0 {
                unaligned
            } else {
                unaligned + middle
            };
            let describe = |total: i128| {
                json!({
                    "epochs": seq.iter().map(|e| json!([e.len, e.d])).collect::<Vec<_>>(),
                    "start": [base_epoch, i, first.len],
                    "end": [base_epoch + n, j, last.len],
                    "accumulated": total.to_string(),
                    "true_accumulated": true_total.to_string(),
                })
            };
            let shift = first.shift;
            for base in [1000u128, 1u128 << 100] {
                if shift > 0 && base != 1000 {
                    continue;
                }
                // (scaled pass: start total 1000, all difficulties shifted)
                let start_total = u(base);
                // ---- completeness: the true history must be accepted
                // (in the scaled pass the accumulated difficulty may not fit into 256 bits: then only
                // the trend check is evaluated)
                let total_fits = shift == 0 || 255 - shift >= 128 || (true_total >> (255 - shift)) == 0;
                let end_total = if shift > 0 && total_fits { u(base) + (u(true_total) << shift) } else if shift > 0 { U256::zero() } else { u(base + true_total) };
                acc.calls += 2;
                acc.complete_checked += 1;
                let tau_res = verify_tau(start_epoch, first.compact, end_epoch, last.compact, TAU);
                match tau_res {
                    Ok(true) => {}
                    Ok(false) => acc.push(
                        format!("{}reject-legal/verify_tau-false", if shift > 0 { "scaled/" } else { "" }),
                        "verify_tau returns false for a legal history".to_owned(),
                        describe(true_total as i128),
                    ),
                    Err(status) => acc.push(
                        format!("{}reject-legal/verify_tau-error", if shift > 0 { "scaled/" } else { "" }),
                        format!("verify_tau returns {} for a legal history", status),
                        describe(true_total as i128),
                    ),
                }
                if !total_fits {
                    continue;
                }
                let res = verify_total_difficulty(
                    start_epoch,
                    first.compact,
                    &start_total,
                    end_epoch,
                    last.compact,
                    &end_total,
                    TAU,
                );
                if let Err(msg) = res {
                    // the message names the (n, k) the client derived: part of the signature, so
                    // that a rejection for another shape is a different finding
                    let nk = msg
                        .rsplit("n: ")
                        .next()
                        .map(|t| t.replace(", k: ", ",k="))
                        .map(|t| t.trim().to_owned())
                        .filter(|t| t.len() <= 12 && msg.contains("n: "))
                        .unwrap_or_else(|| format!("{}", n));
                    acc.push(
                        format!("{}reject-legal/total-difficulty/{}/n={}", if shift > 0 { "scaled/" } else { "" }, classify_err(&msg), nk),
                        format!(
                            "verify_total_difficulty rejects a legal history: {}",
                            msg.split_whitespace().collect::<Vec<_>>().join(" ")
                        ),
                        describe(true_total as i128),
                    );
                }
                if base != 1000 || shift > 0 || n > 5 {
                    // (long histories: completeness only, the reference envelope is exact integer
                    // arithmetic scaled by tau^n)
                    continue;
                }
                // ---- soundness: must-reject set
                let mut must_reject = |class: &str, delta_total: i128, acc: &mut Acc| {
                    let t = true_total as i128 + delta_total;
                    let end_total = if t >= 0 {
                        u(base + t as u128)
                    } else {
                        u(base - (-t) as u128)
                    };
                    acc.calls += 1;
                    acc.reject_checked += 1;
                    let res = verify_total_difficulty(
                        start_epoch,
                        first.compact,
                        &start_total,
                        end_epoch,
                        last.compact,
                        &end_total,
                        TAU,
                    );
                    if res.is_ok() {
                        acc.push(
                            format!("accept-illegal/{}/n={}", class, n),
                            format!("verify_total_difficulty accepts an impossible total ({})", class),
                            describe(t),
                        );
                    }
                };
                // decreased total
                must_reject("decreased", -(true_total as i128) - 1, acc);
                if n == 0 {
                    must_reject("same-epoch-plus-1", 1, acc);
                    must_reject("same-epoch-minus-1", -1, acc);
                } else if n == 1 {
                    must_reject("one-switch-plus-1", 1, acc);
                    must_reject("one-switch-minus-1", -1, acc);
                } else {
                    let (max_exact, min_exact, _max_wide, _min_wide) =
                        envelopes(first.epoch_difficulty(), last.epoch_difficulty(), n);
                    let slack = n as u128; // one unit of integer rounding per epoch
                    // (1) exact envelope: sum over the middle epochs of
                    //     min(Da*tau^i, Db*tau^(n-i)) resp. max(Da/tau^i, Db/tau^(n-i))
                    for mult in [1u128, 2, 4, 8] {
                        let hi = unaligned + max_exact * mult + slack;
                        must_reject(
                            &format!("exact-envelope/above-x{}", mult),
                            (hi + 1) as i128 - true_total as i128,
                            acc,
                        );
                        let lo = (unaligned + min_exact / mult).saturating_sub(slack);
                        if lo >= 1 && min_exact / mult >= 1 {
                            must_reject(
                                &format!("exact-envelope/below-x{}", mult),
                                (lo - 1) as i128 - true_total as i128,
                                acc,
                            );
                        }
                    }
                    // (2) start cone: no epoch can exceed Da*tau^i or fall below Da/tau^i
                    let mut cone_hi = 0u128;
                    let mut cone_lo = 0u128;
                    let mut down = first.epoch_difficulty();
                    for i in 1..n {
                        cone_hi += first.epoch_difficulty() * pow(i);
                        down /= TAU as u128;
                        cone_lo += down;
                    }
                    must_reject(
                        "start-cone/above",
                        (unaligned + cone_hi + 1) as i128 - true_total as i128,
                        acc,
                    );
                    if cone_lo >= 1 {
                        must_reject(
                            "start-cone/below",
                            (unaligned + cone_lo - 1) as i128 - true_total as i128,
                            acc,
                        );
                    }
                }
            }
            if acc.sample.len() < 3 && n >= 2 {
                acc.sample.push(describe(true_total as i128));
            }
        }
    }
}

fn too_fast_cases(diffs: &[(u64, u32)], acc: &mut Acc) {
    // end epoch difficulty beyond tau^n (and below 1/tau^n): verify_tau false, total rejected
    for n in 1..=4u64 {
        for &(da, ca) in diffs {
            for &(db, cb) in diffs {
                for len in [1u64, 2, 3] {
                    let (ea, eb) = (da as u128 * len as u128, db as u128 * len as u128);
                    let too_fast_up = eb > ea * pow(n);
                    // client's lower bound uses repeated integer division
                    let mut floor_min = ea;
                    for _ in 0..n {
                        floor_min /= TAU as u128;
                    }
                    let too_fast_down = eb < floor_min;
                    if !(too_fast_up || too_fast_down) {
                        continue;
                    }
                    let start_epoch = EpochNumberWithFraction::new(3, 0, len);
                    let end_epoch = EpochNumberWithFraction::new(3 + n, 0, len);
                    acc.calls += 2;
                    acc.reject_checked += 2;
                    acc.histories += 1;
                    let desc = json!({"n": n, "start_epoch_difficulty": ea.to_string(), "end_epoch_difficulty": eb.to_string(), "len": len});
                    match verify_tau(start_epoch, ca, end_epoch, cb, TAU) {
                        Ok(false) => {}
                        other => acc.push(
                            "accept-illegal/verify_tau-too-fast".to_owned(),
                            format!("verify_tau = {:?} for an epoch difficulty moving faster than tau^n", other.map_err(|s| s.to_string())),
                            desc.clone(),
                        ),
                    }
                    // any total at all must be rejected; use the smallest consistent one
                    let total = (len - 1) as u128 * da as u128 + db as u128
                        + (1..n).map(|_| ea.min(eb)).sum::<u128>();
                    let res = verify_total_difficulty(
                        start_epoch,
                        ca,
                        &u(1000),
                        end_epoch,
                        cb,
                        &u(1000 + total),
                        TAU,
                    );
                    if res.is_ok() {
                        acc.push(
                            "accept-illegal/total-too-fast".to_owned(),
                            "verify_total_difficulty accepts an epoch difficulty moving faster than tau^n".to_owned(),
                            desc,
                        );
                    }
                }
            }
        }
    }
}

fn never_abort(thorough: bool, acc: &mut Acc) {
    let epochs: Vec<EpochNumberWithFraction> = vec![
        EpochNumberWithFraction::new_unchecked(0, 0, 0),
        EpochNumberWithFraction::new_unchecked(0, 0, 1),
        EpochNumberWithFraction::new_unchecked(0, 5, 10),
        EpochNumberWithFraction::new_unchecked(1, 0, 1),
        EpochNumberWithFraction::new_unchecked(2, 9, 10),
        EpochNumberWithFraction::new_unchecked(3, 7, 5), // index >= length
        EpochNumberWithFraction::new_unchecked(100, 65534, 65535),
        EpochNumberWithFraction::new_unchecked(300, 0, 65535),
        EpochNumberWithFraction::new_unchecked((1 << 24) - 1, 0, 1),
        EpochNumberWithFraction::new_unchecked((1 << 24) - 1, 65535, 65535),
        EpochNumberWithFraction::new_unchecked(5, 0, 0), // zero length
    ];
    let compacts: Vec<u32> = vec![
        0,
        1,
        0x0100_0001,
        0x2010_0000,
        0x2000_ffff,
        0x1d00_ffff,
        0x0300_0001, // target 1: difficulty 2^256-ish
        0x0400_0100,
        0xffff_ffff,
        difficulty_to_compact(U256::from(1u64)),
    ];
    let max = U256::max_value();
    let totals: Vec<U256> = vec![
        U256::zero(),
        U256::one(),
        U256::from(u64::MAX),
        U256::one() << 128u8,
        U256::one() << 255u8,
        &max - 1u8,
        max,
    ];
    let compacts: Vec<u32> = if thorough {
        compacts
    } else {
        compacts.into_iter().take(8).collect()
    };
    for (ai, a) in epochs.iter().enumerate() {
        for (bi, b) in epochs.iter().enumerate() {
            // the checks loop once per epoch switch: keep the 2^24-epoch distances to a handful of
            // combinations (each costs about a second)
            let far = b.number().saturating_sub(a.number()) > 1000;
            for (cai, &ca) in compacts.iter().enumerate() {
                for (cbi, &cb) in compacts.iter().enumerate() {
                    if far && !((cai == 3 && cbi == 3) || (cai == 6 && cbi == 3 && thorough)) {
                        continue;
                    }
                    acc.calls += 1;
                    acc.histories += 1;
                    let r = panics::catch(|| {
                        let _ = verify_tau(*a, ca, *b, cb, TAU);
                    });
                    if let Err(p) = r {
                        acc.push(
                            format!("abort/{}", p.site()),
                            format!("verify_tau: {}", p.describe()),
                            json!({"start_epoch": a.to_string(), "start_compact": ca, "end_epoch": b.to_string(), "end_compact": cb, "ai": ai, "bi": bi}),
                        );
                    }
                    for (ti, ta) in totals.iter().enumerate() {
                        for (tj, tb) in totals.iter().enumerate() {
                            if !thorough && (ti + tj) % 2 == 1 && ti != 0 {
                                continue;
                            }
                            if far && !(ti <= 1 && (tj == 2 || tj == 6)) {
                                continue;
                            }
                            acc.calls += 1;
                            let r = panics::catch(|| {
                                let _ = verify_total_difficulty(*a, ca, ta, *b, cb, tb, TAU);
                            });
                            if let Err(p) = r {
                                acc.push(
                                    format!("abort/{}", p.site()),
                                    format!("verify_total_difficulty: {}", p.describe()),
                                    json!({"start_epoch": a.to_string(), "start_compact": ca, "start_total": format!("{:#x}", ta), "end_epoch": b.to_string(), "end_compact": cb, "end_total": format!("{:#x}", tb)}),
                                );
                            }
                        }
                    }
                }
            }
        }
    }
}

pub(crate) fn run(opts: &Opts, report: &mut Report) {
    let thorough = opts.thorough();
    let max_switches: u64 = if thorough { 5 } else { 3 };
    let lengths: Vec<u64> = if thorough { vec![1, 2, 3, 4] } else { vec![1, 2, 3] };
    let wanted: Vec<u64> = vec![1, 2, 3, 4, 6, 8, 16];
    let mut diffs: Vec<(u64, u32)> = vec![];
    for d in wanted {
        let compact = difficulty_to_compact(U256::from(d));
        let eff = compact_to_difficulty(compact);
        let eff64 = eff.0[0];
        if !diffs.iter().any(|(e, _)| *e == eff64) {
            diffs.push((eff64, compact));
        }
    }
    let mut eps: Vec<Ep> = vec![];
    for &len in &lengths {
        for &(d, compact) in &diffs {
            eps.push(Ep { len, d, compact, shift: 0 });
        }
    }
    // one worker per first epoch
    let acc_all = Mutex::new(Acc::default());
    let eps_ref = &eps;
    std::thread::scope(|scope| {
        for first in eps_ref.iter() {
            let acc_all = &acc_all;
            scope.spawn(move || {
                let mut acc = Acc::default();
                // iterative deepening: all histories with n switches before any with n+1
                fn dfs(seq: &mut Vec<Ep>, target: usize, eps: &[Ep], acc: &mut Acc) {
                    if seq.len() == target {
                        eval_history(seq, target <= 4, acc);
                        return;
                    }
                    let last = seq[seq.len() - 1];
                    for e in eps.iter() {
                        if legal_step(&last, e) {
                            seq.push(*e);
                            dfs(seq, target, eps, acc);
                            seq.pop();
                        }
                    }
                }
                for n in 0..=max_switches {
                    let mut seq = vec![*first];
                    dfs(&mut seq, n as usize + 1, eps_ref, &mut acc);
                }
                let mut all = acc_all.lock().unwrap();
                all.histories += acc.histories;
                all.calls += acc.calls;
                all.complete_checked += acc.complete_checked;
                all.reject_checked += acc.reject_checked;
                for (k, v) in acc.by_switches {
                    *all.by_switches.entry(k).or_insert(0) += v;
                }
                for (sig, detail, replay, _) in acc.violations {
                    all.push(sig, detail, replay);
                }
                for (k, v) in acc.violation_counts {
                    *all.violation_counts.entry(k).or_insert(0) += v;
                }
                if all.sample.len() < 3 {
                    all.sample.extend(acc.sample);
                }
            });
        }
    });
    let mut acc = acc_all.into_inner().unwrap();
    // ---- scaled completeness pass: the same legal histories with every difficulty shifted by
    // 248 and by 250 bits (block difficulties 2^248 .. 2^254, exactly representable as compact targets), so
    // that start * tau^n and the estimated limits reach and exceed 2^256; <= 3 switches
    #[allow(non_snake_case)]
    for SHIFT in [248u32, 250] {
        let mut eps_scaled: Vec<Ep> = vec![];
        for &len in &[1u64, 2, 3] {
            for d in [1u64, 2, 4, 8, 16] {
                let real = U256::from(d) << SHIFT;
                let compact = difficulty_to_compact(real.clone());
                if compact_to_difficulty(compact) == real {
                    eps_scaled.push(Ep { len, d, compact, shift: SHIFT });
                }
            }
        }
        fn dfs2(seq: &mut Vec<Ep>, target: usize, eps: &[Ep], acc: &mut Acc) {
            if seq.len() == target {
                eval_history(seq, true, acc);
                return;
            }
            let last = seq[seq.len() - 1];
            for e in eps.iter() {
                if legal_step(&last, e) {
                    seq.push(*e);
                    dfs2(seq, target, eps, acc);
                    seq.pop();
                }
            }
        }
        let before = acc.histories;
        for first in eps_scaled.clone() {
            for n in 0..=3usize {
                let mut seq = vec![first];
                dfs2(&mut seq, n + 1, &eps_scaled, &mut acc);
            }
        }
        report.count("scaled_histories", acc.histories - before);
        report.count(&format!("scaled_difficulties/shift{}", SHIFT), eps_scaled.len() as u64 / 3);
    }
    // ---- long legal histories (completeness only): many epoch switches between the two proven end
    // points - constant difficulty, a ramp up / down by tau per epoch followed by a plateau, and a
    // zigzag - for small, medium and 2^70-scale block difficulties
    {
        let before = acc.histories;
        let ns: Vec<usize> = if thorough { (4..=400).collect() } else { (4..=48).chain([64, 100, 150, 200, 300]).collect() };
        let mk = |d: u64, shift: u32| -> Option<Ep> {
            let real = U256::from(d) << shift;
            let compact = difficulty_to_compact(real.clone());
            if compact_to_difficulty(compact) == real { Some(Ep { len: 2, d, compact, shift }) } else { None }
        };
        for shift in [0u32, 70] {
            for d0 in [1u64, 2, 3, 8, 16] {
                let ladder: Vec<Ep> = (0..12).filter_map(|k| mk(d0 << k, shift)).collect();
                if ladder.is_empty() || ladder[0].d != d0 {
                    continue;
                }
                for &n in &ns {
                    // constant
                    let constant: Vec<Ep> = vec![ladder[0]; n + 1];
                    eval_history(&constant, false, &mut acc);
                    if ladder.len() >= 4 {
                        // ramp up then plateau, ramp down then plateau, zigzag
                        let up: Vec<Ep> = (0..=n).map(|i| ladder[i.min(ladder.len() - 1)]).collect();
                        let down: Vec<Ep> = (0..=n).map(|i| ladder[(ladder.len() - 1).saturating_sub(i)]).collect();
                        let zig: Vec<Ep> = (0..=n).map(|i| ladder[i % 2]).collect();
                        for seq in [up, down, zig] {
                            if seq.windows(2).all(|w| legal_step(&w[0], &w[1])) {
                                eval_history(&seq, false, &mut acc);
                            }
                        }
                    }
                }
            }
        }
        report.count("long_histories", acc.histories - before);
    }
    too_fast_cases(&diffs, &mut acc);
    never_abort(thorough, &mut acc);

    acc.violations.sort_by_key(|(sig, _, _, size)| (sig.clone(), *size));
    let counts = acc.violation_counts.clone();
    for (sig, detail, replay, _) in acc.violations {
        let n = counts.get(&sig).copied().unwrap_or(1);
        report.violation(sig, format!("{} [{} enumerated cases fail this way]", detail, n), replay);
    }
    report.set("failing_cases_by_signature", json!(counts));
    report.set("states", json!(acc.histories));
    report.set("transitions", json!(acc.calls));
    report.set("traces_validated_against_impl", json!(acc.calls));
    report.set("evaluations", json!(acc.calls));
    report.set("distinct_nontrivial", json!(acc.histories));
    report.set(
        "rule",
        json!("states = (epoch sequence, start position, end position) histories enumerated breadth-first by number of epoch switches; transitions = calls of the real verify_tau / verify_total_difficulty judged by the integer reference; every history is distinct by construction and non-trivial (at least one block between the end points)"),
    );
    report.set("histories_by_epoch_switches", json!(acc.by_switches));
    report.set("completeness_checks", json!(acc.complete_checked));
    report.set("must_reject_checks", json!(acc.reject_checked));
    report.set(
        "bounds",
        json!({"max_epoch_switches": max_switches, "epoch_lengths": lengths, "block_difficulties": diffs.iter().map(|d| d.0).collect::<Vec<_>>(), "tau": TAU, "positions": "all (start index, end index) pairs up to 3 switches, first/last index beyond"}),
    );
    for s in acc.sample {
        report.sample(s);
    }
    report.assume("the per-epoch adjustment bound is taken on epoch difficulty = block difficulty x epoch length, the quantity the client itself compares");
    report.assume("must-reject envelope is widened by one power-of-tau step at the end point and one unit per epoch (granularity of the FlyClient check); completeness uses the exact history");
}
