//! C05 — honest peers are never rejected and the client converges to the heaviest tip.
//!
//! E-seq: chain shapes (lengths 1 .. 300 (thorough 3000), epochs of 3 / 5 / 10 / 50 blocks whose
//! difficulty moves by up to tau per epoch in rising, falling, zig-zag and plateau patterns, MMR
//! activation epoch 0 / 1), 1-3 honest peers at equal or different heights, world phases (growth
//! by 1, 2, many blocks; a fork shallower than last-N; a restart), RNG seeds; on the small shapes
//! every run with <= 1 (thorough 2) deviations in delivery order, early timer rounds and restarts.
//! Oracle: no ban, no disconnect, quiescence is reached, and the stored tip is the heaviest tip
//! the peers announced.

use std::cell::Cell;
use std::sync::Arc;

use ckb_types::{prelude::*, U256};
use serde_json::json;

use crate::storage::ScriptType;
use crate::verif::client::ClientCfg;
use crate::verif::driver::{Sim, World};
use crate::verif::explore::{self, Dev, RunOutcome, Scenario};
use crate::verif::props::Opts;
use crate::verif::report::Report;
use crate::verif::scen::{self, Act, Env};
use crate::verif::world::{compact_of, Chain, EpochPlan};

#[derive(Clone, Debug)]
pub(crate) enum Phase {
    /// every peer on chain 0 below this height moves up to it and announces
    Grow(u64),
    /// peer `id` moves to (chain, height) and announces
    Move(usize, usize, u64),
    /// process restart (the world grows by one block)
    Restart,
    /// the client goes down, every peer moves to (chain, height) meanwhile, the client restarts:
    /// no prove state is left, the first request starts from the stored tip of the old branch
    SwitchWhileDown(usize, u64),
}

pub(crate) struct HonestScenario<'a> {
    pub env: &'a Env,
    pub name: String,
    pub chains: Vec<Chain>,
    /// (id, chain, initial height)
    pub peers: Vec<(usize, usize, u64)>,
    pub phases: Vec<Phase>,
    pub cfg: ClientCfg,
    pub with_scripts: bool,
    pub seed: u64,
    pub phase: Cell<usize>,
    pub explore_devs: bool,
    /// every full node is this many blocks ahead of the last state it announced
    pub ahead: u64,
    pub clock_behind_ms: u64,
    /// findings at the quiescent points between the phases (the tip has to be the heaviest
    /// announced one there, too, not only at the end of the history)
    pub interim: std::cell::RefCell<Vec<(String, String)>>,
}

impl<'a> Scenario for HonestScenario<'a> {
    fn init(&self, old: Option<Sim>) -> Sim {
        let mut world = World::new(self.chains.clone(), self.cfg.cp_interval);
        for (id, chain, h) in &self.peers {
            world.add_peer(*id, *chain, *h);
        }
        world.filter_batch = 7;
        for p in world.peers.iter_mut() {
            p.ahead = self.ahead;
        }
        if self.clock_behind_ms > 0 {
            let (_, chain, h) = self.peers[0];
            let ts: u64 = self.chains[chain].blocks[h as usize].header().timestamp();
            crate::verif::client::set_now(ts - self.clock_behind_ms);
        } else {
            crate::verif::client::set_now(crate::verif::world::BASE_TS + 1_000_000);
        }
        let mut sim = match old {
            Some(old) => Sim::recycle(old, self.cfg.clone(), world),
            None => scen::new_sim(self.env, self.cfg.clone(), world),
        };
        crate::verif_hooks::rng_reset(self.seed);
        self.phase.set(0);
        self.interim.borrow_mut().clear();
        if self.with_scripts {
            scen::register(&sim, &[(self.env.scripts.a.clone(), ScriptType::Lock, 0)]);
        }
        for (id, _, _) in &self.peers {
            sim.connect(*id);
        }
        sim
    }
    fn user_devs(&self, _sim: &Sim) -> Vec<Dev> {
        vec![]
    }
    fn apply_custom(&self, _sim: &mut Sim, _dev: &Dev) {}
    fn enable_reorder(&self) -> bool {
        self.explore_devs
    }
    fn enable_truncate(&self) -> bool {
        self.explore_devs && self.with_scripts
    }
    fn enable_restart(&self) -> bool {
        self.explore_devs
    }
    fn enable_tick(&self) -> bool {
        self.explore_devs
    }
    fn max_steps(&self) -> usize {
        1500
    }
    fn on_quiescent(&self, sim: &mut Sim) -> bool {
        let i = self.phase.get();
        if i >= self.phases.len() {
            return false;
        }
        if sim.bans().is_empty() && sim.c().out.disconnects().is_empty() {
            for (class, detail) in tip_check(sim) {
                self.interim.borrow_mut().push((class, format!("at the quiescent point before phase {} ({:?}): {}", i, self.phases[i], detail)));
            }
        }
        self.phase.set(i + 1);
        match &self.phases[i] {
            Phase::Grow(h) => {
                let ids: Vec<(usize, usize, u64)> = sim.world.peers.iter().map(|p| (p.id, p.chain, p.height)).collect();
                for (id, chain, height) in ids {
                    let target = (*h).min(sim.world.chains[chain].tip_number());
                    if chain == 0 && height < target {
                        sim.set_view(id, chain, target, true);
                    }
                }
            }
            Phase::Move(id, chain, h) => sim.set_view(*id, *chain, *h, true),
            Phase::Restart => explore::restart_all(sim),
            Phase::SwitchWhileDown(chain, h) => {
                let (chain, h) = (*chain, *h);
                explore::restart_all_pre(sim, &|s: &mut Sim| {
                    let ids: Vec<usize> = s.world.peers.iter().map(|p| p.id).collect();
                    for id in ids {
                        s.set_view(id, chain, h, false);
                    }
                })
            }
        }
        true
    }
}

pub(crate) fn judge(sim: &Sim, outcome: &RunOutcome) -> Vec<(String, String)> {
    let mut bad = vec![];
    if let Some(p) = &outcome.panic {
        // the documented long-fork abort: the stored tip lies more than last-N blocks beyond the
        // point where its branch and the branch the peers announce part (restarts let the old
        // branch grow by a block each, which can push a shallow fork beyond last-N) - outside
        // the property ("forks shallower than last-N")
        if p.msg.contains("long fork detected") && sim.world.chains.len() >= 2 {
            let (a, b) = (&sim.world.chains[0], &sim.world.chains[1]);
            let fork_at = (0..=a.tip_number().min(b.tip_number())).take_while(|n| a.blocks[*n as usize].hash() == b.blocks[*n as usize].hash()).count() as u64 - 1;
            let tip: u64 = sim.c().storage.get_tip_header().raw().number().unpack();
            if tip > fork_at + sim.c().cfg.last_n {
                return vec![];
            }
        }
        bad.push((format!("abort/{}", p.site()), p.describe()));
        return bad;
    }
    for (p, reason) in sim.bans() {
        let code = reason.split(':').next().unwrap_or("").to_owned();
        bad.push((format!("honest-peer-banned/{}", code), format!("peer {} banned: {}", p, reason)));
        let _ = &code;
    }
    for (p, reason) in sim.c().out.disconnects() {
        bad.push(("honest-peer-disconnected".into(), format!("peer {} disconnected: {}", p, reason)));
    }
    if !outcome.converged {
        bad.push(("stall".into(), format!("no quiescence within {} steps", outcome.steps)));
        return bad;
    }
    if !bad.is_empty() {
        return bad;
    }
    // at quiescence nothing is in flight: a peer the client still waits for (a Request* state)
    // can only be disconnected by the message timeout although it answered everything correctly
    for p in &sim.world.peers {
        if !p.connected {
            continue;
        }
        if let Some(st) = sim.c().peers.get_state(&ckb_network::PeerIndex::new(p.id)) {
            use crate::protocols::light_client::PeerState;
            let waiting = match &st {
                PeerState::RequestFirstLastState { .. } => Some("RequestFirstLastState"),
                PeerState::RequestFirstLastStateProof { .. } => Some("RequestFirstLastStateProof"),
                PeerState::RequestNewLastState { .. } => Some("RequestNewLastState"),
                PeerState::RequestNewLastStateProof { .. } => Some("RequestNewLastStateProof"),
                _ => None,
            };
            if let Some(w) = waiting {
                bad.push((
                    format!("honest-peer-left-waiting/{}", w),
                    format!("peer {} answered every request, nothing is in flight, but the client still waits for it in {} (it will be disconnected by the message timeout)", p.id, w),
                ));
            }
        }
    }
    bad.extend(tip_check(sim));
    if sim.queue.is_empty() && sim.held.is_empty() {
        bad.extend(crate::verif::oracle::outstanding_requests(sim));
    }
    bad
}

/// At quiescence the stored tip is the heaviest tip the connected peers announced.
pub(crate) fn tip_check(sim: &Sim) -> Vec<(String, String)> {
    let mut bad = vec![];
    let mut best: Option<(U256, ckb_types::packed::Byte32, u64)> = None;
    for p in &sim.world.peers {
        if !p.connected {
            continue;
        }
        let chain = &sim.world.chains[p.chain];
        let td = chain.tds[p.height as usize].clone();
        let hash = chain.blocks[p.height as usize].hash();
        if best.as_ref().map(|(b, _, _)| &td > b).unwrap_or(true) {
            best = Some((td, hash, p.height));
        }
    }
    if let Some((td, hash, height)) = best {
        let tip = sim.c().storage.get_tip_header();
        let (stored_td, _) = sim.c().storage.get_last_state();
        // a chain of length 0 (only genesis) has nothing to prove
        if height > 0 && tip.calc_header_hash() != hash && stored_td == td {
            // a tie: the stored tip weighs exactly as much as the heaviest announced one (e.g. the
            // old branch grew while the peers moved to a sibling of equal difficulty); the tip only
            // moves to a strictly heavier header (C12), so either of the two is "the heaviest"
        } else if height > 0 && tip.calc_header_hash() != hash {
            bad.push((
                "tip-not-heaviest".into(),
                format!(
                    "stored tip is block {} ({:#x}), the heaviest announced tip is block {} ({:#x})",
                    Unpack::<u64>::unpack(&tip.raw().number()),
                    tip.calc_header_hash(),
                    height,
                    hash
                ),
            ));
        } else if height > 0 && stored_td != td {
            bad.push(("stored-total-difficulty-wrong".into(), format!("stored {:#x}, chain {:#x}", stored_td, td)));
        }
    }
    bad
}

fn plan(len: u64, ds: &[u64]) -> EpochPlan {
    let mut epochs: Vec<(u64, u32)> = ds.iter().map(|d| (len, compact_of(*d))).collect();
    // epoch 0 must carry the genesis target (16)
    assert_eq!(ds[0], 16);
    if epochs.is_empty() {
        epochs.push((len, compact_of(16)));
    }
    EpochPlan { epochs }
}

pub(crate) struct Item {
    pub name: String,
    pub chain_len: u64,
    pub plan: EpochPlan,
    pub fork: Option<(u64, u64)>,
    pub peers: Vec<(usize, usize, u64)>,
    pub phases: Vec<Phase>,
    pub last_n: u64,
    pub mmr_epoch: u64,
    pub with_scripts: bool,
    pub seeds: Vec<u64>,
    pub bound: usize,
    pub ahead: u64,
    /// the client's clock is this many ms behind the timestamp of the block the first peer starts
    /// at (0 = the default clock, far ahead of every block): blocks up to 15 s in the future are
    /// valid by consensus and clocks are not synchronised
    pub clock_behind_ms: u64,
}

pub(crate) fn items(thorough: bool) -> Vec<Item> {
    let mut v = vec![];
    let n = 3u64;
    let seeds_small: Vec<u64> = if thorough { (1..=8).collect() } else { vec![1, 2] };
    let bound_small = if thorough { 2 } else { 1 };
    // tiny chains: lengths 1, 2, N, N+1, 2N+1
    for len in [1u64, 2, n, n + 1, 2 * n + 1] {
        v.push(Item {
            name: format!("tiny{}", len),
            chain_len: len + 3,
            plan: plan(4, &[16, 24, 16]),
            fork: None,
            peers: vec![(1, 0, len)],
            phases: vec![Phase::Grow(len + 1), Phase::Grow(len + 3)],
            last_n: n,
            mmr_epoch: 0,
            with_scripts: false,
            seeds: seeds_small.clone(),
            bound: bound_small,
            ahead: 0,
        clock_behind_ms: 0,
        });
    }
    // rising x2 per epoch, two peers at different heights, growth by 1 / 2 / many, scripts on
    v.push(Item {
        name: "rising30-2peers".into(),
        chain_len: 30,
        plan: plan(5, &[16, 32, 64, 128, 256, 512]),
        fork: None,
        peers: vec![(1, 0, 12), (2, 0, 9)],
        phases: vec![Phase::Grow(13), Phase::Grow(15), Phase::Grow(30)],
        last_n: n,
        mmr_epoch: 0,
        with_scripts: true,
        seeds: vec![1],
        bound: bound_small,
        ahead: 0,
        clock_behind_ms: 0,
    });
    v.push(Item {
        name: "zigzag30".into(),
        chain_len: 30,
        plan: plan(5, &[16, 32, 16, 32, 16, 8]),
        fork: None,
        peers: vec![(1, 0, 8)],
        phases: vec![Phase::Grow(9), Phase::Grow(19), Phase::Restart, Phase::Grow(30)],
        last_n: n,
        mmr_epoch: 1,
        with_scripts: false,
        seeds: seeds_small.clone(),
        bound: bound_small,
        ahead: 0,
        clock_behind_ms: 0,
    });
    v.push(Item {
        name: "falling40".into(),
        chain_len: 40,
        plan: plan(10, &[16, 8, 4, 2]),
        fork: None,
        peers: vec![(1, 0, 5), (2, 0, 5)],
        phases: vec![Phase::Grow(25), Phase::Grow(40)],
        last_n: n,
        mmr_epoch: 0,
        with_scripts: false,
        seeds: seeds_small.clone(),
        bound: 0,
        ahead: 0,
        clock_behind_ms: 0,
    });
    v.push(Item {
        name: "x1.5-60".into(),
        chain_len: 60,
        plan: plan(10, &[16, 24, 36, 54, 36, 24]),
        fork: None,
        peers: vec![(1, 0, 7)],
        phases: vec![Phase::Grow(31), Phase::Grow(60)],
        last_n: n,
        mmr_epoch: 0,
        with_scripts: false,
        seeds: seeds_small.clone(),
        bound: 0,
        ahead: 0,
        clock_behind_ms: 0,
    });
    // plateau: 16, 32, 48, 64, 32 per epoch of 3 blocks; proven in epoch 0, next proof in epoch 4
    v.push(Item {
        name: "plateau-up-down".into(),
        chain_len: 16,
        plan: plan(3, &[16, 32, 48, 64, 32, 32]),
        fork: None,
        peers: vec![(1, 0, 1)],
        phases: vec![Phase::Grow(13), Phase::Grow(16)],
        last_n: 2,
        mmr_epoch: 0,
        with_scripts: false,
        seeds: vec![1, 2],
        bound: 0,
        ahead: 0,
        clock_behind_ms: 0,
    });
    v.push(Item {
        name: "plateau-down-up".into(),
        chain_len: 16,
        plan: plan(3, &[16, 8, 4, 4, 8, 8]),
        fork: None,
        peers: vec![(1, 0, 1)],
        phases: vec![Phase::Grow(13), Phase::Grow(16)],
        last_n: 2,
        mmr_epoch: 0,
        with_scripts: false,
        seeds: vec![1, 2],
        bound: 0,
        ahead: 0,
        clock_behind_ms: 0,
    });
    // growth by exactly N+1, N+2, 2N, 2N+1 blocks after a proof (few or single samples)
    for (name, steps) in [("gapN+1", vec![14u64, 18, 23]), ("gapN+2", vec![15u64, 20, 27]), ("gap2N", vec![16u64, 22, 29])] {
        v.push(Item {
            name: name.into(),
            chain_len: 30,
            plan: plan(7, &[16, 24, 36, 24, 16]),
            fork: None,
            peers: vec![(1, 0, 10)],
            phases: steps.into_iter().map(Phase::Grow).collect(),
            last_n: n,
            mmr_epoch: 0,
            with_scripts: false,
            seeds: if thorough { (1..=12).collect() } else { vec![1, 2, 3, 4] },
            bound: 0,
            ahead: 0,
        clock_behind_ms: 0,
        });
    }
    // a fork shallower than last-N: both peers move to the heavier branch
    v.push(Item {
        name: "shallow-fork".into(),
        chain_len: 20,
        plan: plan(5, &[16, 24, 36, 24, 16]),
        fork: Some((18, 26)),
        peers: vec![(1, 0, 20), (2, 0, 20)],
        phases: vec![Phase::Move(1, 1, 26), Phase::Move(2, 1, 26)],
        last_n: n,
        mmr_epoch: 0,
        with_scripts: true,
        seeds: vec![1],
        bound: bound_small,
        ahead: 0,
        clock_behind_ms: 0,
    });
    // falling difficulty (x 1/2 per epoch): the last part of the DIFFICULTY range of the first proof
    // covers many more than last-N blocks, the server sends all blocks since the boundary as the
    // last section; right after that proof (or after a restart) the peers switch to a fork that is
    // one / two blocks deep - the stored last-N headers must be the LAST N of that section
    for (name, fork_at, restart) in [("falling-then-fork1", 21u64, false), ("falling-then-fork2", 20, false), ("falling-restart-fork", 21, true)] {
        let mut phases = vec![];
        if restart {
            phases.push(Phase::Restart);
        }
        phases.push(Phase::Move(1, 1, 26));
        phases.push(Phase::Move(2, 1, 26));
        v.push(Item {
            name: name.into(),
            chain_len: 23,
            plan: plan(4, &[16, 8, 4, 2, 1, 1, 1]),
            fork: Some((fork_at, 26)),
            peers: vec![(1, 0, 22), (2, 0, 22)],
            phases,
            last_n: n,
            mmr_epoch: 0,
            with_scripts: false,
            seeds: seeds_small.clone(),
            bound: bound_small,
            ahead: 0,
        clock_behind_ms: 0,
        });
    }
    // the same with three peers and a quorum of two for the filter hashes beyond the last check
    // point: one peer proves the new branch, the others adopt the proven state (no proof of their
    // own); their votes for the filter hashes of the abandoned blocks must not survive
    // (default environment only: while the quorum lags the client asks the switched peer again and
    // again, so a run does not get quiescent and every deviation would cost a full horizon)
    for (name, fork_at, tips) in [("shallow-fork-3peers", 18u64, [26u64, 26, 26])] {
        v.push(Item {
            name: name.into(),
            chain_len: 22,
            plan: plan(5, &[16, 24, 36, 24, 16, 24]),
            fork: Some((fork_at, 26)),
            peers: vec![(1, 0, 22), (2, 0, 22), (3, 0, 22)],
            phases: vec![Phase::Move(1, 1, tips[0]), Phase::Move(2, 1, tips[1]), Phase::Move(3, 1, tips[2]), Phase::Move(1, 1, 26), Phase::Move(2, 1, 26)],
            last_n: 4,
            mmr_epoch: 0,
            with_scripts: true,
            seeds: vec![1],
            bound: 0,
            ahead: 0,
            clock_behind_ms: 0,
        });
    }
    // the chain reorganises (within last-N) while the client is down: after the restart there is no
    // prove state, the request starts from the stored tip of the old branch, the server answers with
    // reorg headers and fewer than / exactly / more than last-N new headers
    for (name, fork_at, to) in [("fork-while-down/depth1/+1", 19u64, 21u64), ("fork-while-down/depth1/+2", 19, 22), ("fork-while-down/depth2/+2", 18, 22), ("fork-while-down/depth1/+3", 19, 23), ("fork-while-down/depth2/+6", 18, 26)] {
        v.push(Item {
            name: name.into(),
            chain_len: 20,
            plan: plan(5, &[16, 24, 36, 24, 16, 24]),
            fork: Some((fork_at, 26)),
            peers: vec![(1, 0, 20), (2, 0, 20)],
            phases: if to < 26 { vec![Phase::SwitchWhileDown(1, to), Phase::Move(1, 1, 26), Phase::Move(2, 1, 26)] } else { vec![Phase::SwitchWhileDown(1, to)] },
            last_n: n,
            mmr_epoch: 0,
            with_scripts: true,
            seeds: vec![1],
            bound: bound_small,
            ahead: 0,
        clock_behind_ms: 0,
        });
    }
    // two peers at different heights; the LOWER one grows block by block (the child shortcut of a
    // proven state) while the higher one stays: the stored tip must stay the higher peer's
    // (steps by one block: the child shortcut; jumps by 2: a short proof; by 8: a sampled proof -
    // always to a block below the higher peer's)
    for (name, lag, steps) in [("lagging-peer-steps", 9u64, vec![10u64, 11]), ("lagging-peer-steps-near", 11, vec![12]), ("lagging-peer-jumps", 6, vec![8u64, 10]), ("lagging-peer-jumps-sampled", 2, vec![10u64])] {
        v.push(Item {
            name: name.into(),
            chain_len: 30,
            plan: plan(5, &[16, 32, 64, 128, 256, 512]),
            fork: None,
            peers: vec![(1, 0, 13), (2, 0, lag)],
            phases: steps.into_iter().map(|h| Phase::Move(2, 0, h)).chain(std::iter::once(Phase::Grow(15))).collect(),
            last_n: n,
            mmr_epoch: 0,
            with_scripts: false,
            seeds: vec![1],
            bound: bound_small,
            ahead: 0,
        clock_behind_ms: 0,
        });
    }
    // the full node is three blocks ahead of the state it announced and answers the filter
    // protocol from its own tip; those three blocks are then replaced by a heavier branch that
    // still contains the proved header (no reorg headers, no fork within the stored last-N)
    v.push(Item {
        name: "node-ahead-then-reorg".into(),
        chain_len: 23,
        plan: plan(5, &[16, 24, 36, 24, 16]),
        fork: Some((20, 26)),
        peers: vec![(1, 0, 20)],
        phases: vec![Phase::Move(1, 1, 26)],
        last_n: n,
        mmr_epoch: 0,
        with_scripts: true,
        seeds: vec![1],
        bound: bound_small,
        ahead: 3,
        clock_behind_ms: 0,
    });
    // MMR activation boundary (epoch 1 = block 5): tips below, at and just above the first block
    // of the activation epoch, which carries no chain root yet
    v.push(Item {
        name: "mmr-boundary".into(),
        chain_len: 16,
        plan: plan(5, &[16, 24, 36, 24]),
        fork: None,
        peers: vec![(1, 0, 4)],
        phases: vec![Phase::Grow(5), Phase::Grow(6), Phase::Grow(8), Phase::Grow(16)],
        last_n: n,
        mmr_epoch: 1,
        with_scripts: false,
        seeds: seeds_small.clone(),
        bound: bound_small,
        ahead: 0,
        clock_behind_ms: 0,
    });
    // the peers' tips carry timestamps a few seconds AHEAD of the client's clock
    v.push(Item {
        name: "clock-behind-the-peers".into(),
        chain_len: 12,
        plan: plan(4, &[16, 24, 16]),
        fork: None,
        peers: vec![(1, 0, 7), (2, 0, 7)],
        phases: vec![Phase::Grow(8), Phase::Grow(12)],
        last_n: n,
        mmr_epoch: 0,
        with_scripts: true,
        seeds: vec![1],
        bound: bound_small,
        ahead: 0,
        clock_behind_ms: 5_000,
    });
    // three peers, one lagging, quorum 2
    v.push(Item {
        name: "three-peers".into(),
        chain_len: 24,
        plan: plan(6, &[16, 24, 16, 24]),
        fork: None,
        peers: vec![(1, 0, 14), (2, 0, 14), (3, 0, 6)],
        phases: vec![Phase::Grow(15), Phase::Grow(24)],
        last_n: n,
        mmr_epoch: 0,
        with_scripts: true,
        seeds: vec![1],
        bound: bound_small,
        ahead: 0,
        clock_behind_ms: 0,
    });
    // long chains: default environment only
    v.push(Item {
        name: "long300".into(),
        chain_len: 300,
        plan: plan(50, &[16, 24, 36, 24, 16, 12]),
        fork: None,
        peers: vec![(1, 0, 120)],
        phases: vec![Phase::Grow(121), Phase::Grow(290), Phase::Grow(300)],
        last_n: 100,
        mmr_epoch: 0,
        with_scripts: false,
        seeds: seeds_small.clone(),
        bound: 0,
        ahead: 0,
        clock_behind_ms: 0,
    });
    if thorough {
        v.push(Item {
            name: "long3000".into(),
            chain_len: 3000,
            plan: EpochPlan {
                epochs: (0..30)
                    .map(|i| (100u64, compact_of([16u64, 24, 36, 54, 81, 54, 36, 24][i % 8])))
                    .collect(),
            },
            fork: None,
            peers: vec![(1, 0, 1000)],
            phases: vec![Phase::Grow(1001), Phase::Grow(2200), Phase::Grow(3000)],
            last_n: 100,
            mmr_epoch: 2,
            with_scripts: false,
            seeds: vec![1, 2, 3],
            bound: 0,
            ahead: 0,
        clock_behind_ms: 0,
        });
        v.push(Item {
            name: "rising-x2-short-epochs".into(),
            chain_len: 36,
            plan: plan(3, &[16, 32, 64, 128, 256, 512, 1024, 2048, 4096, 8192, 16384, 32768]),
            fork: None,
            peers: vec![(1, 0, 4)],
            phases: vec![Phase::Grow(20), Phase::Grow(36)],
            last_n: 1,
            mmr_epoch: 0,
            with_scripts: false,
            seeds: (1..=8).collect(),
            bound: 1,
            ahead: 0,
        clock_behind_ms: 0,
        });
    }
    v
}

pub(crate) fn build_scenario<'a>(env: &'a Env, item: &Item, seed: u64) -> HonestScenario<'a> {
    let mut chain = Chain::new(Arc::clone(&env.consensus), item.plan.clone());
    // (honest full nodes commit the chain root only after the activation epoch)
    chain.mmr_activated_epoch = item.mmr_epoch;
    let acts: Vec<(u64, Act)> = if item.with_scripts {
        vec![(2, Act::Mine('A')), (5, Act::Move('A', 'A')), (11, Act::Mine('A'))]
    } else {
        vec![]
    };
    scen::extend_chain(&mut chain, &env.scripts, item.chain_len, &acts);
    let mut chains = vec![chain];
    if let Some((at, tip)) = item.fork {
        let mut f = chains[0].fork(at, 77);
        scen::extend_chain(&mut f, &env.scripts, tip, &[(at + 2, Act::Mine('A'))]);
        chains.push(f);
    }
    HonestScenario {
        env,
        name: format!("{}/seed{}", item.name, seed),
        chains,
        peers: item.peers.clone(),
        phases: item.phases.clone(),
        cfg: ClientCfg {
            last_n: item.last_n,
            max_outbound: item.peers.len() as u32,
            cp_interval: 4,
            mmr_activated_epoch: item.mmr_epoch,
            ..Default::default()
        },
        with_scripts: item.with_scripts,
        seed,
        phase: Cell::new(0),
        explore_devs: item.bound > 0,
        ahead: item.ahead,
        clock_behind_ms: item.clock_behind_ms,
        interim: Default::default(),
    }
}

pub(crate) fn run(opts: &Opts, report: &mut Report) {
    let thorough = opts.thorough();
    let all = items(thorough);
    let work: Vec<(usize, u64)> = all
        .iter()
        .enumerate()
        .flat_map(|(i, it)| it.seeds.iter().map(move |s| (i, *s)))
        .collect();
    // + the request grid of C01 in honest-only mode: the honest answer to every request of the
    // grid (boundary and samples on / next to block totals) must be accepted
    let grid_cfgs: Vec<(bool, u64)> = if thorough { vec![(true, 2), (false, 2), (true, 3), (false, 3)] } else { vec![(true, 2), (false, 2)] };
    const GRID_SLICES: usize = 4;
    let n_scen = work.len();
    let n = n_scen + grid_cfgs.len() * GRID_SLICES;
    let worker = crate::verif::props::shard::run("C05", opts, report, n, 16, |w, report| {
        let env = Env::dummy();
        if w >= n_scen {
            let g = w - n_scen;
            let (constant, last_n) = grid_cfgs[g / GRID_SLICES];
            crate::verif::props::c01::request_grid(&env, report, constant, last_n, (g % GRID_SLICES, GRID_SLICES), thorough, true);
            return;
        }
        let all = items(thorough);
        let (ii, seed) = work[w];
        let item = &all[ii];
        let sc = build_scenario(&env, item, seed);
        let name = sc.name.clone();
        let max_runs = if thorough { 6000 } else { 1200 };
        let stats = {
            let mut judge_cb = |sim: &Sim, outcome: &RunOutcome, devs: &[(usize, Dev)], _extra: &[(String, String, usize)]| {
                let mut bad = judge(sim, outcome);
                if outcome.panic.is_none() {
                    bad.extend(sc.interim.borrow().iter().cloned());
                }
                let groups = crate::verif::oracle::group(bad);
                if !groups.is_empty() {
                    let mut v = vec![];
                    let (_s, traced) = explore::run(&sc, None, devs, 0, true, &mut v);
                    for (class, items) in groups {
                        let dev_kinds: Vec<String> = devs.iter().map(|(_, d)| format!("{:?}", d).split('(').next().unwrap_or("").to_owned()).collect();
                        report.violation(
                            format!("{}/{}/{}", class, item.name, dev_kinds.join("+")),
                            format!("[{}] {}", name, items[0]),
                            json!({"scenario": name, "deviations": explore::devs_json(devs), "all": items.iter().take(6).collect::<Vec<_>>(), "trace": traced.trace.iter().rev().take(60).rev().collect::<Vec<_>>()}),
                        );
                    }
                }
            };
            let filter = |_p: &[(usize, Dev)], _s: usize, _d: &Dev| true;
            explore::explore(&sc, item.bound, max_runs, &filter, &mut judge_cb)
        };
        report.count("states", stats.distinct_final.len() as u64);
        report.count("transitions", stats.steps);
        report.count("runs", stats.runs);
        report.count("scenarios", 1);
        if stats.capped {
            report.cap(&format!("{}: run cap {} reached", name, max_runs));
        }
        if w == 0 {
            let mut v = vec![];
            let (_s, out) = explore::run(&sc, None, &[], 0, true, &mut v);
            report.sample(json!({"scenario": name, "trace": out.trace.iter().take(30).collect::<Vec<_>>()}));
        }
    });
    if worker {
        return;
    }
    report.set("traces_validated_against_impl", json!(report.get("runs")));
    report.set("evaluations", json!(report.get("runs")));
    report.set("distinct_nontrivial", json!(report.get("states")));
    report.set("rule", json!("a run = one (chain shape, peers, phases, RNG seed) history in the default honest environment with <= bound deviations; states = distinct final fingerprints; transitions = executed steps"));
    report.set("bounds", json!({"shapes": all.iter().map(|i| format!("{} len={} lastN={} peers={} bound={} seeds={}", i.name, i.chain_len, i.last_n, i.peers.len(), i.bound, i.seeds.len())).collect::<Vec<_>>()}));
    report.assume("the honest-server model (RFC 0044/0045 restated, calibrated against the repository's fixtures by the accepted end-to-end runs) is the trusted base of this check");
}

/// Development aid: C05_ITEM=<name> C05_SEED=<n> [C05_DEVS="5:Restart;9:Restart"] [C05_THOROUGH=1]
pub(crate) fn debug_case() {
    let env = Env::dummy();
    let want = std::env::var("C05_ITEM").unwrap_or_default();
    let seed: u64 = std::env::var("C05_SEED").ok().and_then(|x| x.parse().ok()).unwrap_or(1);
    let thorough = std::env::var("C05_THOROUGH").is_ok();
    let devs: Vec<(usize, Dev)> = std::env::var("C05_DEVS")
        .unwrap_or_default()
        .split(';')
        .filter_map(|s| {
            let (a, b) = s.split_once(':')?;
            let step: usize = a.trim().parse().ok()?;
            let d = match b.trim() {
                "Restart" => Dev::Restart,
                "TickRound" => Dev::TickRound,
                x if x.starts_with("DeliverIndex") => Dev::DeliverIndex(x.trim_start_matches("DeliverIndex(").trim_end_matches(')').parse().ok()?),
                _ => return None,
            };
            Some((step, d))
        })
        .collect();
    for item in items(thorough) {
        if item.name != want {
            continue;
        }
        let sc = build_scenario(&env, &item, seed);
        let mut v = vec![];
        let (sim, out) = explore::run(&sc, None, &devs, 0, true, &mut v);
        for l in &out.trace {
            println!("  {}", l);
        }
        println!("converged {} panic {:?} bans {:?}", out.converged, out.panic.as_ref().map(|p| p.describe()), sim.bans());
        for (c, d) in judge(&sim, &out) {
            println!("  {}: {}", c, d);
        }
        break;
    }
}
