//! C07 — check points are finalised only by quorum agreement and never change afterwards.
//!
//! E-grid + orders: every assignment of check-point vectors (chained values over the symbols
//! H/X/Y, so two vectors agree at an index iff they agree on the whole prefix) to 1..4 proven
//! peers (+ one unproven peer), every quorum size, delivered through the real
//! `BlockFilterCheckPoints` handler under several schedules with `REFRESH_PEERS` ticks in between;
//! the invariants are evaluated after every tick against the vectors reported so far.

use std::collections::BTreeMap;
use std::sync::Arc;

use ckb_network::PeerIndex;
use ckb_types::{core::EpochNumberWithFraction, packed, prelude::*, U256};
use serde_json::json;

use crate::verif::client::{Client, ClientCfg};
use crate::verif::props::{panics, Opts};
use crate::verif::report::Report;
use crate::verif::scen::Env;
use crate::verif::world::{compact_of, forge_vh, BASE_TS};

const INTERVAL: u64 = 4;

type Sym = u8; // 0 = H, 1 = X, 2 = Y

thread_local! {
    /// values of the current case are NOT chained: the value at an index depends on the index and
    /// its own symbol only (what a deviating peer may send: a vector that differs from the others at
    /// one index and agrees with them again at a later one)
    static UNCHAINED: std::cell::Cell<bool> = std::cell::Cell::new(false);
}

fn value_of(start: &packed::Byte32, prefix: &[Sym]) -> packed::Byte32 {
    if prefix.is_empty() {
        return start.clone();
    }
    let mut data = start.as_slice().to_vec();
    if UNCHAINED.with(|u| u.get()) {
        data.push(0xfe);
        data.extend_from_slice(&(prefix.len() as u64).to_le_bytes());
        data.push(*prefix.last().unwrap());
    } else {
        data.extend_from_slice(prefix);
    }
    ckb_hash::blake2b_256(&data).pack()
}

fn sym_name(v: &[Sym]) -> String {
    v.iter().map(|s| ['H', 'X', 'Y'][*s as usize]).collect()
}

#[derive(Clone, Debug)]
enum Schedule {
    /// all vectors completely, then two ticks
    AllThenTick,
    /// peer by peer: whole vector, tick
    PeerByPeer(Vec<usize>),
    /// one check point per peer per round, tick after every round
    RoundRobin,
    /// tick after every single chunk of one check point, peers in the given order
    TickAfterEveryChunk(Vec<usize>),
}

struct Case {
    max_outbound: u32,
    vectors: Vec<Vec<Sym>>, // proven peers
    unproven: Option<Vec<Sym>>,
    schedule: Schedule,
    /// finalise with a first set of peers, restart, continue with new peers from that index
    restart_after_first_tick: bool,
    /// see UNCHAINED (the progress oracle (d) reasons about prefixes and is not evaluated then)
    unchained: bool,
}

struct Runner<'a> {
    env: &'a Env,
    client: Option<Client>,
    report: &'a mut Report,
    ticks: u64,
    deliveries: u64,
    finalized_events: u64,
    bans_seen: u64,
}

impl<'a> Runner<'a> {
    fn fresh_client(&mut self, max_outbound: u32) {
        let cfg = ClientCfg {
            max_outbound,
            cp_interval: INTERVAL,
            last_n: 3,
            ..Default::default()
        };
        let c = match self.client.take() {
            Some(old) => old.recycle(cfg, &self.env.template),
            None => Client::fresh(cfg, Arc::clone(&self.env.consensus), &self.env.template),
        };
        self.client = Some(c);
    }

    fn run_case(&mut self, case: &Case, case_id: &str) {
        UNCHAINED.with(|u| u.set(case.unchained));
        self.fresh_client(case.max_outbound);
        let q = ((case.max_outbound + 1) / 2) as usize;
        let tip = forge_vh(
            &self.env.consensus,
            1000,
            &U256::from(5000u64),
            compact_of(16),
            EpochNumberWithFraction::new(3, 0, 1000),
            BASE_TS + 999_000,
            Default::default(),
            7,
        );
        let n = case.vectors.len();
        // per peer: how many check points (incl. the start one) it has delivered
        let mut delivered: Vec<usize> = vec![1; n];
        let mut alive: Vec<bool> = vec![true; n];
        let c = self.client.as_mut().unwrap();
        let (start_idx, start_cp) = c.storage.get_last_check_point();
        assert_eq!(start_idx, 0);
        for p in 0..n {
            let pi = PeerIndex::new(p + 1);
            c.peers.add_peer(pi);
            c.peers
                .mock_prove_state(pi, tip.clone().into())
                .expect("mock prove state");
        }
        let unproven_pi = PeerIndex::new(99);
        if case.unproven.is_some() {
            c.peers.add_peer(unproven_pi);
        }
        let desc = |extra: serde_json::Value| {
            json!({
                "case": case_id, "max_outbound": case.max_outbound, "quorum": q,
                "proven_peer_vectors": case.vectors.iter().map(|v| sym_name(v)).collect::<Vec<_>>(),
                "unproven_peer_vector": case.unproven.as_ref().map(|v| sym_name(v)),
                "schedule": format!("{:?}", case.schedule), "at": extra,
            })
        };

        // sends `count` further check points of peer p (proven) or of the unproven peer
        let mut send = |c: &mut Client, vec: &Vec<Sym>, pi: PeerIndex, have: usize, count: usize| -> usize {
            let upto = (have - 1 + count).min(vec.len());
            if upto < have {
                return have;
            }
            // hashes: value(have-1) ..= value(upto)
            let hashes: Vec<packed::Byte32> = ((have - 1)..=upto)
                .map(|k| value_of(&start_cp, &vec[..k]))
                .collect();
            if hashes.len() < 2 {
                return have;
            }
            let msg = packed::BlockFilterMessage::new_builder()
                .set(
                    packed::BlockFilterCheckPoints::new_builder()
                        .start_number((((have - 1) as u64) * INTERVAL).pack())
                        .block_filter_hashes(hashes.pack())
                        .build(),
                )
                .build();
            c.recv_filter(pi, msg.as_bytes());
            let _ = c.out.take_sent();
            upto + 1
        };

        let mut stored_prev: Vec<packed::Byte32> = vec![start_cp.clone()];
        let mut steps: Vec<(usize, usize)> = vec![]; // (peer, chunk) ; peer == usize::MAX => tick
        const TICK: usize = usize::MAX;
        match &case.schedule {
            Schedule::AllThenTick => {
                for p in 0..n {
                    steps.push((p, case.vectors[p].len()));
                }
                steps.push((TICK, 0));
                steps.push((TICK, 0));
            }
            Schedule::PeerByPeer(order) => {
                for &p in order {
                    steps.push((p, case.vectors[p].len()));
                    steps.push((TICK, 0));
                }
                steps.push((TICK, 0));
            }
            Schedule::RoundRobin => {
                let maxlen = case.vectors.iter().map(|v| v.len()).max().unwrap_or(0);
                for _ in 0..maxlen {
                    for p in 0..n {
                        steps.push((p, 1));
                    }
                    steps.push((TICK, 0));
                }
                steps.push((TICK, 0));
            }
            Schedule::TickAfterEveryChunk(order) => {
                let maxlen = case.vectors.iter().map(|v| v.len()).max().unwrap_or(0);
                for _ in 0..maxlen {
                    for &p in order {
                        steps.push((p, 1));
                        steps.push((TICK, 0));
                    }
                }
                steps.push((TICK, 0));
            }
        }
        let mut unproven_sent = false;
        for (si, (p, chunk)) in steps.iter().enumerate() {
            let c = self.client.as_mut().unwrap();
            if *p != TICK {
                if alive[*p] && *chunk > 0 {
                    // a single message needs at least one new check point; the handler wants >= 2
                    // hashes (previous last + new ones)
                    self.deliveries += 1;
                    delivered[*p] = send(c, &case.vectors[*p], PeerIndex::new(*p + 1), delivered[*p], *chunk);
                }
                if !unproven_sent {
                    if let Some(v) = &case.unproven {
                        self.deliveries += 1;
                        let _ = send(c, v, unproven_pi, 1, v.len());
                        unproven_sent = true;
                    }
                }
                // a message must never ban an honest-format sender here
                let bans = c.out.take_bans();
                for (bp, reason) in bans {
                    self.report.violation(
                        "ban-on-check-points-message".to_owned(),
                        format!("peer {} banned while delivering check points: {}", bp, reason),
                        desc(json!({"step": si})),
                    );
                }
                continue;
            }
            // ---- tick
            self.ticks += 1;
            let final_before = c.storage.get_max_check_point_index() as usize;
            let r = panics::catch(|| c.tick_lc(0));
            if let Err(p) = r {
                self.report.violation(format!("abort/{}", p.site()), p.describe(), desc(json!({"step": si})));
                self.client = None;
                return;
            }
            let _ = c.out.take_sent();
            let bans: Vec<usize> = c.out.take_bans().into_iter().map(|(p, _)| p.value()).collect();
            let _ = c.out.take_disconnects();
            let final_after = c.storage.get_max_check_point_index() as usize;
            let stored: Vec<packed::Byte32> = c.storage.get_check_points(0, 1000);
            // (b) only grows, never rewritten
            if final_after < final_before
                || stored.len() < stored_prev.len()
                || stored[..stored_prev.len()] != stored_prev[..]
                || stored.len() != final_after + 1
            {
                self.report.violation(
                    "final-check-points-rewritten-or-shrunk".to_owned(),
                    format!("final index {} -> {}, stored {} -> {} entries", final_before, final_after, stored_prev.len(), stored.len()),
                    desc(json!({"step": si})),
                );
            }
            // what the proven, connected peers had reported when the tick ran
            let reported: Vec<(usize, Vec<packed::Byte32>)> = (0..n)
                .filter(|p| alive[*p])
                .map(|p| {
                    (
                        p,
                        (0..delivered[p])
                            .map(|k| value_of(&start_cp, &case.vectors[p][..k]))
                            .collect(),
                    )
                })
                .collect();
            // (a) safety: every newly final index is backed by >= q proven peers agreeing on
            // every index in (previous final, i]
            if final_after > final_before {
                self.finalized_events += 1;
                // (the property's wording: the same value for it and for every check point SINCE THE
                // PREVIOUSLY FINAL ONE; with chained values that is agreement on the whole prefix)
                let supporters = reported
                    .iter()
                    .filter(|(_, v)| v.len() > final_after && v[final_before..=final_after] == stored[final_before..=final_after])
                    .count();
                if supporters < q {
                    self.report.violation(
                        "finalized-without-quorum".to_owned(),
                        format!(
                            "index {} became final with {} agreeing proven peers, quorum is {}",
                            final_after, supporters, q
                        ),
                        desc(json!({"step": si, "final_before": final_before, "final_after": final_after})),
                    );
                }
            }
            // (d) progress: if >= q proven peers agree up to i and fewer than q are shorter or
            // different, i is final after the tick (peers contradicting the previous final value
            // are banned first and do not count)
            if !case.unchained {
                let eligible: Vec<&(usize, Vec<packed::Byte32>)> = reported
                    .iter()
                    .filter(|(_, v)| v.len() > final_before && v[final_before] == stored_prev[final_before])
                    .collect();
                if eligible.len() >= q {
                    let mut best = final_before;
                    let maxlen = eligible.iter().map(|(_, v)| v.len()).max().unwrap_or(0);
                    for i in (final_before + 1)..maxlen {
                        // most common prefix value at i
                        let mut counts: BTreeMap<Vec<u8>, usize> = BTreeMap::new();
                        for (_, v) in &eligible {
                            if v.len() > i {
                                *counts.entry(v[i].as_slice().to_vec()).or_insert(0) += 1;
                            }
                        }
                        let top = counts.values().copied().max().unwrap_or(0);
                        let others = eligible.len() - top;
                        if top >= q && others < q {
                            best = i;
                        } else {
                            break;
                        }
                    }
                    if final_after < best {
                        self.report.violation(
                            "agreement-blocked".to_owned(),
                            format!(
                                ">= {} proven peers agree up to index {} and fewer than that deviate, but the final index is {}",
                                q, best, final_after
                            ),
                            desc(json!({"step": si, "final_before": final_before})),
                        );
                    }
                }
            }
            // (c) a proven peer contradicting the previously final value is banned at this tick
            for (p, v) in &reported {
                // (observation, no verdict: a vector that contradicts an OLDER final value but agrees
                // at the last final index - only unchained vectors can - is not compared there any
                // more; every final value still had its quorum)
                if v.len() > final_before && v[final_before] == stored_prev[final_before] && (0..final_before).any(|k| v[k] != stored_prev[k]) && !bans.contains(&(p + 1)) {
                    self.report.count("observation/peer_contradicting_an_older_final_value_not_banned", 1);
                }
                let contradicts = v.len() > final_before && v[final_before] != stored_prev[final_before];
                let banned = bans.contains(&(p + 1));
                if contradicts && !banned && reported.len() >= q {
                    self.report.violation(
                        "contradicting-peer-not-banned".to_owned(),
                        format!("peer {} contradicts the final check point {} and was not banned", p + 1, final_before),
                        desc(json!({"step": si})),
                    );
                }
                if banned && !contradicts {
                    self.report.violation(
                        "agreeing-peer-banned".to_owned(),
                        format!("peer {} was banned although it does not contradict the final check point {}", p + 1, final_before),
                        desc(json!({"step": si})),
                    );
                }
            }
            for b in &bans {
                self.bans_seen += 1;
                if *b >= 1 && *b <= n {
                    alive[*b - 1] = false;
                    // the network layer disconnects a banned peer
                    c.disconnect(PeerIndex::new(*b));
                } else {
                    self.report.violation(
                        "unproven-peer-influenced".to_owned(),
                        format!("peer {} (not proven) was banned by the finalisation", b),
                        desc(json!({"step": si})),
                    );
                }
            }
            stored_prev = stored;

            if case.restart_after_first_tick && final_after > 0 && si < steps.len() - 1 {
                // restart: new Peers start from the stored last check point; continue with the
                // same vectors re-based onto it (checks (b) across the restart)
                let c = self.client.take().unwrap().restart();
                let (idx, cp) = c.storage.get_last_check_point();
                if idx as usize != final_after || cp != stored_prev[final_after] {
                    self.report.violation(
                        "restart-loses-final-check-point".to_owned(),
                        format!("after a restart the last check point is {} not {}", idx, final_after),
                        desc(json!({"step": si})),
                    );
                }
                self.client = Some(c);
                return;
            }
        }
        // ---- late duplicates: the client may have asked twice (its request timer fired before the
        // first answer arrived), so the honest complete answer to the first request (start 0)
        // arrives a second time - now, after the finalisations moved the peers' vectors on. It is
        // out of date, not a contradiction: nobody may be banned for it and nothing final changes.
        if let Some(c) = self.client.as_mut() {
            let final_before = c.storage.get_max_check_point_index() as usize;
            for p in 0..n {
                if !alive[p] || case.vectors[p].is_empty() {
                    continue;
                }
                self.deliveries += 1;
                let r = panics::catch(|| {
                    let _ = send(c, &case.vectors[p], PeerIndex::new(p + 1), 1, case.vectors[p].len());
                });
                if let Err(pr) = r {
                    self.report.violation(format!("abort/{}", pr.site()), pr.describe(), desc(json!({"step": "late duplicate"})));
                    self.client = None;
                    return;
                }
                for (bp, reason) in c.out.take_bans() {
                    self.report.violation(
                        "ban-on-late-duplicate-check-points".to_owned(),
                        format!("peer {} banned for the second copy of its own (out-of-date) answer: {}", bp, reason),
                        desc(json!({"step": "late duplicate", "final_index": final_before})),
                    );
                }
            }
            let final_after = c.storage.get_max_check_point_index() as usize;
            let stored: Vec<packed::Byte32> = c.storage.get_check_points(0, 1000);
            if final_after != final_before || stored[..stored_prev.len().min(stored.len())] != stored_prev[..stored_prev.len().min(stored.len())] {
                self.report.violation(
                    "final-check-points-rewritten-or-shrunk".to_owned(),
                    format!("a late duplicate answer changed the final check points (index {} -> {})", final_before, final_after),
                    desc(json!({"step": "late duplicate"})),
                );
            }
        }
    }
}

fn all_vectors(max_len: usize) -> Vec<Vec<Sym>> {
    let mut out: Vec<Vec<Sym>> = vec![vec![]];
    let mut frontier: Vec<Vec<Sym>> = vec![vec![]];
    for _ in 0..max_len {
        let mut next = vec![];
        for v in &frontier {
            for s in 0..3u8 {
                let mut w = v.clone();
                w.push(s);
                next.push(w);
            }
        }
        out.extend(next.iter().cloned());
        frontier = next;
    }
    out
}

fn permutations(n: usize) -> Vec<Vec<usize>> {
    fn rec(cur: &mut Vec<usize>, used: &mut Vec<bool>, n: usize, out: &mut Vec<Vec<usize>>) {
        if cur.len() == n {
            out.push(cur.clone());
            return;
        }
        for i in 0..n {
            if !used[i] {
                used[i] = true;
                cur.push(i);
                rec(cur, used, n, out);
                cur.pop();
                used[i] = false;
            }
        }
    }
    let mut out = vec![];
    rec(&mut vec![], &mut vec![false; n], n, &mut out);
    out
}

pub(crate) fn run(opts: &Opts, report: &mut Report) {
    let thorough = opts.thorough();
    // work items: (number of proven peers, first peer's vector index) so that workers share load
    let len_full = if thorough { 3 } else { 2 };
    let vectors = all_vectors(len_full);
    // unchained vectors over H/X up to length 3 (thorough: H/X/Y)
    let uvectors: Vec<Vec<Sym>> = all_vectors(3).into_iter().filter(|v| thorough || v.iter().all(|s| *s < 2)).collect();
    let items = vectors.len() + uvectors.len();
    let worker = crate::verif::props::shard::run("C07", opts, report, items, 16, |item, report| {
        let env = Env::dummy();
        if item >= vectors.len() {
            // unchained pass: 2 and 3 proven peers, the first one's vector fixed by the work item
            let first = uvectors[item - vectors.len()].clone();
            let mut runner = Runner { env: &env, client: None, report, ticks: 0, deliveries: 0, finalized_events: 0, bans_seen: 0 };
            let mut cases = 0u64;
            for max_outbound in 1..=4u32 {
                for v2 in &uvectors {
                    for sched in [Schedule::AllThenTick, Schedule::RoundRobin] {
                        runner.run_case(&Case { max_outbound, vectors: vec![first.clone(), v2.clone()], unproven: None, schedule: sched, restart_after_first_tick: false, unchained: true }, &format!("u2/{}/{}", sym_name(&first), sym_name(v2)));
                        cases += 1;
                    }
                    for v3 in &uvectors {
                        if v3 < v2 {
                            continue;
                        }
                        runner.run_case(&Case { max_outbound, vectors: vec![first.clone(), v2.clone(), v3.clone()], unproven: None, schedule: Schedule::AllThenTick, restart_after_first_tick: false, unchained: true }, &format!("u3/{}/{}/{}", sym_name(&first), sym_name(v2), sym_name(v3)));
                        cases += 1;
                    }
                }
            }
            let (t, d, f, b) = (runner.ticks, runner.deliveries, runner.finalized_events, runner.bans_seen);
            drop(runner);
            report.count("states", cases);
            report.count("unchained_cases", cases);
            report.count("transitions", t + d);
            report.count("ticks", t);
            report.count("check_point_messages", d);
            report.count("finalisation_events", f);
            report.count("bans", b);
            return;
        }
        let first = vectors[item].clone();
        let mut runner = Runner {
            env: &env,
            client: None,
            report,
            ticks: 0,
            deliveries: 0,
            finalized_events: 0,
            bans_seen: 0,
        };
        let mut cases = 0u64;
        let mut run = |runner: &mut Runner, case: Case, id: String| {
            runner.run_case(&case, &id);
            cases += 1;
        };
        for max_outbound in 1..=4u32 {
            // n = 1
            run(&mut runner, Case { max_outbound, vectors: vec![first.clone()], unproven: Some(vec![2, 2]), schedule: Schedule::AllThenTick, restart_after_first_tick: false, unchained: false }, format!("n1/{}", sym_name(&first)));
            // n = 2, 3: full ordered assignments (first vector fixed by the work item)
            for v2 in &vectors {
                for sched in [Schedule::AllThenTick, Schedule::RoundRobin, Schedule::PeerByPeer(vec![0, 1]), Schedule::PeerByPeer(vec![1, 0])] {
                    run(&mut runner, Case { max_outbound, vectors: vec![first.clone(), v2.clone()], unproven: None, schedule: sched, restart_after_first_tick: false, unchained: false }, format!("n2/{}/{}", sym_name(&first), sym_name(v2)));
                }
                for v3 in &vectors {
                    let vs = vec![first.clone(), v2.clone(), v3.clone()];
                    run(&mut runner, Case { max_outbound, vectors: vs.clone(), unproven: Some(vec![1]), schedule: Schedule::AllThenTick, restart_after_first_tick: false, unchained: false }, format!("n3/{}/{}/{}", sym_name(&first), sym_name(v2), sym_name(v3)));
                    run(&mut runner, Case { max_outbound, vectors: vs.clone(), unproven: None, schedule: Schedule::RoundRobin, restart_after_first_tick: false, unchained: false }, format!("n3rr/{}/{}/{}", sym_name(&first), sym_name(v2), sym_name(v3)));
                    if first.len() <= 2 && v2.len() <= 2 && v3.len() <= 2 {
                        // order exploration: every peer order, tick after every chunk
                        for perm in permutations(3) {
                            run(&mut runner, Case { max_outbound, vectors: vs.clone(), unproven: None, schedule: Schedule::TickAfterEveryChunk(perm.clone()), restart_after_first_tick: false, unchained: false }, format!("n3ord/{}/{}/{}", sym_name(&first), sym_name(v2), sym_name(v3)));
                            run(&mut runner, Case { max_outbound, vectors: vs.clone(), unproven: None, schedule: Schedule::PeerByPeer(perm), restart_after_first_tick: false, unchained: false }, format!("n3pbp/{}/{}/{}", sym_name(&first), sym_name(v2), sym_name(v3)));
                        }
                    }
                    // n = 4: the fourth vector from the short ones (multiset reduction: the tally
                    // does not depend on peer identity, so only v4 >= v3 in list order)
                    let short = all_vectors(if thorough { 2 } else { 1 });
                    for v4 in &short {
                        let vs4 = vec![first.clone(), v2.clone(), v3.clone(), v4.clone()];
                        run(&mut runner, Case { max_outbound, vectors: vs4, unproven: None, schedule: Schedule::AllThenTick, restart_after_first_tick: false, unchained: false }, format!("n4/{}/{}/{}/{}", sym_name(&first), sym_name(v2), sym_name(v3), sym_name(v4)));
                    }
                }
            }
            // restart after the first finalisation
            for v2 in &vectors {
                run(&mut runner, Case { max_outbound, vectors: vec![first.clone(), v2.clone()], unproven: None, schedule: Schedule::RoundRobin, restart_after_first_tick: true, unchained: false }, format!("restart/{}/{}", sym_name(&first), sym_name(v2)));
            }
        }
        let (t, d, f, b) = (runner.ticks, runner.deliveries, runner.finalized_events, runner.bans_seen);
        drop(runner);
        report.count("states", cases);
        report.count("transitions", t + d);
        report.count("ticks", t);
        report.count("check_point_messages", d);
        report.count("finalisation_events", f);
        report.count("bans", b);
    });
    if worker {
        return;
    }
    let t = report.get("transitions");
    report.set("traces_validated_against_impl", json!(t));
    report.set("evaluations", json!(report.get("states")));
    report.set("distinct_nontrivial", json!(report.get("finalisation_events")));
    report.set("rule", json!("states = (max_outbound, ordered vector assignment, schedule) cases; transitions = check-point messages delivered through the real BlockFilterCheckPoints handler + REFRESH_PEERS ticks; distinct_nontrivial = ticks in which the final index advanced"));
    report.set("bounds", json!({"max_outbound": "1..4", "proven_peers": "1..4", "vector_length_full": len_full, "symbols": "H,X,Y (chained values)", "orders": "all 6 peer orders with a tick after every chunk and peer-by-peer, for 3 peers with vectors of length <= 2"}));
    report.sample(json!({"max_outbound": 3, "quorum": 2, "vectors": ["HH", "HX", "H"], "schedule": "RoundRobin", "expect": "index 1 final (H agreed by 3), index 2 not final (HH vs HX, one each)"}));
    report.assume("a banned peer is disconnected by the network layer (the harness calls `disconnected`)");
    report.assume("honest check point values are chained (a value determines its whole prefix), as block filter hashes are; the unchained pass (vectors that differ at one index and agree again later, as only a deviating peer can send) evaluates the safety oracles only");
}
