//! C15 — every proof request the client builds is well-formed and samples enough.
//!
//! E-grid over (start, last) numbers and total difficulties, last-N, with/without a previous
//! prove state and stored last-N headers, RNG seeds and forced boundary draws. Each point is one
//! round through the real handlers (`SendLastState` -> `GetLastStateProof` observed on the wire).

use std::sync::Arc;

use ckb_network::PeerIndex;
use ckb_types::{
    core::{EpochNumberWithFraction, HeaderView},
    packed,
    prelude::*,
    utilities::merkle_mountain_range::VerifiableHeader,
    U256,
};
use serde_json::json;

use crate::verif::client::{Client, ClientCfg, Template};
use crate::verif::net::Proto;
use crate::verif::props::{panics, Opts};
use crate::verif::report::Report;
use crate::verif::world::{compact_of, forge_vh, load_consensus, BASE_TS};
use crate::verif_hooks;

fn required_samples(gap: u64, last_n: u64) -> Option<(u64, u64)> {
    // independent restatement of the FlyClient bound (c = 1/2, lambda = 50):
    //   delta region = last_n blocks => k = log_c(last_n / gap); one sample catches the optimal
    //   adversary with p = 1/k; (1-p)^m <= 2^-lambda  =>  m >= lambda / log_{1/2}(1 - 1/k)
    if gap <= last_n {
        return None;
    }
    let k = ((last_n as f64) / (gap as f64)).ln() / (0.5f64).ln();
    let m = if k <= 1.0 {
        1.0
    } else {
        (50.0 / ((1.0 - 1.0 / k).ln() / (0.5f64).ln())).ceil()
    };
    let m = if m.is_finite() { m as u64 } else { 1 };
    // discount the last_n fully checked blocks; at least one sample; never more than there are
    let lo = m.saturating_sub(last_n).max(1).min(gap - last_n);
    Some((lo, m))
}

struct Case {
    last_n: u64,
    s_num: u64,
    s_td: U256,
    gap: u64,
    range: U256,
    with_prove_state: bool,
    stored_last_n: bool,
    /// the stored tip and its last-N headers come from another peer and lie ABOVE this peer's
    /// proven header (window start+2 .. start+2+N)
    stored_above: bool,
    seed: u64,
    forced: Option<u64>,
    /// the announced last header lies this many blocks BELOW start + gap (used with gap 0: a
    /// sibling of the proven header, or a header below it that is not lighter)
    back: u64,
}

pub(crate) fn run(opts: &Opts, report: &mut Report) {
    let thorough = opts.thorough();
    let consensus = Arc::new(load_consensus("mini_dummy.toml"));
    let template = Template::new(&consensus);
    let compact = compact_of(16);
    let two = |n: u32| U256::one() << n;

    let last_ns: Vec<u64> = if thorough { vec![1, 2, 3, 100] } else { vec![1, 3, 100] };
    let seeds: Vec<u64> = if thorough { (0..20).collect() } else { vec![0, 1, 2] };
    let mut cases: Vec<Case> = vec![];
    for &last_n in &last_ns {
        let mut gaps: Vec<u64> = vec![1, last_n.max(2) - 1, last_n, last_n + 1, last_n + 2, last_n + last_n / 2, 2 * last_n - 1, 2 * last_n, 2 * last_n + 1, 1000, 1 << 32, 1 << 63];
        if thorough {
            gaps.extend([3 * last_n + 1, 10 * last_n, 65536, 1 << 48]);
        }
        gaps.sort_unstable();
        gaps.dedup();
        for &gap in &gaps {
            for (s_num, s_td) in [
                (0u64, U256::zero()),
                (20u64, U256::from(500u64)),
                (1_000_000u64, two(64)),
                (77u64, two(200)),
            ] {
                if s_num.checked_add(gap).is_none() {
                    continue;
                }
                let mut ranges: Vec<U256> = vec![
                    U256::zero(),
                    U256::one(),
                    U256::from(gap),
                    U256::from(gap).saturating_mul(&U256::from(100u64)),
                    two(64),
                    two(200),
                    two(255),
                ];
                if thorough {
                    ranges.push(U256::from(gap) + 1u8);
                    ranges.push(U256::from(2u64));
                    ranges.push(two(32));
                }
                for range in ranges {
                    if s_td.checked_add(&range).is_none() {
                        continue;
                    }
                    for with_prove_state in [false, true] {
                        for (stored_last_n, stored_above) in [(false, false), (true, false), (true, true)] {
                            if s_num == 0 && (with_prove_state || stored_last_n) {
                                continue;
                            }
                            if stored_above && (!with_prove_state || gap > 2 * last_n + 1) {
                                continue;
                            }
                            for &seed in &seeds {
                                cases.push(Case {
                                    last_n,
                                    s_num,
                                    s_td: s_td.clone(),
                                    gap,
                                    range: range.clone(),
                                    with_prove_state,
                                    stored_last_n,
                                    stored_above,
                                    seed,
                                    forced: None,
                                    back: 0,
                                });
                            }
                            for forced in [0u64, u64::MAX] {
                                cases.push(Case {
                                    last_n,
                                    s_num,
                                    s_td: s_td.clone(),
                                    gap,
                                    range: range.clone(),
                                    with_prove_state,
                                    stored_last_n,
                                    stored_above,
                                    seed: 0,
                                    forced: Some(forced),
                                    back: 0,
                                });
                            }
                        }
                    }
                }
            }
        }
    }

    // a proven peer announces a DIFFERENT header that is not above the proven one in number and
    // not below it in total difficulty (a sibling after a one-block reorganisation, or a heavier
    // header further down): no request with start >= last may go out, and nothing may overflow
    for &last_n in &last_ns {
        for (s_num, s_td) in [(20u64, U256::from(500u64)), (1_000_000u64, two(64)), (77u64, two(200))] {
            for back in [0u64, 1, 2, s_num - 1] {
                for range in [U256::zero(), U256::one(), U256::from(16u64), U256::from(17u64), two(64)] {
                    for stored_last_n in [false, true] {
                        cases.push(Case { last_n, s_num, s_td: s_td.clone(), gap: 0, range: range.clone(), with_prove_state: true, stored_last_n, stored_above: false, seed: 0, forced: None, back });
                    }
                }
            }
        }
    }

    let mut requests = 0u64;
    let mut none_sent = 0u64;
    let mut sampled_requests = 0u64;
    let mut total_draws = 0u64;
    let mut distinct_shapes = std::collections::BTreeSet::new();
    let mut next_peer = 1usize;
    let mut client: Option<Client> = None;
    let mut client_last_n = 0u64;
    let ts = BASE_TS + 999_000;
    for (ci, case) in cases.iter().enumerate() {
        if client.is_none() || client_last_n != case.last_n {
            client = None;
            let cfg = ClientCfg {
                last_n: case.last_n,
                ..Default::default()
            };
            client = Some(Client::fresh(cfg, Arc::clone(&consensus), &template));
            client_last_n = case.last_n;
        }
        let c = client.as_mut().unwrap();
        let p = next_peer;
        next_peer += 1;
        let pi = PeerIndex::new(p);
        let epoch_of = |n: u64| EpochNumberWithFraction::new(1 + (n / 1000) % 100_000, n % 1000, 1000);
        let l_num = case.s_num + case.gap - case.back;
        let l_td = &case.s_td + &case.range;
        let block_diff = U256::from(16u64);
        // start header (only if not genesis)
        let start_vh: Option<VerifiableHeader> = if case.s_num == 0 {
            None
        } else {
            // total difficulty of the start header = s_td  => parent td = s_td - 16 (clamped)
            let parent_td = if case.s_td >= block_diff {
                &case.s_td - &block_diff
            } else {
                U256::zero()
            };
            Some(
                forge_vh(&consensus, case.s_num, &parent_td, compact, epoch_of(case.s_num), ts, Default::default(), 1)
                    .into(),
            )
        };
        let s_td_eff = start_vh
            .as_ref()
            .map(|h| h.total_difficulty())
            .unwrap_or_else(U256::zero);
        let l_td = if l_td >= s_td_eff.clone() + &block_diff || case.range < block_diff {
            l_td
        } else {
            l_td
        };
        let l_parent_td = if l_td >= block_diff { &l_td - &block_diff } else { U256::zero() };
        let last_vh_packed = forge_vh(&consensus, l_num, &l_parent_td, compact, epoch_of(l_num), ts, Default::default(), 2);
        let last_vh: VerifiableHeader = last_vh_packed.clone().into();
        let l_td_eff = last_vh.total_difficulty();

        // stored state
        let stored_headers: Vec<HeaderView> = if case.stored_above {
            ((case.s_num + 2)..(case.s_num + 2 + case.last_n))
                .map(|n| {
                    let vh: VerifiableHeader =
                        forge_vh(&consensus, n, &U256::from(n), compact, epoch_of(n), ts, Default::default(), 3).into();
                    vh.header().clone()
                })
                .collect()
        } else if case.stored_last_n {
            (case.s_num.saturating_sub(case.last_n)..case.s_num)
                .filter(|n| *n > 0)
                .map(|n| {
                    let vh: VerifiableHeader =
                        forge_vh(&consensus, n, &U256::from(n), compact, epoch_of(n), ts, Default::default(), 3).into();
                    vh.header().clone()
                })
                .collect()
        } else {
            vec![]
        };
        match &start_vh {
            Some(_) if case.stored_above => {
                // another peer's heavier tip
                let t = case.s_num + 2 + case.last_n;
                let t_td = s_td_eff.clone().saturating_add(&U256::from(1_000_000u64));
                let tip: VerifiableHeader = forge_vh(&consensus, t, &t_td, compact, epoch_of(t), ts, Default::default(), 4).into();
                c.storage.update_last_state(&tip.total_difficulty(), &tip.header().data(), &stored_headers)
            }
            Some(vh) => c.storage.update_last_state(&s_td_eff, &vh.header().data(), &stored_headers),
            None => c.storage.update_last_state(
                &U256::zero(),
                &consensus.genesis_block().header().data(),
                &[],
            ),
        }
        let (s_num, s_hash) = match &start_vh {
            Some(vh) => (case.s_num, vh.header().hash()),
            None => (0, consensus.genesis_block().hash()),
        };

        verif_hooks::rng_reset(case.seed);
        if let Some(f) = case.forced {
            verif_hooks::rng_force(&vec![f; 4096]);
        }
        let _ = c.out.take_sent();
        let msg = packed::LightClientMessage::new_builder()
            .set(packed::SendLastState::new_builder().last_header(last_vh_packed).build())
            .build()
            .as_bytes();
        let res = panics::catch(|| {
            if case.with_prove_state {
                c.peers.add_peer(pi);
                c.peers
                    .mock_prove_state(pi, start_vh.clone().unwrap())
                    .expect("mock prove state");
                c.recv_lc(pi, msg.clone());
                c.tick_lc(0);
            } else {
                c.connect(pi);
                c.recv_lc(pi, msg.clone());
            }
        });
        let draws = verif_hooks::rng_draws();
        verif_hooks::rng_reset(0);
        let desc = json!({
            "last_n": case.last_n, "start_number": s_num, "start_total_difficulty": format!("{:#x}", s_td_eff),
            "last_number": l_num, "last_total_difficulty": format!("{:#x}", l_td_eff),
            "with_prove_state": case.with_prove_state, "stored_last_n_headers": stored_headers.len(), "stored_above_the_proven_start": case.stored_above,
            "seed": case.seed, "forced_draw": case.forced,
        });
        if let Err(p) = res {
            report.violation(format!("abort/{}", p.site()), p.describe(), desc.clone());
            client = None;
            continue;
        }
        let bans = c.out.take_bans();
        let sent = c.out.take_sent();
        c.peers.remove_peer(pi);
        if !bans.is_empty() {
            report.violation(
                "harness/forged-last-state-banned".to_owned(),
                format!("machinery: the forged last state was banned: {:?}", bans),
                desc.clone(),
            );
            continue;
        }
        let req = sent.iter().find_map(|s| {
            if s.proto != Proto::LightClient {
                return None;
            }
            match packed::LightClientMessage::from_slice(&s.data).ok()?.to_enum() {
                packed::LightClientMessageUnion::GetLastStateProof(r) => Some(r),
                _ => None,
            }
        });
        let req = match req {
            Some(r) => r,
            None => {
                none_sent += 1;
                continue;
            }
        };
        requests += 1;
        total_draws += draws;
        let r_start: u64 = req.start_number().unpack();
        let r_last_n: u64 = req.last_n_blocks().unpack();
        let boundary: U256 = req.difficulty_boundary().unpack();
        let diffs: Vec<U256> = req.difficulties().into_iter().map(|d| d.unpack()).collect();
        let range_eff = if l_td_eff >= s_td_eff { &l_td_eff - &s_td_eff } else { U256::zero() };
        let mut fail = |class: &str, what: String| {
            report.count(&format!("fail/{}/range={:#x}", class, range_eff), 1);
            report.violation(
                format!("malformed-request/{}", class),
                what,
                json!({"case": desc, "request": {"start_number": r_start, "boundary": format!("{:#x}", boundary), "difficulties": diffs.len(), "first": diffs.first().map(|d| format!("{:#x}", d)), "last": diffs.last().map(|d| format!("{:#x}", d)), "draws": draws}}),
            );
        };
        if req.last_hash() != last_vh.header().hash() {
            fail("last-hash", "the request does not name the announced last header".to_owned());
        }
        if r_last_n != case.last_n {
            fail("last-n", format!("last_n_blocks is {} not {}", r_last_n, case.last_n));
        }
        if r_start >= l_num {
            fail("start-not-below-last", format!("start number {} >= last number {}", r_start, l_num));
        }
        if s_td_eff > l_td_eff {
            fail("start-above-last-difficulty", "a request was sent although the start total difficulty exceeds the last one".to_owned());
        }
        if boundary < s_td_eff || boundary > l_td_eff {
            fail(
                if boundary > l_td_eff { "boundary-above-last" } else { "boundary-below-start" },
                format!("difficulty boundary {:#x} outside [{:#x}, {:#x}]", boundary, s_td_eff, l_td_eff),
            );
        }
        if diffs.windows(2).any(|w| w[0] >= w[1]) {
            fail("not-increasing", "sampled difficulties are not strictly increasing".to_owned());
        }
        // (start, boundary) is empty when boundary <= start + 1: then the only block a sample can
        // select is the start block itself (difficulty == start), which is what the client asks
        // for; demanding a value strictly inside an empty interval would be unsatisfiable.
        let interval_empty = boundary <= s_td_eff.clone() + 1u8;
        if let Some(d) = diffs
            .iter()
            .find(|d| **d < s_td_eff || (**d == s_td_eff && !interval_empty))
        {
            fail("sample-not-above-start", format!("sampled difficulty {:#x} <= start total difficulty {:#x}", d, s_td_eff));
        }
        if let Some(d) = diffs.iter().find(|d| **d >= boundary) {
            fail("sample-not-below-boundary", format!("sampled difficulty {:#x} >= boundary {:#x}", d, boundary));
        }
        if diffs.len() as u64 > draws {
            fail("more-samples-than-draws", format!("{} difficulties from {} draws", diffs.len(), draws));
        }
        if case.gap == 0 {
            // (a request that passed the checks above starts from a stored header below the
            // announced one: nothing more is demanded here)
            distinct_shapes.insert(format!("not-above-the-proven-header/{}/back{}", case.last_n, case.back.min(3)));
            continue;
        }
        match required_samples(case.gap, case.last_n) {
            None => {
                // at most last-N blocks missing: all of them, no samples
                if !diffs.is_empty() {
                    fail("samples-in-short-request", format!("{} samples although only {} blocks are missing", diffs.len(), case.gap));
                }
                if r_start > s_num || l_num - r_start.min(l_num) > case.last_n {
                    fail("short-request-does-not-cover", format!("start {} does not make the server return all of ({}, {})", r_start, s_num, l_num));
                }
                if r_start == s_num && req.start_hash() != s_hash {
                    fail("start-hash", "start hash is not the start block".to_owned());
                }
                if r_start < s_num {
                    let ok = stored_headers
                        .iter()
                        .any(|h| h.number() == r_start && h.hash() == req.start_hash());
                    if !ok {
                        fail("rebased-start-not-stored", "rebased start is not one of the stored last-N headers".to_owned());
                    }
                }
                if boundary != s_td_eff {
                    fail("short-request-boundary", "boundary of a short request is not the start difficulty".to_owned());
                }
                distinct_shapes.insert(format!("short/{}/{}", case.last_n, case.gap.min(5)));
            }
            Some((need, m)) => {
                sampled_requests += 1;
                if r_start != s_num || req.start_hash() != s_hash {
                    fail("start-hash", "sampled request does not start at the proven / stored tip".to_owned());
                }
                // (the bound may be missed by one through rounding, but never down to nothing:
                // more than last-N blocks are unknown, so at least one draw is needed)
                if draws == 0 {
                    fail("no-samples-for-a-gap-beyond-last-n", format!("no sample drawn although {} blocks are missing and only the last {} are requested in full", case.gap, case.last_n));
                }
                if draws + 1 < need {
                    fail("too-few-samples", format!("{} draws, FlyClient bound needs {} (m = {}, last_n = {}, gap = {})", draws, need, m, case.last_n, case.gap));
                }
                distinct_shapes.insert(format!("sampled/{}/{}/{}", case.last_n, case.gap, need));
            }
        }
        if ci % 997 == 0 {
            report.sample(json!({"case": desc, "request": {"start_number": r_start, "boundary": format!("{:#x}", boundary), "difficulties": diffs.len(), "draws": draws}}));
        }
    }
    report.set("states", json!(cases.len()));
    report.set("transitions", json!(requests + none_sent));
    report.set("traces_validated_against_impl", json!(requests + none_sent));
    report.set("evaluations", json!(cases.len()));
    report.set("distinct_nontrivial", json!(distinct_shapes.len()));
    report.set("rule", json!("states = grid points (last-N, start, gap, difficulty range, prove state?, stored last-N?, seed or forced draw); each is one real handler round; distinct_nontrivial = distinct (kind, last-N, gap, required sample count) shapes among emitted requests"));
    report.set("requests_observed", json!(requests));
    report.set("no_request_sent", json!(none_sent));
    report.set("sampled_requests", json!(sampled_requests));
    report.set("rng_draws_total", json!(total_draws));
    report.assume("announced last states are re-sealed forgeries (consistent extension/extra hash) on a Dummy-PoW consensus, so that arbitrary numbers and total difficulties reach the request builder through the real handlers");
    report.assume("sample count is measured as RNG draws (FlyClient samples with replacement; duplicates collapse in the request)");
}
