//! C18 — send_transaction admits only verifiable transactions; relays once per peer.
//!
//! (a) E-mut: on a synced client (script A, always-success lock, 6 live cells) every mutant of a
//! valid transaction (outputs exceed inputs, duplicated input with equal / different `since`,
//! unknown input, unknown dep, dep group with an unknown member / empty / malformed data,
//! immature absolute and relative `since`, no inputs, no outputs, wrong version, output type
//! script with unknown code, a child of a pending / of an evicted / of a never-sent transaction)
//! goes through estimate_cycles and send_transaction: the verdict must be the one known by
//! construction, the two calls agree on verdict and cycles, a rejected transaction leaves the pool
//! and the relay traffic untouched, an accepted one is `pending` with the same cycles.
//! (b) E-seq/BFS over {submit valid_i (5 distinct), re-submit, submit invalid, relay connect /
//! disconnect of 2 peers, relay tick, GetRelayTransactions} with a pool limit of 3 against a
//! reference pool: size <= limit with oldest-first eviction, members (and only members) are
//! `pending`, answers to GetRelayTransactions carry exactly the members with their cycles, a relay
//! tick announces every member not yet announced to an opened peer, and no (hash, peer) pair is
//! ever announced twice.

use std::cell::RefCell;
use std::collections::{BTreeMap, BTreeSet, VecDeque};

use ckb_network::PeerIndex;
use ckb_types::{
    core::{DepType, TransactionView},
    packed,
    prelude::*,
};
use serde_json::json;

use crate::service::{ChainRpc, Status as TxStatusKind, TransactionRpc};
use crate::verif::bfs::{self, Model};
use crate::verif::client::{self, ClientCfg};
use crate::verif::driver::{Sim, World};
use crate::verif::net::Proto;
use crate::verif::props::{panics, Opts};
use crate::verif::report::Report;
use crate::verif::scen::{self, Act, Env};
use crate::verif::txlib::{build_tx, OutSpec};
use crate::verif::world::{self, Chain};

const LIMIT: usize = 3;

fn build_chain(env: &Env) -> Chain {
    let mut c = Chain::new(std::sync::Arc::clone(&env.consensus), scen::wavy_plan(6));
    // 10 s between blocks, so that the median time of the tip and its own time differ in seconds
    c.ts_step = 10_000;
    // blocks 1..8 pay the miner reward to A (always success), blocks 9..12 to S (secp256k1 lock)
    let acts: Vec<(u64, Act)> = (1..=8).map(|n| (n, Act::Mine('A'))).chain((9..=12).map(|n| (n, Act::Mine('S')))).collect();
    // (longer than the 37 blocks of the median-time window)
    scen::extend_chain(&mut c, &env.scripts, 45, &acts);
    c
}

fn new_sim(env: &Env, chain: &Chain, old: Option<Sim>) -> Sim {
    // (the median time of the tip needs the headers of the last 37 blocks, which the client only has
    // from the last-N headers of a proven state; the default last-N is 100)
    let cfg = ClientCfg { last_n: 40, max_outbound: 2, cp_interval: 4, pending_limit: LIMIT, ..Default::default() };
    let mut world = World::new(vec![chain.clone()], cfg.cp_interval);
    world.add_peer(1, 0, chain.tip_number());
    world.add_peer(2, 0, chain.tip_number());
    client::set_now(world::BASE_TS + 1_000_000);
    let mut sim = match old {
        // the store of `old` was recycled from the synced template: everything but the pool and
        // the relay state (both in memory, rebuilt) is as after the sync
        Some(old) => Sim::recycle(old, cfg, world),
        None => {
            let mut sim = scen::new_sim(env, cfg, world);
            crate::verif_hooks::rng_reset(18);
            scen::register(&sim, &[(env.scripts.a.clone(), crate::storage::ScriptType::Lock, 0), (env.scripts.s.clone(), crate::storage::ScriptType::Lock, 0)]);
            sim.connect(1);
            sim.connect(2);
            sim.converge(60);
            // from now on every recycled client starts from this synced store
            sim.template = std::sync::Arc::new(crate::verif::client::Template { dir: env.template.dir.clone(), dump: sim.c().db_dump() });
            sim
        }
    };
    {
        let mut addrs = sim.c().out.peer_addrs.lock().unwrap();
        addrs.clear();
        // a node that reconnects gets a new session index (p, p + 10, p + 20, ...) but keeps its
        // address and peer id
        for (p, id) in [(1usize, "QmXS4Kbc9HEeykHUTJCm2tNmqghbvWyYpUp6BtE5b6VrAU"), (2, "QmUaSuEdXNGJEKvkE4rCn3cwBrpRFUm5TsouF4M3Sjursv")] {
            for k in 0..6usize {
                addrs.push((PeerIndex::new(p + 10 * k), format!("/ip4/127.0.0.1/tcp/{}/p2p/{}", 8000 + p, id)));
            }
        }
    }
    let _ = sim.c().out.take_sent();
    sim.sent_log.clear();
    sim
}

/// The i-th live cell of A: the cellbase output of block i+1.
fn cell(chain: &Chain, i: usize) -> (packed::OutPoint, u64) {
    let cb = chain.blocks[i + 1].transaction(0).unwrap();
    let cap: u64 = cb.outputs().get(0).unwrap().capacity().unpack();
    (packed::OutPoint::new(cb.hash(), 0), cap)
}

fn valid(env: &Env, chain: &Chain, i: usize) -> TransactionView {
    let (op, cap) = cell(chain, i);
    build_tx(&[env.scripts.always_dep.clone()], &[op], &[OutSpec::lock(&env.scripts.b, cap - 10_000)], 100 + i as u64)
}

/// A valid transaction that spends the i-th cell of S (i = 0..3: the cellbase of block 9 + i), signed.
fn valid_secp(env: &Env, chain: &Chain, i: usize) -> TransactionView {
    let (op, cap) = cell(chain, 8 + i);
    let tx = build_tx(&[env.scripts.secp_dep.clone().expect("secp dep group")], &[op], &[OutSpec::lock(&env.scripts.b, cap - 10_000)], 0);
    crate::verif::txlib::sign_secp(&tx.as_advanced_builder().set_witnesses(vec![]).build(), &crate::verif::txlib::SECP_KEY)
}

/// The same raw transaction (same hash) with one byte of witness `w` flipped at `pos` from the end.
fn twin(tx: &TransactionView, w: usize, pos_from_end: usize) -> TransactionView {
    let mut ws: Vec<packed::Bytes> = tx.witnesses().into_iter().collect();
    let mut raw = ws[w].raw_data().to_vec();
    let k = raw.len() - 1 - pos_from_end;
    raw[k] ^= 1;
    ws[w] = ckb_types::bytes::Bytes::from(raw).pack();
    let t = tx.as_advanced_builder().set_witnesses(ws).build();
    assert_eq!(t.hash(), tx.hash());
    t
}

struct Observed {
    send: Result<(), String>,
    estimate: Result<u64, String>,
    pool_cycles: Option<u64>,
    status: TxStatusKind,
    relay_msgs: usize,
}

fn submit(sim: &mut Sim, tx: &TransactionView) -> Observed {
    let before = sim.sent_log.len();
    let est = {
        let r = panics::catch(|| sim.c().rpc_chain().estimate_cycles(tx.data().into()));
        match r {
            Ok(Ok(e)) => Ok(e.cycles.value()),
            Ok(Err(e)) => Err(format!("{}", e.message)),
            Err(p) => Err(format!("PANIC {}", p.describe())),
        }
    };
    let send = {
        let r = panics::catch(|| sim.c().rpc_tx().send_transaction(tx.data().into()));
        match r {
            Ok(Ok(_)) => Ok(()),
            Ok(Err(e)) => Err(format!("{}", e.message)),
            Err(p) => Err(format!("PANIC {}", p.describe())),
        }
    };
    sim.pump_out();
    let got = sim.c().rpc_tx().get_transaction(tx.hash().unpack()).expect("get_transaction");
    Observed {
        send,
        estimate: est,
        pool_cycles: got.cycles.map(|c| c.value()),
        status: got.tx_status.status,
        relay_msgs: sim.sent_log[before..].iter().filter(|s| s.proto == Proto::Relay).count(),
    }
}

/// (label, transactions to send first (all valid), the transaction under test, expected verdict)
fn mutation_cases(env: &Env, chain: &Chain) -> Vec<(String, Vec<TransactionView>, TransactionView, bool)> {
    let s = &env.scripts;
    let dep = s.always_dep.clone();
    let (op0, cap0) = cell(chain, 0);
    let (op1, cap1) = cell(chain, 1);
    let base = valid(env, chain, 0);
    let first_committable = chain.tip_number() + 1 + env.consensus.tx_proposal_window().closest();
    let mut v: Vec<(String, Vec<TransactionView>, TransactionView, bool)> = vec![];
    let mut case = |label: &str, pre: Vec<TransactionView>, tx: TransactionView, ok: bool| v.push((label.to_owned(), pre, tx, ok));
    case("valid", vec![], base.clone(), true);
    case("valid/two-inputs", vec![], build_tx(&[dep.clone()], &[op0.clone(), op1.clone()], &[OutSpec::lock(&s.b, cap0 + cap1 - 1)], 1), true);
    case("valid/outputs-equal-inputs", vec![], build_tx(&[dep.clone()], &[op0.clone()], &[OutSpec::lock(&s.b, cap0)], 2), true);
    case("outputs-exceed-inputs/+1", vec![], build_tx(&[dep.clone()], &[op0.clone()], &[OutSpec::lock(&s.b, cap0 + 1)], 3), false);
    case("outputs-exceed-inputs/x2", vec![], build_tx(&[dep.clone()], &[op0.clone()], &[OutSpec::lock(&s.b, cap0), OutSpec::lock(&s.a, cap0)], 4), false);
    case("duplicated-input/same-since", vec![], build_tx(&[dep.clone()], &[op0.clone(), op0.clone()], &[OutSpec::lock(&s.b, cap0)], 5), false);
    // the same out point twice with different `since` (both mature)
    for (label, sinces) in [("0,1", [0u64, 1]), ("1,0", [1u64, 0]), ("0,relative-0", [0u64, 0x8000_0000_0000_0000])] {
        let mut b = ckb_types::core::TransactionBuilder::default().cell_dep(dep.clone());
        for since in sinces {
            b = b.input(packed::CellInput::new(op0.clone(), since));
        }
        let out = packed::CellOutput::new_builder().capacity((cap0 * 2 - 1000).pack()).lock(s.b.clone()).build();
        let tx = b.output(out).output_data(Default::default()).build();
        case(&format!("duplicated-input/different-since({})", label), vec![], tx, false);
    }
    let unknown = packed::OutPoint::new(packed::Byte32::new_unchecked(vec![0x42u8; 32].into()), 0);
    case("unknown-input", vec![], build_tx(&[dep.clone()], &[unknown.clone()], &[OutSpec::lock(&s.b, 100_0000_0000)], 6), false);
    case("unknown-input/beside-a-known-one", vec![], build_tx(&[dep.clone()], &[op0.clone(), unknown.clone()], &[OutSpec::lock(&s.b, cap0)], 7), false);
    case("input-index-out-of-range", vec![], build_tx(&[dep.clone()], &[packed::OutPoint::new(op0.tx_hash(), 7)], &[OutSpec::lock(&s.b, 100_0000_0000)], 8), false);
    let unknown_dep = packed::CellDep::new_builder().out_point(unknown.clone()).dep_type(DepType::Code.into()).build();
    case("unknown-dep", vec![], build_tx(&[dep.clone(), unknown_dep], &[op0.clone()], &[OutSpec::lock(&s.b, cap0 - 1)], 9), false);
    case("missing-code-dep", vec![], build_tx(&[], &[op0.clone()], &[OutSpec::lock(&s.b, cap0 - 1)], 10), false);
    // a plain cell used as a dep group: its data is not an out point vector
    let bad_group = packed::CellDep::new_builder().out_point(op1.clone()).dep_type(DepType::DepGroup.into()).build();
    case("dep-group/empty-data", vec![], build_tx(&[dep.clone(), bad_group], &[op0.clone()], &[OutSpec::lock(&s.b, cap0 - 1)], 11), false);
    // immature since
    for (label, since) in [
        // (a submitted transaction is verified for the first block that can commit it:
        // tip + 1 + the closest end of the proposal window)
        ("absolute-block/first-committable+1", first_committable + 1),
        ("absolute-block/far", 1u64 << 40),
        ("relative-block/100", 0x8000_0000_0000_0000 | 100),
        ("absolute-epoch/far", 0x2000_0000_0000_0000 | (1u64 << 40) | 1000),
    ] {
        let tx = ckb_types::core::TransactionBuilder::default()
            .cell_dep(dep.clone())
            .input(packed::CellInput::new(op0.clone(), since))
            .output(packed::CellOutput::new_builder().capacity((cap0 - 1).pack()).lock(s.b.clone()).build())
            .output_data(Default::default())
            .build();
        case(&format!("immature-since/{}", label), vec![], tx, false);
    }
    for (label, since) in [("absolute-block/1", 1u64), ("absolute-block/tip", chain.tip_number()), ("absolute-block/tip+1", chain.tip_number() + 1), ("absolute-block/first-committable", first_committable)] {
        let tx = ckb_types::core::TransactionBuilder::default()
            .cell_dep(dep.clone())
            .input(packed::CellInput::new(op0.clone(), since))
            .output(packed::CellOutput::new_builder().capacity((cap0 - 1).pack()).lock(s.b.clone()).build())
            .output_data(Default::default())
            .build();
        case(&format!("valid/mature-since/{}", label), vec![], tx, true);
    }
    // timestamp since: mature up to the median time of the tip (the median of the 37 blocks
    // tip-36 ..= tip is block tip-18), immature beyond it even if the tip's own timestamp is later
    {
        let secs = |n: u64| (world::BASE_TS + n * 10_000) / 1000;
        let mid = chain.tip_number() - 18;
        for (label, ts, ok) in [
            ("valid/mature-since/absolute-timestamp/median-time", secs(mid), true),
            ("immature-since/absolute-timestamp/median-time+10s", secs(mid + 1), false),
            ("immature-since/absolute-timestamp/tip-time", secs(chain.tip_number()), false),
        ] {
            let since = 0x4000_0000_0000_0000u64 | ts;
            let tx = ckb_types::core::TransactionBuilder::default()
                .cell_dep(dep.clone())
                .input(packed::CellInput::new(op0.clone(), since))
                .output(packed::CellOutput::new_builder().capacity((cap0 - 1).pack()).lock(s.b.clone()).build())
                .output_data(Default::default())
                .build();
            case(label, vec![], tx, ok);
        }
    }
    // cellbase-shaped submissions: the only input is the null out point (with the block number as
    // since, as a real cellbase has it), with 0 / 1 / 2 witnesses; and the null out point beside a
    // real input. None of them spends a cell the client knows.
    for (label, n_witnesses, with_real) in [("cellbase-shaped/no-witness", 0usize, false), ("cellbase-shaped/one-witness", 1, false), ("cellbase-shaped/two-witnesses", 2, false), ("null-out-point-beside-a-known-input", 1, true)] {
        let mut b = ckb_types::core::TransactionBuilder::default().cell_dep(dep.clone());
        if with_real {
            b = b.input(packed::CellInput::new(op0.clone(), 0));
        }
        b = b.input(packed::CellInput::new_cellbase_input(chain.tip_number() + 1));
        for i in 0..n_witnesses {
            b = b.witness(ckb_types::bytes::Bytes::from(vec![i as u8; 8]).pack());
        }
        let tx = b
            .output(packed::CellOutput::new_builder().capacity(1_000_000_0000_0000u64.pack()).lock(s.b.clone()).build())
            .output_data(Default::default())
            .build();
        case(label, vec![], tx, false);
    }
    case("no-inputs", vec![], build_tx(&[dep.clone()], &[], &[OutSpec::lock(&s.b, 100_0000_0000)], 12), false);
    case("no-outputs", vec![], build_tx(&[dep.clone()], &[op0.clone()], &[], 13), false);
    case("wrong-version", vec![], base.as_advanced_builder().version(1u32.pack()).build(), false);
    case("output-type-script-with-unknown-code", vec![], build_tx(&[dep.clone()], &[op0.clone()], &[OutSpec::typed(&s.b, &s.c, cap0 - 1, vec![])], 14), false);
    case("valid/output-type-script-always-success", vec![], build_tx(&[dep.clone()], &[op0.clone()], &[OutSpec::typed(&s.b, &s.t, cap0 - 1, vec![1])], 15), true);
    // chains of pending transactions
    let parent = build_tx(&[dep.clone()], &[op0.clone()], &[OutSpec::lock(&s.a, cap0 - 1000)], 16);
    let child = build_tx(&[dep.clone()], &[packed::OutPoint::new(parent.hash(), 0)], &[OutSpec::lock(&s.b, cap0 - 2000)], 17);
    let grandchild = build_tx(&[dep.clone()], &[packed::OutPoint::new(child.hash(), 0)], &[OutSpec::lock(&s.b, cap0 - 3000)], 18);
    case("child-of-a-never-sent-transaction", vec![], child.clone(), false);
    case("valid/child-of-a-pending-transaction", vec![parent.clone()], child.clone(), true);
    case("valid/grandchild-of-pending-transactions", vec![parent.clone(), child.clone()], grandchild.clone(), true);
    case("child-spends-more-than-the-pending-output", vec![parent.clone()], build_tx(&[dep.clone()], &[packed::OutPoint::new(parent.hash(), 0)], &[OutSpec::lock(&s.b, cap0)], 19), false);
    case("child-of-a-pending-transaction/output-index-out-of-range", vec![parent.clone()], build_tx(&[dep.clone()], &[packed::OutPoint::new(parent.hash(), 1)], &[OutSpec::lock(&s.b, 100_0000_0000)], 20), false);
    // a relative `since` on the output of a PENDING parent: the parent is in no block, so there is
    // nothing the lock could be measured from - immature whatever the value (a full node rejects it
    // the same way); an absolute mature one is fine
    for (label, since, ok) in [
        ("immature-since/relative-block/0-on-a-pending-output", 0x8000_0000_0000_0000u64, false),
        ("immature-since/relative-block/1-on-a-pending-output", 0x8000_0000_0000_0001u64, false),
        ("immature-since/relative-epoch/0-on-a-pending-output", 0xa000_0000_0000_0000u64, false),
        ("immature-since/relative-timestamp/1-on-a-pending-output", 0xc000_0000_0000_0001u64, false),
        ("valid/mature-since/absolute-block/1-on-a-pending-output", 1u64, true),
    ] {
        let tx = ckb_types::core::TransactionBuilder::default()
            .cell_dep(dep.clone())
            .input(packed::CellInput::new(packed::OutPoint::new(parent.hash(), 0), since))
            .output(packed::CellOutput::new_builder().capacity((cap0 - 2000).pack()).lock(s.b.clone()).build())
            .output_data(Default::default())
            .build();
        case(label, vec![parent.clone()], tx, ok);
    }
    // the parent was evicted from the pool (limit 3) before the child arrives
    let fillers: Vec<TransactionView> = (2..2 + LIMIT).map(|i| valid(env, chain, i)).collect();
    let mut pre = vec![parent.clone()];
    pre.extend(fillers);
    case("child-of-an-evicted-transaction", pre, child, false);
    // script verification that depends on the witness: cells locked by secp256k1_blake160_sighash_all
    {
        use crate::verif::txlib::{sign_secp, SECP_KEY};
        let secp_dep = s.secp_dep.clone().expect("secp dep group");
        let signed = valid_secp(env, chain, 0);
        let unsigned = signed.as_advanced_builder().set_witnesses(vec![]).build();
        case("valid/secp-signed", vec![], signed.clone(), true);
        case("script-fails/secp/no-witness", vec![], unsigned.clone(), false);
        case("script-fails/secp/signed-with-another-key", vec![], sign_secp(&unsigned, &[0x33; 32]), false);
        for pos in [0usize, 1, 33, 64] {
            case(&format!("script-fails/secp/signature-byte-flipped({})", pos), vec![], twin(&signed, 0, pos), false);
        }
        // the signature of another transaction of the same owner
        let other = valid_secp(env, chain, 1);
        case("script-fails/secp/signature-of-another-transaction", vec![], unsigned.as_advanced_builder().set_witnesses(other.witnesses().into_iter().collect()).build(), false);
        // a further witness is covered by the signature: appended afterwards / altered afterwards
        let with_extra = sign_secp(&unsigned.as_advanced_builder().witness(Default::default()).witness(ckb_types::bytes::Bytes::from(vec![7u8; 9]).pack()).build(), &SECP_KEY);
        assert_eq!(with_extra.witnesses().len(), 2);
        case("valid/secp-signed/extra-witness-covered", vec![], with_extra.clone(), true);
        case("script-fails/secp/extra-witness-appended-after-signing", vec![], signed.as_advanced_builder().witness(ckb_types::bytes::Bytes::from(vec![7u8; 9]).pack()).build(), false);
        case("script-fails/secp/extra-witness-altered-after-signing", vec![], twin(&with_extra, 1, 0), false);
        // two inputs of the same owner, one signature for the group
        {
            let (op_a, cap_a) = cell(chain, 8);
            let (op_b, cap_b) = cell(chain, 9);
            let two = build_tx(&[secp_dep.clone()], &[op_a.clone(), op_b.clone()], &[OutSpec::lock(&s.b, cap_a + cap_b - 1)], 0).as_advanced_builder().set_witnesses(vec![]).build();
            case("valid/secp-signed/two-inputs-one-group", vec![], sign_secp(&two, &SECP_KEY), true);
            // an always-success input beside a secp input whose signature is missing
            let mixed = build_tx(&[secp_dep.clone(), dep.clone()], &[op0.clone(), op_a.clone()], &[OutSpec::lock(&s.b, cap0 + cap_a - 1)], 0).as_advanced_builder().set_witnesses(vec![]).build();
            case("script-fails/secp/unsigned-input-beside-an-always-success-input", vec![], mixed, false);
            // secp cell without the code dep group
            let nodep = build_tx(&[dep.clone()], &[op_a.clone()], &[OutSpec::lock(&s.b, cap_a - 1)], 0).as_advanced_builder().set_witnesses(vec![]).build();
            case("missing-code-dep/secp", vec![], sign_secp(&nodep, &SECP_KEY), false);
        }
        // the same raw transaction (same hash) with an invalid witness while the valid one is
        // pending / after the valid one was evicted; the valid one again after a rejected twin
        case("script-fails/secp/twin-of-a-pending-transaction", vec![signed.clone()], twin(&signed, 0, 1), false);
        case("script-fails/secp/twin-of-a-pending-transaction/no-witness", vec![signed.clone()], unsigned.clone(), false);
        let mut pre = vec![signed.clone()];
        pre.extend((2..2 + LIMIT).map(|i| valid(env, chain, i)));
        case("script-fails/secp/twin-of-an-evicted-transaction", pre, twin(&signed, 0, 1), false);
        case("valid/secp-signed/again-while-pending", vec![signed.clone()], signed.clone(), true);
    }
    v
}

// ---------------------------------------------------------------------------------------- (b)

#[derive(Clone, Debug, PartialEq, Eq)]
pub(crate) enum Ev {
    Submit(usize),
    SubmitInvalid,
    /// transaction 0 (secp-signed) with one signature byte flipped: same hash, script fails
    SubmitTwin,
    RelayConnect(usize),
    RelayDisconnect(usize),
    RelayTick,
    GetRelay(usize),
}

#[derive(Default)]
struct Track {
    pool: VecDeque<usize>,
    opened: BTreeSet<usize>,
    /// opened peers that were told something since they connected
    active: BTreeSet<usize>,
    /// (tx, peer) pairs announced so far
    announced: BTreeSet<(usize, usize)>,
    /// since the last (re-)submission of the transaction
    announced_since_push: BTreeSet<(usize, usize)>,
    pending: Vec<(String, String)>,
    submits: u32,
    invalids: u32,
    twins: u32,
    ticks: u32,
    gets: u32,
    connects: u32,
    sent_seen: usize,
    /// how often each node (1, 2) opened the relay protocol so far: its current session index
    /// is node + 10 * (sessions - 1)
    sessions: BTreeMap<usize, usize>,
}

pub(crate) struct PoolModel<'a> {
    env: &'a Env,
    chain: Chain,
    txs: Vec<TransactionView>,
    invalid: TransactionView,
    track: RefCell<Track>,
}

impl<'a> PoolModel<'a> {
    fn session_of(&self, node: usize) -> usize {
        let k = self.track.borrow().sessions.get(&node).copied().unwrap_or(1);
        node + 10 * (k.max(1) - 1)
    }

    fn index_of(&self, h: &packed::Byte32) -> Option<usize> {
        self.txs.iter().position(|t| &t.hash() == h)
    }

    /// Relay messages the client sent during the event: announcements and transaction bodies.
    fn observe(&self, sim: &mut Sim, event: &Ev) {
        sim.pump_out();
        let mut t = self.track.borrow_mut();
        let new: Vec<_> = sim.sent_log[t.sent_seen..].iter().filter(|s| s.proto == Proto::Relay).cloned().collect();
        t.sent_seen = sim.sent_log.len();
        let mut announced_now: BTreeSet<(usize, usize)> = BTreeSet::new();
        let mut bodies: Vec<(usize, Vec<(usize, u64)>)> = vec![];
        for s in new {
            // (the node behind the session)
            let p = s.peer.value() % 10;
            match packed::RelayMessage::from_compatible_slice(&s.data).map(|m| m.to_enum()) {
                Ok(packed::RelayMessageUnion::RelayTransactionHashes(m)) => {
                    for h in m.tx_hashes().into_iter() {
                        match self.index_of(&h) {
                            Some(i) => {
                                if !announced_now.insert((i, p)) || t.announced_since_push.contains(&(i, p)) {
                                    t.pending.push(("announced-twice-to-a-peer".into(), format!("transaction {} announced to peer {} again without having been submitted again", i, p)));
                                } else if t.announced.contains(&(i, p)) {
                                    t.pending.push(("announced-twice-to-a-peer/after-resubmission".into(), format!("transaction {} announced to peer {} a second time (it was submitted again in between)", i, p)));
                                }
                                if !t.pool.contains(&i) {
                                    t.pending.push(("announced-transaction-not-in-pool".into(), format!("transaction {} announced to peer {} but it is not a pool member", i, p)));
                                }
                                if !t.opened.contains(&p) {
                                    t.pending.push(("announced-to-a-peer-without-relay-protocol".into(), format!("peer {}", p)));
                                }
                            }
                            None => t.pending.push(("announced-unknown-hash".into(), format!("{:#x} to peer {}", h, p))),
                        }
                    }
                }
                Ok(packed::RelayMessageUnion::RelayTransactions(m)) => {
                    let mut v = vec![];
                    for rt in m.transactions().into_iter() {
                        let h = rt.transaction().calc_tx_hash();
                        match self.index_of(&h) {
                            Some(i) => v.push((i, Unpack::<u64>::unpack(&rt.cycles()))),
                            None => t.pending.push(("relayed-unknown-transaction".into(), format!("{:#x}", h))),
                        }
                    }
                    bodies.push((p, v));
                }
                Ok(other) => t.pending.push(("unexpected-relay-message".into(), other.item_name().to_owned())),
                Err(_) => t.pending.push(("malformed-relay-message".into(), String::new())),
            }
        }
        for x in &announced_now {
            t.announced.insert(*x);
            t.announced_since_push.insert(*x);
            t.active.insert(x.1);
        }
        // completeness of a relay tick / a relay connect: every member not yet announced to an
        // opened peer is announced now
        let must_announce: Vec<usize> = match event {
            Ev::RelayTick => t.opened.iter().cloned().collect(),
            Ev::RelayConnect(p) => vec![*p],
            _ => vec![],
        };
        for p in must_announce {
            let members: Vec<usize> = t.pool.iter().cloned().collect();
            for i in members.iter() {
                if !t.announced_since_push.contains(&(*i, p)) {
                    t.pending.push(("pool-member-not-announced".into(), format!("transaction {} is pending, peer {} has the relay protocol open, but {:?} did not announce it", i, p, event)));
                }
            }
        }
        if let Ev::GetRelay(p) = event {
            let want: BTreeSet<usize> = t.pool.iter().cloned().collect();
            let got: BTreeSet<usize> = bodies.iter().filter(|(q, _)| q == p).flat_map(|(_, v)| v.iter().map(|(i, _)| *i)).collect();
            if want != got {
                t.pending.push(("relay-answer-differs-from-pool".into(), format!("GetRelayTransactions of all five hashes from peer {}: got {:?}, pool {:?}", p, got, want)));
            }
        }
        let _ = bodies;
    }
}

impl<'a> Model for PoolModel<'a> {
    type Ev = Ev;

    fn init(&self, old: Option<Sim>) -> Sim {
        let sim = new_sim(self.env, &self.chain, old);
        *self.track.borrow_mut() = Track::default();
        sim
    }

    fn enabled(&self, _sim: &Sim, _hist: &[Ev]) -> Vec<Ev> {
        let t = self.track.borrow();
        let mut v = vec![];
        if t.submits < 5 {
            for i in 0..self.txs.len() {
                v.push(Ev::Submit(i));
            }
        }
        if t.invalids < 1 {
            v.push(Ev::SubmitInvalid);
        }
        if t.twins < 1 {
            v.push(Ev::SubmitTwin);
        }
        for p in 1..=2usize {
            if t.opened.contains(&p) {
                v.push(Ev::RelayDisconnect(p));
                if t.gets < 2 {
                    v.push(Ev::GetRelay(p));
                }
            } else if t.connects < 3 {
                v.push(Ev::RelayConnect(p));
            }
        }
        // (with no opened peer the tick tries to open the protocol through the p2p service
        // control, which the recording context cannot provide)
        // (... and a tick closes the protocol of an opened peer that was never told anything and
        // has nothing to be told, through the same service control)
        let all_active = t.opened.iter().all(|p| t.active.contains(p) || t.pool.iter().any(|i| !t.announced_since_push.contains(&(*i, *p))));
        if !t.opened.is_empty() && all_active && t.ticks < 3 {
            v.push(Ev::RelayTick);
        }
        v
    }

    fn apply(&self, sim: &mut Sim, ev: &Ev) {
        match ev {
            Ev::Submit(i) => {
                let r = sim.c().rpc_tx().send_transaction(self.txs[*i].data().into());
                let mut t = self.track.borrow_mut();
                t.submits += 1;
                match r {
                    Ok(_) => {
                        if let Some(pos) = t.pool.iter().position(|x| x == i) {
                            t.pool.remove(pos);
                        }
                        t.pool.push_back(*i);
                        if t.pool.len() > LIMIT {
                            t.pool.pop_front();
                        }
                        let stale: Vec<(usize, usize)> = t.announced_since_push.iter().filter(|(x, _)| x == i).cloned().collect();
                        for s in stale {
                            t.announced_since_push.remove(&s);
                        }
                    }
                    Err(e) => t.pending.push(("valid-transaction-rejected".into(), format!("transaction {}: {}", i, e.message))),
                }
            }
            Ev::SubmitInvalid => {
                let r = sim.c().rpc_tx().send_transaction(self.invalid.data().into());
                let mut t = self.track.borrow_mut();
                t.invalids += 1;
                if r.is_ok() {
                    t.pending.push(("invalid-transaction-accepted".into(), "outputs exceed inputs".into()));
                }
            }
            Ev::SubmitTwin => {
                let forged = twin(&self.txs[0], 0, 1);
                let est = sim.c().rpc_chain().estimate_cycles(forged.data().into());
                let r = sim.c().rpc_tx().send_transaction(forged.data().into());
                let mut t = self.track.borrow_mut();
                t.twins += 1;
                if r.is_ok() || est.is_ok() {
                    let pooled = t.pool.contains(&0);
                    t.pending.push(("invalid-transaction-accepted/twin".into(), format!("transaction 0 with a flipped signature byte (same hash): send_transaction ok = {}, estimate_cycles ok = {}, the valid transaction 0 is {} the pool", r.is_ok(), est.is_ok(), if pooled { "in" } else { "not in" })));
                }
            }
            Ev::RelayConnect(p) => {
                {
                    let mut t = self.track.borrow_mut();
                    t.connects += 1;
                    t.opened.insert(*p);
                    t.active.remove(p);
                    *t.sessions.entry(*p).or_insert(0) += 1;
                }
                let session = self.session_of(*p);
                sim.cm().relay_connect(PeerIndex::new(session));
            }
            Ev::RelayDisconnect(p) => {
                self.track.borrow_mut().opened.remove(p);
                self.track.borrow_mut().active.remove(p);
                let nc = crate::verif::net::as_nc(&sim.c().ctx_r);
                let c = sim.cm();
                use ckb_network::CKBProtocolHandler;
                let session = self.session_of(*p);
                c.rt.block_on(c.relay.disconnected(nc, PeerIndex::new(session)));
            }
            Ev::RelayTick => {
                self.track.borrow_mut().ticks += 1;
                sim.cm().tick_relay();
            }
            Ev::GetRelay(p) => {
                self.track.borrow_mut().gets += 1;
                let hashes: Vec<packed::Byte32> = self.txs.iter().map(|t| t.hash()).collect();
                let msg = packed::RelayMessage::new_builder()
                    .set(packed::GetRelayTransactions::new_builder().tx_hashes(hashes.pack()).build())
                    .build();
                let session = self.session_of(*p);
                sim.cm().recv_relay(PeerIndex::new(session), msg.as_bytes());
            }
        }
        self.observe(sim, ev);
    }

    fn check(&self, sim: &Sim, _hist: &[Ev]) -> Vec<(String, String)> {
        let mut bad: Vec<(String, String)> = self.track.borrow_mut().pending.drain(..).collect();
        let t = self.track.borrow();
        if t.pool.len() > LIMIT {
            bad.push(("reference-pool-over-limit".into(), String::new()));
        }
        for (i, tx) in self.txs.iter().enumerate() {
            let st = sim.c().rpc_tx().get_transaction(tx.hash().unpack()).expect("get_transaction").tx_status.status;
            let member = t.pool.contains(&i);
            if member && st != TxStatusKind::Pending {
                bad.push(("pool-member-not-pending".into(), format!("transaction {} should be in the pool (reference pool {:?}) but get_transaction does not report pending", i, t.pool)));
            }
            if member {
                // the pool serves the transaction as it was submitted, witnesses included
                let got = sim.c().rpc_tx().get_transaction(tx.hash().unpack()).expect("get_transaction").transaction.map(|t| t.inner.witnesses);
                let want: Vec<ckb_jsonrpc_types::JsonBytes> = tx.witnesses().into_iter().map(|w| ckb_jsonrpc_types::JsonBytes::from_bytes(w.raw_data())).collect();
                if got.as_ref() != Some(&want) {
                    bad.push(("pool-member-altered".into(), format!("transaction {} is served with witnesses {:?}", i, got)));
                }
            }
            if !member && st == TxStatusKind::Pending {
                bad.push(("pending-but-not-a-pool-member".into(), format!("transaction {} is reported pending but the reference pool is {:?} (limit {}, oldest evicted first)", i, t.pool, LIMIT)));
            }
        }
        let st = sim.c().rpc_tx().get_transaction(self.invalid.hash().unpack()).expect("get_transaction").tx_status.status;
        if st != TxStatusKind::Unknown {
            bad.push(("rejected-transaction-stored".into(), "the invalid transaction is known to get_transaction".into()));
        }
        bad
    }

    fn fingerprint(&self, sim: &Sim) -> [u8; 32] {
        let mut hasher = ckb_hash::new_blake2b();
        hasher.update(&sim.c().db_hash());
        let t = self.track.borrow();
        for i in &t.pool {
            hasher.update(&[*i as u8]);
        }
        hasher.update(&[0xff]);
        for p in &t.opened {
            hasher.update(&[*p as u8]);
        }
        hasher.update(&[0xfc]);
        for p in &t.active {
            hasher.update(&[*p as u8]);
        }
        hasher.update(&[0xfe]);
        for (i, p) in &t.announced {
            hasher.update(&[*i as u8, *p as u8]);
        }
        hasher.update(&[0xfd]);
        for (i, p) in &t.announced_since_push {
            hasher.update(&[*i as u8, *p as u8]);
        }
        hasher.update(&[t.submits as u8, t.invalids as u8, t.twins as u8, t.ticks as u8, t.gets as u8, t.connects as u8]);
        for (n, k) in &t.sessions {
            hasher.update(&[0xfb, *n as u8, *k as u8]);
        }
        let mut out = [0u8; 32];
        hasher.finalize(&mut out);
        out
    }
}

fn parse_ev(s: &str) -> Option<Ev> {
    let (name, a) = bfs::parse_call(s);
    Some(match name.as_str() {
        "Submit" => Ev::Submit(*a.first()? as usize),
        "SubmitInvalid" => Ev::SubmitInvalid,
        "SubmitTwin" => Ev::SubmitTwin,
        "RelayConnect" => Ev::RelayConnect(*a.first()? as usize),
        "RelayDisconnect" => Ev::RelayDisconnect(*a.first()? as usize),
        "RelayTick" => Ev::RelayTick,
        "GetRelay" => Ev::GetRelay(*a.first()? as usize),
        _ => return None,
    })
}

pub(crate) fn run(opts: &Opts, report: &mut Report) {
    let thorough = opts.thorough();
    // a recorded event list of the pool / relay search is replayed directly
    if let Some((_config, events)) = opts.replay.as_deref().and_then(bfs::read_replay) {
        let env = Env::dummy();
        let chain = build_chain(&env);
        let txs: Vec<TransactionView> = (0..5).map(|i| if i == 0 { valid_secp(&env, &chain, 0) } else { valid(&env, &chain, i) }).collect();
        let (op5, cap5) = cell(&chain, 5);
        let invalid = build_tx(&[env.scripts.always_dep.clone()], &[op5], &[OutSpec::lock(&env.scripts.b, cap5 + 1)], 999);
        let m = PoolModel { env: &env, chain, txs, invalid, track: RefCell::new(Track::default()) };
        let evs: Vec<Ev> = events.iter().filter_map(|e| parse_ev(e)).collect();
        let mut rep = |hist: &[Ev], class: String, detail: String| {
            report.violation(class, format!("after {:?}: {}", hist, detail), json!({"events": hist.iter().map(|e| format!("{:?}", e)).collect::<Vec<_>>(), "pool_limit": LIMIT}));
        };
        bfs::replay_one(&m, &evs, &mut rep);
        return;
    }
    const SHARDS: usize = 12;
    // the mutation cases are dealt to MUT items
    const MUT: usize = 4;
    // items 0..MUT: the mutation cases; items MUT..: the pool / relay search
    let n_items = MUT + SHARDS;
    let max_depth = if thorough { 5 } else { 4 };
    let worker = crate::verif::props::shard::run("C18", opts, report, n_items, 16, |item, report| {
        let env = Env::dummy();
        let chain = build_chain(&env);
        if item < MUT {
            let cases = mutation_cases(&env, &chain);
            let mut old: Option<Sim> = None;
            for (label, pre, tx, expect_ok) in cases.iter().enumerate().filter(|(i, _)| i % MUT == item).map(|(_, c)| c) {
                crate::verif::props::shard::journal(label);
                // a fresh client with proven peers for every case (on a recycled, already synced
                // store the peers could not be proven again before the chain grows, and the median
                // time of the tip is computed from the headers of the proven states)
                drop(old.take());
                let mut sim = new_sim(&env, &chain, None);
                let mut pre_ok = true;
                for p in pre {
                    if sim.c().rpc_tx().send_transaction(p.data().into()).is_err() {
                        pre_ok = false;
                    }
                }
                sim.pump_out();
                if !pre_ok {
                    report.violation(format!("valid-transaction-rejected/{}", label), format!("[{}] a valid preceding transaction was rejected", label), json!({"case": label}));
                }
                // a relay peer is listening, so that an accepted transaction would be announced
                sim.cm().relay_connect(PeerIndex::new(1));
                sim.pump_out();
                let o = submit(&mut sim, tx);
                if o.send.is_ok() {
                    sim.cm().tick_relay();
                } else {
                    // (a tick with an idle relay peer closes the protocol through the p2p service
                    // control, which the recording context cannot provide) a second relay peer
                    // connects instead: it is told every pool member
                    sim.cm().relay_connect(PeerIndex::new(2));
                }
                sim.pump_out();
                let announced = sim.sent_log.iter().any(|s| {
                    s.proto == Proto::Relay
                        && matches!(packed::RelayMessage::from_compatible_slice(&s.data).map(|m| m.to_enum()), Ok(packed::RelayMessageUnion::RelayTransactionHashes(m)) if m.tx_hashes().into_iter().any(|h| h == tx.hash()))
                });
                let mut bad: Vec<(String, String)> = vec![];
                let class = label.split('(').next().unwrap_or(label).to_owned();
                for (name, r) in [("send_transaction", o.send.as_ref().map(|_| ()).map_err(|e| e.clone())), ("estimate_cycles", o.estimate.as_ref().map(|_| ()).map_err(|e| e.clone()))] {
                    match (&r, expect_ok) {
                        (Ok(()), false) => bad.push((format!("invalid-transaction-accepted/{}", class), format!("{} accepts it", name))),
                        (Err(e), true) => bad.push((format!("valid-transaction-rejected/{}", class), format!("{} rejects it: {}", name, e))),
                        (Err(e), false) if e.starts_with("PANIC") => bad.push((format!("abort/{}", class), format!("{}: {}", name, e))),
                        _ => {}
                    }
                }
                if o.send.is_ok() != o.estimate.is_ok() {
                    bad.push((format!("estimate-and-send-disagree/{}", class), format!("send_transaction: {:?}, estimate_cycles: {:?}", o.send, o.estimate)));
                }
                if o.send.is_ok() {
                    if o.status != TxStatusKind::Pending {
                        bad.push((format!("accepted-but-not-pending/{}", class), String::new()));
                    }
                    if o.pool_cycles != o.estimate.clone().ok() {
                        bad.push((format!("cycles-differ/{}", class), format!("estimate_cycles {:?}, pool {:?}", o.estimate, o.pool_cycles)));
                    }
                    if !announced {
                        bad.push((format!("accepted-but-not-announced/{}", class), String::new()));
                    }
                } else if let Some(original) = pre.iter().rev().take(LIMIT).find(|p| p.hash() == tx.hash()) {
                    // a rejected twin (same hash, other witnesses) of a transaction that is still
                    // in the pool: the pool keeps the valid original, witnesses included
                    let got = sim.c().rpc_tx().get_transaction(tx.hash().unpack()).expect("get_transaction");
                    let ws: Option<Vec<ckb_jsonrpc_types::JsonBytes>> = got.transaction.map(|t| t.inner.witnesses);
                    let want: Vec<ckb_jsonrpc_types::JsonBytes> = original.witnesses().into_iter().map(|w| ckb_jsonrpc_types::JsonBytes::from_bytes(w.raw_data())).collect();
                    if o.status != TxStatusKind::Pending || ws.as_ref() != Some(&want) {
                        bad.push((format!("pending-transaction-replaced-by-a-rejected-twin/{}", class), format!("get_transaction reports {:?} with witnesses {:?}", o.status, ws)));
                    }
                    if o.relay_msgs > 0 {
                        bad.push((format!("rejected-transaction-relayed/{}", class), String::new()));
                    }
                } else {
                    if o.status != TxStatusKind::Unknown {
                        bad.push((format!("rejected-transaction-stored/{}", class), format!("get_transaction reports {:?}", o.status)));
                    }
                    if announced || o.relay_msgs > 0 {
                        bad.push((format!("rejected-transaction-relayed/{}", class), String::new()));
                    }
                }
                for (sig, d) in bad {
                    report.violation(sig, format!("[{}] {}", label, d), json!({"case": label, "transaction": format!("{}", tx.data()), "expected_valid": expect_ok}));
                }
                report.count("mutation_cases", 1);
                report.count(if *expect_ok { "mutation_cases_valid" } else { "mutation_cases_invalid" }, 1);
                old = Some(sim);
            }
            if item == 0 {
                report.sample(json!({"mutation_cases": cases.iter().map(|c| c.0.clone()).collect::<Vec<_>>()}));
            }
            return;
        }
        let shard = item - MUT;
        let txs: Vec<TransactionView> = (0..5).map(|i| if i == 0 { valid_secp(&env, &chain, 0) } else { valid(&env, &chain, i) }).collect();
        let (op5, cap5) = cell(&chain, 5);
        let invalid = build_tx(&[env.scripts.always_dep.clone()], &[op5], &[OutSpec::lock(&env.scripts.b, cap5 + 1)], 999);
        let m = PoolModel { env: &env, chain, txs, invalid, track: RefCell::new(Track::default()) };
        let mut st0 = bfs::Stats::default();
        let all_roots = bfs::roots(&m, 2, &mut st0);
        let mine: Vec<Vec<Ev>> = all_roots.iter().enumerate().filter(|(i, _)| i % SHARDS == shard).map(|(_, h)| h.clone()).collect();
        let shallow: Vec<Vec<Ev>> = if shard == 0 {
            let mut v = vec![vec![]];
            v.extend(bfs::roots(&m, 1, &mut st0));
            v
        } else {
            vec![]
        };
        let stats = {
            let mut rep = |hist: &[Ev], class: String, detail: String| {
                report.violation(class, format!("after {:?}: {}", hist, detail), json!({"events": hist.iter().map(|e| format!("{:?}", e)).collect::<Vec<_>>(), "pool_limit": LIMIT}));
            };
            bfs::search(&m, mine, shallow, max_depth, 200_000, &mut rep)
        };
        report.count("states", stats.states);
        report.count("transitions", stats.transitions);
        report.count("replays", stats.replays + st0.replays);
        report.count("events_applied", stats.applied_events);
        for (d, n) in stats.per_depth.iter().enumerate() {
            report.count(&format!("states_at_depth_{}", d), *n);
        }
        if stats.capped {
            report.cap(&format!("shard {}: state cap reached at depth {}", shard, stats.max_depth));
        }
    });
    if worker {
        return;
    }
    let t = report.get("transitions") + report.get("mutation_cases");
    report.set("evaluations", json!(t));
    report.set("distinct_nontrivial", json!(report.get("states") + report.get("mutation_cases")));
    report.set("traces_validated_against_impl", json!(report.get("replays") + report.get("mutation_cases")));
    report.set("rule", json!("(a) one case = one transaction (after its valid predecessors) through estimate_cycles and send_transaction on a synced client, verdict known by construction; (b) state = event list replayed on the real client against a reference pool (fingerprint: store + reference pool + opened peers + announcements + budgets); transitions = (state, enabled event) pairs executed"));
    report.set("bounds", json!({"pool_limit": LIMIT, "depth": max_depth, "budgets": "submit <= 5, invalid <= 1, forged twin of the secp-signed transaction 0 <= 1, relay tick <= 3, GetRelayTransactions <= 2, relay connect <= 3", "transactions": 5, "relay_peers": 2}));
    report.assume("always-success lock and type scripts; relay ticks only with an opened relay peer (the branch that re-opens the protocol needs the p2p service control); the 60 s Instant-based paths of relayer.rs are not reached");
}

#[allow(dead_code)]
pub(crate) fn debug_case() {
    let env = Env::dummy();
    let chain = build_chain(&env);
    let sim = new_sim(&env, &chain, None);
    println!("{}", &sim.c().peers.verif_dump(client::now())[..2000.min(sim.c().peers.verif_dump(client::now()).len())]);
    let swc = sim.c().swc();
    use ckb_traits::HeaderFieldsProvider;
    let mut h = chain.tip().hash();
    for i in 0..40 {
        match swc.get_header_fields(&h) {
            Some(f) => {
                println!("{} #{} ok", i, f.number);
                h = f.parent_hash;
            }
            None => {
                println!("{} missing header {:#x} (number {:?})", i, h, chain.number_of(&h));
                break;
            }
        }
    }
}
