//! Worker processes: faketime, the RNG shim and the hook slots are process-global, so the
//! top-level enumeration of a check is sharded over processes, not threads. The parent re-executes
//! itself once per item with VERIF_SHARD_ITEM set and merges the JSON each worker writes.

use std::io::{Seek, SeekFrom, Write};
use std::process::{Child, Command};
use std::sync::Mutex;

use serde_json::Value;

use crate::verif::props::Opts;
use crate::verif::report::Report;

pub(crate) fn child_item() -> Option<usize> {
    std::env::var("VERIF_SHARD_ITEM").ok()?.parse().ok()
}

static JOURNAL: Mutex<Option<std::fs::File>> = Mutex::new(None);

/// Records the case about to be executed, so that a worker that dies (abort, stack overflow,
/// allocation failure) can be attributed to its case.
pub(crate) fn journal(label: &str) {
    let mut j = JOURNAL.lock().unwrap();
    if j.is_none() {
        if let Ok(path) = std::env::var("VERIF_SHARD_JOURNAL") {
            *j = std::fs::File::create(path).ok();
        }
    }
    if let Some(f) = j.as_mut() {
        let _ = f.seek(SeekFrom::Start(0));
        let _ = f.write_all(label.as_bytes());
        let _ = f.write_all(b"\n\0\0\0\0\0\0\0\0\0\0\0\0\0\0\0\0");
    }
}

/// Runs `work(item, report)` for every item in `0..items`, each in its own process (at most
/// `procs` at a time). In a worker, runs only its item and returns `true` ("I am a worker: the
/// caller must return right away; the result was written for the parent").
pub(crate) fn run(
    id: &str,
    opts: &Opts,
    report: &mut Report,
    items: usize,
    procs: usize,
    mut work: impl FnMut(usize, &mut Report),
) -> bool {
    if let Some(item) = child_item() {
        work(item, report);
        let out = std::env::var("VERIF_SHARD_OUT").expect("VERIF_SHARD_OUT");
        std::fs::write(out, serde_json::to_string(&report.to_shard_json()).unwrap())
            .expect("write shard result");
        return true;
    }
    if items <= 1 || std::env::var("VERIF_NO_SHARD").is_ok() {
        for item in 0..items {
            work(item, report);
        }
        return false;
    }
    let exe = std::env::current_exe().expect("current exe");
    let tmp = crate::verif::client::tmp_root();
    let mut running: Vec<(usize, Child)> = vec![];
    let mut next = 0usize;
    let mut results: Vec<Option<Value>> = vec![None; items];
    let mut failed: Vec<(usize, String)> = vec![];
    loop {
        while running.len() < procs && next < items {
            let out = tmp.join(format!("shard-{}.json", next));
            let _ = std::fs::remove_file(&out);
            let mut cmd = Command::new(&exe);
            cmd.arg(id).arg(&opts.tier);
            cmd.env("VERIF_SHARD_ITEM", next.to_string())
                .env("VERIF_SHARD_OUT", &out)
                .env("VERIF_SHARD_JOURNAL", tmp.join(format!("shard-{}.journal", next)))
                .env("VERIF_TMP", tmp.join(format!("w{}", next)));
            let child = cmd.spawn().expect("spawn worker");
            running.push((next, child));
            next += 1;
        }
        if running.is_empty() {
            break;
        }
        let mut i = 0;
        let mut progressed = false;
        while i < running.len() {
            match running[i].1.try_wait() {
                Ok(Some(status)) => {
                    let (item, _) = running.remove(i);
                    progressed = true;
                    let out = tmp.join(format!("shard-{}.json", item));
                    match std::fs::read_to_string(&out)
                        .ok()
                        .and_then(|t| serde_json::from_str::<Value>(&t).ok())
                    {
                        Some(v) if status.success() => results[item] = Some(v),
                        _ => {
                            let journal = std::fs::read_to_string(
                                tmp.join(format!("shard-{}.journal", item)),
                            )
                            .unwrap_or_default();
                            let last = journal.split('\n').next().unwrap_or("").to_owned();
                            failed.push((item, format!("{} (last case: {})", status, last)));
                        }
                    }
                }
                Ok(None) => i += 1,
                Err(e) => {
                    let (item, _) = running.remove(i);
                    failed.push((item, format!("wait failed: {}", e)));
                }
            }
        }
        if !progressed {
            std::thread::sleep(std::time::Duration::from_millis(20));
        }
    }
    for v in results.iter().flatten() {
        report.merge_shard(v);
    }
    if !failed.is_empty() {
        for (item, why) in &failed {
            eprintln!("worker for item {} died: {}", item, why);
        }
        report.set("dead_workers", serde_json::json!(failed));
        DEAD.lock().unwrap().extend(failed);
    }
    false
}

/// For a worker that cannot return normally (OS threads of the code under test wait for each
/// other): writes `report` as the result of this worker and ends the process. Only in a worker.
pub(crate) fn write_result_and_exit(report: &Report) -> ! {
    match (child_item(), std::env::var("VERIF_SHARD_OUT")) {
        (Some(_), Ok(out)) => {
            std::fs::write(out, serde_json::to_string(&report.to_shard_json()).unwrap()).expect("write shard result");
            std::process::exit(0)
        }
        _ => {
            for v in &report.violations {
                eprintln!("{}: {}", v.signature, v.detail);
            }
            eprintln!("not in a worker process: cannot continue after a hang (run the check sharded)");
            std::process::exit(2)
        }
    }
}

/// Workers that died without a result; a check decides whether that is a verdict (C10: a
/// process abort caused by a message) or a machinery failure.
pub(crate) static DEAD: Mutex<Vec<(usize, String)>> = Mutex::new(Vec::new());
