//! C01 — trusted chain state changes only on a fully verified last-state proof.
//!
//! E-mut: in every scenario with an outstanding proof request (first proof from genesis, new
//! proof on the sampled path, short path, reorg path; on Eaglesong also a self-consistent chain
//! whose non-tip headers fail PoW) every single-site mutant of the honest `SendLastStateProof`
//! (byte windows at every offset, truncations, structural vector operators, each also re-sealed)
//! is delivered to the real handler; the trusted view (per-peer prove states, stored tip / total
//! difficulty / last-N headers, get_tip_header, get_header of every world header) must stay
//! byte-identical. The honest answer itself must be accepted (control), and every honest answer
//! of every other scenario, delivered in this state from a known or unknown peer, must not
//! change the view either.

use std::collections::BTreeMap;

use ckb_traits::HeaderProvider;
use ckb_types::prelude::*;
use serde_json::json;

use crate::verif::driver::{InFlight, Sim};
use crate::verif::mutate::{self, Mutant};
use crate::verif::net::Proto;
use crate::verif::props::c10::{self, build_with, Params, Scn, Worlds};
use crate::verif::props::sweep::{self, Ctx, Kind, Outcome, SweepOpts};
use crate::verif::props::Opts;
use crate::verif::report::{hex, Report};
use crate::verif::scen::{kind_of, Env};

pub(crate) fn trusted_view(sim: &Sim) -> String {
    let c = sim.c();
    let mut s = String::new();
    let mut states = c.peers.get_all_prove_states();
    states.sort_by_key(|(p, _)| p.value());
    for (p, ps) in states {
        s.push_str(&format!(
            "peer {} proved {:#x} td={:#x} reorg=[{}] lastn=[{}]\n",
            p,
            ps.get_last_header().header().hash(),
            ps.get_last_header().total_difficulty(),
            ps.get_reorg_last_headers()
                .iter()
                .map(|h| format!("{:#x}", h.hash()))
                .collect::<Vec<_>>()
                .join(","),
            ps.get_last_headers()
                .iter()
                .map(|h| format!("{:#x}", h.hash()))
                .collect::<Vec<_>>()
                .join(","),
        ));
    }
    let (td, tip) = c.storage.get_last_state();
    s.push_str(&format!("stored tip {:#x} td={:#x}\n", tip.calc_header_hash(), td));
    s.push_str(&format!(
        "stored last-n {:?}\n",
        c.storage
            .get_last_n_headers()
            .iter()
            .map(|(n, h)| format!("{}:{:#x}", n, h))
            .collect::<Vec<_>>()
    ));
    let swc = c.swc();
    let mut served = String::new();
    for (ci, chain) in sim.world.chains.iter().enumerate() {
        for b in &chain.blocks {
            if swc.get_header(&b.hash()).is_some() {
                served.push_str(&format!("{}:{} ", ci, b.number()));
            }
        }
    }
    s.push_str(&format!("get_header serves: {}\n", served));
    s
}

fn mutant_class(ctx: &Ctx) -> String {
    let resealed = ctx.label.ends_with("+resealed");
    let base = ctx.label.trim_end_matches("+resealed");
    let class = if let Some((off, w)) = sweep::window_of(base) {
        let map = ctx
            .honest
            .map(|h| sweep::field_map(ctx.proto, h))
            .unwrap_or_default();
        format!("window/w={}/{}", w, sweep::fields_hit(&map, off, w))
    } else if base.starts_with("truncate") {
        "truncate".to_owned()
    } else if base.starts_with("append") {
        "append".to_owned()
    } else if base.starts_with("flip") {
        let off: usize = base
            .trim_start_matches("flip(off=")
            .split(',')
            .next()
            .and_then(|x| x.parse().ok())
            .unwrap_or(0);
        let map = ctx
            .honest
            .map(|h| sweep::field_map(ctx.proto, h))
            .unwrap_or_default();
        format!("flip/{}", sweep::fields_hit(&map, off, 1))
    } else {
        base.split('#').next().unwrap_or(base).to_owned()
    };
    if resealed {
        format!("{}+resealed", class)
    } else {
        class
    }
}

/// Structure-aware operators specific to the proof message: substitute a header by the fork twin
/// of equal number / by the header of another height, shift section borders.
fn proof_mutants(w: &Worlds, home: &InFlight) -> Vec<Mutant> {
    use ckb_types::packed;
    let mut out = vec![];
    if home.proto != Proto::LightClient {
        return out;
    }
    let msg = match packed::LightClientMessage::from_slice(&home.data) {
        Ok(m) => m,
        Err(_) => return out,
    };
    let m = match msg.to_enum() {
        packed::LightClientMessageUnion::SendLastStateProof(m) => m,
        _ => return out,
    };
    let wrap = |m: packed::SendLastStateProof| {
        packed::LightClientMessage::new_builder().set(m).build().as_bytes()
    };
    let headers: Vec<packed::VerifiableHeader> = m.headers().into_iter().collect();
    let last_hash = m.last_header().header().calc_header_hash();
    // which world chain does this answer come from?
    let chains = [&w.main, &w.fork, &w.unmined];
    let home_chain = chains.iter().position(|c| c.number_of(&last_hash).is_some());
    for (i, h) in headers.iter().enumerate() {
        let n: u64 = h.header().raw().number().unpack();
        // twin of equal number from every other chain that has a different block there
        for (ci, chain) in chains.iter().enumerate() {
            if Some(ci) == home_chain || n > chain.tip_number() {
                continue;
            }
            let twin = chain.vh(n);
            if twin.as_slice() == h.as_slice() {
                continue;
            }
            let mut v = headers.clone();
            v[i] = twin;
            out.push(Mutant {
                label: format!("headers[*]:=twin-of-chain{}", ci),
                data: wrap(m.clone().as_builder().headers(v.pack()).build()),
            });
        }
        // header of the neighbouring height from the same chain
        if let Some(ci) = home_chain {
            for delta in [-1i64, 1] {
                let other = n as i64 + delta;
                if other >= 0 && (other as u64) <= chains[ci].tip_number() {
                    let mut v = headers.clone();
                    v[i] = chains[ci].vh(other as u64);
                    out.push(Mutant {
                        label: format!("headers[*]:=height{:+}", delta),
                        data: wrap(m.clone().as_builder().headers(v.pack()).build()),
                    });
                }
            }
            // insert an extra honest header (section borders shift by one)
            let before = n.saturating_sub(1);
            if !headers
                .iter()
                .any(|x| Unpack::<u64>::unpack(&x.header().raw().number()) == before)
            {
                let mut v = headers.clone();
                v.insert(i, chains[ci].vh(before));
                out.push(Mutant {
                    label: "headers:insert-honest-predecessor".to_owned(),
                    data: wrap(m.clone().as_builder().headers(v.pack()).build()),
                });
            }
        }
    }
    // consistent re-selections: another set of real headers of the same chain, with a VALID MMR
    // proof for exactly that set (what a lying but well-equipped server can always produce):
    // one number dropped, one added, one replaced by any other number of the covered range,
    // one duplicated
    if let Some(ci) = home_chain {
        let chain = chains[ci];
        let last: u64 = m.last_header().header().raw().number().unpack();
        let nums: Vec<u64> = headers.iter().map(|h| h.header().raw().number().unpack()).collect();
        let build = |sel: &[u64]| {
            let mut uniq = sel.to_vec();
            uniq.sort_unstable();
            uniq.dedup();
            let hs: Vec<packed::VerifiableHeader> = sel.iter().map(|n| chain.vh(*n)).collect();
            wrap(
                m.clone()
                    .as_builder()
                    .headers(hs.pack())
                    .proof(chain.proof(last, &uniq))
                    .build(),
            )
        };
        if !nums.is_empty() && last <= chain.tip_number() && nums.iter().all(|n| *n < last) {
            let lo = nums[0].saturating_sub(2);
            for i in 0..nums.len() {
                let mut sel = nums.clone();
                sel.remove(i);
                out.push(Mutant { label: format!("reselect:drop-one(valid-proof)#{:?} from {:?}", sel, nums), data: build(&sel) });
                let mut sel = nums.clone();
                sel.insert(i, nums[i]);
                out.push(Mutant { label: format!("reselect:duplicate-one(valid-proof)#{:?} from {:?}", sel, nums), data: build(&sel) });
                for x in lo..last {
                    if nums.contains(&x) {
                        continue;
                    }
                    let mut sel = nums.clone();
                    sel.remove(i);
                    sel.push(x);
                    sel.sort_unstable();
                    out.push(Mutant { label: format!("reselect:replace-one(valid-proof)#{:?} from {:?}", sel, nums), data: build(&sel) });
                }
            }
            for x in lo..last {
                if nums.contains(&x) {
                    continue;
                }
                let mut sel = nums.clone();
                sel.push(x);
                sel.sort_unstable();
                out.push(Mutant { label: format!("reselect:add-one(valid-proof)#{:?} from {:?}", sel, nums), data: build(&sel) });
            }
            // whole tails / heads dropped: only the first k / only the last k headers
            for k in 1..nums.len() {
                let sel = nums[..k].to_vec();
                out.push(Mutant { label: format!("reselect:prefix-only(valid-proof)#{:?} from {:?}", sel, nums), data: build(&sel) });
                let sel = nums[k..].to_vec();
                out.push(Mutant { label: format!("reselect:suffix-only(valid-proof)#{:?} from {:?}", sel, nums), data: build(&sel) });
            }
            // every section shifted down by one block
            if nums[0] > 0 {
                let sel: Vec<u64> = nums.iter().map(|n| n - 1).collect();
                out.push(Mutant { label: format!("reselect:all-shifted-down(valid-proof)#{:?} from {:?}", sel, nums), data: build(&sel) });
            }
        }
    }
    // the whole answer taken from another chain of the world (same numbers, that chain's headers
    // and its valid MMR proof), under the EXACT requested last header whose chain root (and
    // optionally extension) was replaced by the other chain's
    if let Some(hc) = home_chain {
        let last: u64 = m.last_header().header().raw().number().unpack();
        let nums: Vec<u64> = headers.iter().map(|h| h.header().raw().number().unpack()).collect();
        for (ci, chain) in chains.iter().enumerate() {
            if ci == hc || last > chain.tip_number() || last == 0 || nums.iter().any(|n| *n >= last) {
                continue;
            }
            let mut uniq = nums.clone();
            uniq.sort_unstable();
            uniq.dedup();
            let hs: Vec<packed::VerifiableHeader> = nums.iter().map(|n| chain.vh(*n)).collect();
            let foreign = chain.vh(last);
            for with_ext in [false, true] {
                let mut lh = m.last_header().as_builder().parent_chain_root(foreign.parent_chain_root());
                if with_ext {
                    lh = lh.extension(foreign.extension());
                }
                let data = wrap(m.clone().as_builder().last_header(lh.build()).headers(hs.clone().pack()).proof(chain.proof(last, &uniq)).build());
                if data.as_ref() == home.data.as_ref() {
                    continue;
                }
                out.push(Mutant { label: format!("foreign-chain{}-under-requested-last-header{}", ci, if with_ext { "+extension" } else { "" }), data });
            }
        }
    }
    // remove every single header / proof item
    for i in 0..headers.len() {
        let mut v = headers.clone();
        v.remove(i);
        out.push(Mutant {
            label: "headers:drop-one".to_owned(),
            data: wrap(m.clone().as_builder().headers(v.pack()).build()),
        });
    }
    let proof: Vec<packed::HeaderDigest> = m.proof().into_iter().collect();
    for i in 0..proof.len() {
        let mut v = proof.clone();
        v.remove(i);
        out.push(Mutant {
            label: "proof:drop-one".to_owned(),
            data: wrap(m.clone().as_builder().proof(v.pack()).build()),
        });
        let mut v = proof.clone();
        v.insert(i, proof[i].clone());
        out.push(Mutant {
            label: "proof:duplicate-one".to_owned(),
            data: wrap(m.clone().as_builder().proof(v.pack()).build()),
        });
        if i + 1 < proof.len() {
            let mut v = proof.clone();
            v.swap(i, i + 1);
            out.push(Mutant {
                label: "proof:swap-neighbours".to_owned(),
                data: wrap(m.clone().as_builder().proof(v.pack()).build()),
            });
        }
    }
    out
}

/// A server decides itself whether an answer carries a reorg section (the last-N headers before
/// the start number: it sends them when the start block is not on its chain); the client cannot
/// tell which is right without a proof for the start block, which the protocol does not carry.
/// So a selection that differs from the honest one only by the *complete* reorg section being
/// there or not is another well-shaped answer, not an altered one. (Only with last-N = 1, or a
/// start number of 1, is this a single-site change.)
fn legal_alternative(honest: &[u64], sel: &[u64], start: u64, last_n: u64) -> bool {
    let above = |v: &[u64]| v.iter().filter(|n| **n >= start).cloned().collect::<Vec<u64>>();
    if above(honest) != above(sel) {
        return false;
    }
    let below: Vec<u64> = sel.iter().filter(|n| **n < start).cloned().collect();
    let full: Vec<u64> = (start.saturating_sub(last_n.min(start))..start).collect();
    below.is_empty() || below == full
}

fn parse_nums(s: &str) -> Vec<u64> {
    s.trim().trim_start_matches('[').trim_end_matches(']').split(',').filter_map(|x| x.trim().parse().ok()).collect()
}

/// Selections that differ from `nums` in one place (all with a valid proof later): one number
/// dropped, added, replaced by any other number of `lo..last`, duplicated.
fn reselections(nums: &[u64], lo: u64, last: u64) -> Vec<(&'static str, Vec<u64>)> {
    let mut out = vec![];
    for i in 0..nums.len() {
        let mut sel = nums.to_vec();
        sel.remove(i);
        out.push(("drop-one", sel));
        let mut sel = nums.to_vec();
        sel.insert(i, nums[i]);
        out.push(("duplicate-one", sel));
        for x in lo..last {
            if nums.contains(&x) {
                continue;
            }
            let mut sel = nums.to_vec();
            sel.remove(i);
            sel.push(x);
            sel.sort_unstable();
            out.push(("replace-one", sel));
        }
    }
    for x in lo..last {
        if nums.contains(&x) {
            continue;
        }
        let mut sel = nums.to_vec();
        sel.push(x);
        sel.sort_unstable();
        out.push(("add-one", sel));
    }
    // whole tails / heads dropped (a section or several complete sections are missing, e.g. only
    // the reorg headers, or everything but the last-N headers)
    for k in 1..nums.len() {
        out.push(("prefix-only", nums[..k].to_vec()));
        out.push(("suffix-only", nums[k..].to_vec()));
    }
    out
}

/// Request grid: the shape check of a proof depends on the request (start, boundary, sampled
/// difficulties); the requests the client builds itself almost never put the boundary or a
/// sample exactly on a block's total difficulty. Here the outstanding request of a real peer
/// state is replaced by every request of a small grid (boundary = a block's total difficulty
/// -1 / +0 / +1 for every block between start and last; 0..2 sampled difficulties on / just below
/// block totals), the honest answer (the unique selection of the honest-server model, with its
/// MMR proof) must be accepted, and every selection that differs from it in one header (with a
/// valid MMR proof for exactly that selection) must leave the trusted view unchanged.
pub(crate) fn request_grid(env: &Env, report: &mut Report, constant_difficulty: bool, last_n: u64, slice: (usize, usize), thorough: bool, honest_only: bool) {
    use crate::protocols::light_client::{LastState, ProveRequest};
    use crate::verif::client::ClientCfg;
    use crate::verif::driver::World;
    use crate::verif::world::{Chain, EpochPlan, View};
    use ckb_network::PeerIndex;
    use ckb_types::{packed, U256};
    let plan = if constant_difficulty { EpochPlan::constant(1000, crate::verif::world::compact_of(16)) } else { crate::verif::scen::wavy_plan(4) };
    let mut chain = Chain::new(std::sync::Arc::clone(&env.consensus), plan);
    crate::verif::scen::extend_chain(&mut chain, &env.scripts, 14, &[]);
    let cfg = ClientCfg { last_n, max_outbound: 1, cp_interval: 4, ..Default::default() };
    let name = format!("{}/lastN{}", if constant_difficulty { "constant" } else { "wavy" }, last_n);
    let mut case_no = 0usize;
    let mut sim_opt: Option<Sim> = None;
    for start in [0u64, 4] {
        let lasts: Vec<u64> = [start + last_n + 1, start + last_n + 2, start + last_n + 4, 13].into_iter().filter(|l| *l <= 13).collect::<std::collections::BTreeSet<_>>().into_iter().collect();
        for last in lasts {
            // requests
            let td = |n: u64| chain.tds[n as usize].clone();
            let one = U256::one();
            let mut boundaries: Vec<U256> = vec![];
            for b in (start + 1)..last {
                for v in [td(b) - &one, td(b), td(b) + &one] {
                    if v >= td(start) && v <= td(last) && !boundaries.contains(&v) {
                        boundaries.push(v);
                    }
                }
            }
            let mut sample_sets: Vec<Vec<U256>> = vec![vec![]];
            let cands: Vec<U256> = ((start + 1)..last).flat_map(|b| vec![td(b) - &one, td(b)]).collect();
            for (i, c) in cands.iter().enumerate() {
                sample_sets.push(vec![c.clone()]);
                if thorough || i % 3 == 0 {
                    for c2 in cands.iter().skip(i + 1).step_by(if thorough { 1 } else { 3 }) {
                        sample_sets.push(vec![c.clone(), c2.clone()]);
                    }
                }
            }
            // three difficulties: an earlier one + two neighbours (a block's total and a value
            // strictly inside the next block) - dropping the sample of the middle one leaves a
            // sampled section behind AND an unanswered difficulty that is only reached inside the
            // first last-N block
            for i in 1..cands.len().saturating_sub(1) {
                let js: Vec<usize> = if thorough { (0..i).collect() } else { vec![0, i.saturating_sub(2)] };
                for j in js {
                    if j >= i {
                        continue;
                    }
                    for k in if thorough { vec![i + 1, i + 2] } else { vec![i + 1] } {
                        if k < cands.len() {
                            let set = vec![cands[j].clone(), cands[i].clone(), cands[k].clone()];
                            if !sample_sets.contains(&set) {
                                sample_sets.push(set);
                            }
                        }
                    }
                }
            }
            for boundary in &boundaries {
                let mut seen_sets: Vec<Vec<U256>> = vec![];
                for samples in &sample_sets {
                    let samples: Vec<U256> = samples.iter().filter(|d| *d > &td(start) && *d < boundary).cloned().collect();
                    if seen_sets.contains(&samples) {
                        continue;
                    }
                    seen_sets.push(samples.clone());
                    case_no += 1;
                    if case_no % slice.1 != slice.0 {
                        continue;
                    }
                    let content = packed::GetLastStateProof::new_builder()
                        .last_hash(chain.blocks[last as usize].hash())
                        .start_hash(chain.blocks[start as usize].hash())
                        .start_number(start.pack())
                        .last_n_blocks(last_n.pack())
                        .difficulty_boundary(boundary.pack())
                        .difficulties(samples.iter().map(|d| d.pack()).pack())
                        .build();
                    let view = View::new(&chain, last);
                    let (_, reorg, sampled, last_ns) = match view.last_state_proof_numbers(&content) {
                        Some(x) => x,
                        None => continue,
                    };
                    let honest: Vec<u64> = reorg.into_iter().chain(sampled).chain(last_ns).collect();
                    let label = format!("[{} start {} last {} boundary {:#x} samples {:?}]", name, start, last, boundary, samples.iter().map(|d| format!("{:#x}", d)).collect::<Vec<_>>());
                    // (re)build the receiver state: peer proven at `start` (if > 0), last state `last`,
                    // outstanding request := the grid request
                    let mut build = |old: Option<Sim>| -> Option<Sim> {
                        let mut world = World::new(vec![chain.clone()], cfg.cp_interval);
                        world.add_peer(1, 0, if start > 0 { start } else { last });
                        crate::verif::client::set_now(crate::verif::world::BASE_TS + 1_000_000);
                        let mut sim = match old {
                            Some(o) => Sim::recycle(o, cfg.clone(), world),
                            None => crate::verif::scen::new_sim(env, cfg.clone(), world),
                        };
                        crate::verif_hooks::rng_reset(1);
                        if start > 0 {
                            if !crate::verif::scen::prove_peer(&mut sim, 1) {
                                return None;
                            }
                            sim.queue.clear();
                            sim.world.peer_mut(1).height = last;
                            let m = sim.world.view(1).send_last_state();
                            sim.deliver_msg(crate::verif::driver::InFlight { proto: Proto::LightClient, peer: 1, data: m.as_bytes(), note: "SendLastState".into() });
                        } else {
                            sim.connect(1);
                            // only the SendLastState answer is delivered
                            if let Some(i) = sim.queue.iter().position(|m| kind_of(m) == "SendLastState") {
                                sim.deliver(i);
                            }
                        }
                        sim.queue.clear();
                        let last_vh: ckb_types::utilities::merkle_mountain_range::VerifiableHeader = chain.vh(last).into();
                        let req = ProveRequest::new(LastState::new(last_vh), content.clone());
                        if sim.c().peers.update_prove_request(PeerIndex::new(1), req).is_err() {
                            return None;
                        }
                        let _ = sim.c().out.take_sent();
                        Some(sim)
                    };
                    let mut cur = build(sim_opt.take());
                    if cur.is_none() {
                        report.count("request_grid/state_not_reached", 1);
                        continue;
                    }
                    report.count("request_grid/requests", 1);
                    let mut before = trusted_view(cur.as_ref().unwrap());
                    // mutants first (they must not change anything, so the state is reused)
                    let lo = start.saturating_sub(last_n + 1).max(if start == 0 { 0 } else { 1 });
                    for (class, sel) in reselections(&honest, lo, last) {
                        if honest_only || sel == honest || sel.is_empty() {
                            continue;
                        }
                        let mut uniq = sel.clone();
                        uniq.sort_unstable();
                        uniq.dedup();
                        let hs: Vec<packed::VerifiableHeader> = sel.iter().map(|n| chain.vh(*n)).collect();
                        let content_msg = packed::SendLastStateProof::new_builder()
                            .last_header(chain.vh(last))
                            .proof(chain.proof(last, &uniq))
                            .headers(hs.pack())
                            .build();
                        let msg = packed::LightClientMessage::new_builder().set(content_msg).build();
                        report.count("request_grid/mutants", 1);
                        let r = {
                            let sim = cur.as_mut().unwrap();
                            let r = crate::verif::props::panics::catch(|| sim.cm().recv_lc(PeerIndex::new(1), msg.as_bytes()));
                            let _ = sim.c().out.take_sent();
                            let _ = sim.c().out.take_bans();
                            r
                        };
                        let mut rebuilt = false;
                        match r {
                            Err(p) => {
                                if !p.msg.contains("long fork detected") {
                                    report.violation(format!("abort/{}", p.site()), format!("{} {} {:?}", p.describe(), label, sel), json!({"grid": label, "selection": sel}));
                                }
                                cur = build(None);
                                rebuilt = true;
                            }
                            Ok(()) => {
                                let after = trusted_view(cur.as_ref().unwrap());
                                if after != before && legal_alternative(&honest, &sel, start, last_n) {
                                    report.count("request_grid/accepted_alternative_answers(reorg section present or not)", 1);
                                    cur = build(cur.take());
                                    rebuilt = true;
                                } else if after != before {
                                    report.violation(
                                        format!("request-grid/mutant-changed-trusted-state/reselect:{}(valid-proof)", class),
                                        format!("{} honest selection {:?}, accepted selection {:?} (valid MMR proof)", label, honest, sel),
                                        json!({"grid": label, "honest": honest, "selection": sel, "view_before": before, "view_after": after}),
                                    );
                                    cur = build(cur.take());
                                    rebuilt = true;
                                }
                            }
                        }
                        if rebuilt {
                            match cur.as_ref() {
                                Some(s) => before = trusted_view(s),
                                None => break,
                            }
                        }
                    }
                    let mut sim = match cur {
                        Some(s) => s,
                        None => continue,
                    };
                    // the honest answer itself
                    let msg = view.build_last_state_proof(last, &honest);
                    let r = crate::verif::props::panics::catch(|| sim.cm().recv_lc(PeerIndex::new(1), msg.as_bytes()));
                    let bans = sim.c().out.take_bans();
                    let _ = sim.c().out.take_sent();
                    match r {
                        Err(p) => {
                            if !p.msg.contains("long fork detected") {
                                report.violation(format!("abort/{}", p.site()), format!("{} {} honest", p.describe(), label), json!({"grid": label}));
                            }
                            sim_opt = None;
                            continue;
                        }
                        Ok(()) => {
                            if trusted_view(&sim) != before {
                                report.count("request_grid/honest_accepted", 1);
                            } else if !bans.is_empty() {
                                report.count("request_grid/honest_rejected", 1);
                                let why = bans[0].1.split(':').next().unwrap_or("").to_owned();
                                report.count(&format!("request_grid/honest_rejected/{}", why), 1);
                                // (judged under C05 only; the zero-sample rejection is its known finding)
                                if honest_only {
                                    let zero_sample = bans[0].1.contains("since no sampled blocks");
                                    report.violation(
                                        if zero_sample { "honest-peer-banned/MalformedProtocolMessage(400)/request-grid-zero-sample/".to_owned() } else { format!("honest-peer-banned/{}/request-grid/", why) },
                                        format!("{} honest selection {:?} rejected: {}", label, honest, bans[0].1),
                                        json!({"grid": label, "honest": honest, "reason": bans[0].1}),
                                    );
                                }
                            } else {
                                report.count("request_grid/honest_recheck_round", 1);
                            }
                        }
                    }
                    sim_opt = Some(sim);
                }
            }
        }
    }
}

/// The proof-less shortcut: a proven peer announces the direct child of its proved header. The
/// child is trusted on its chain root agreeing with the proven parent (total difficulty, end
/// number). Every forged child (a PoW-valid header that extends the proved header and commits to
/// a chain root with an altered difficulty / number) must leave the trusted view untouched; the
/// honest child must be accepted.
fn child_pass(env: &Env, report: &mut Report, spec: &str, params: &Params) {
    use ckb_types::{core::EpochNumberWithFraction, packed, U256};
    let w = c10::worlds_with(env, params);
    let mut old: Option<Sim> = None;
    // (label, total difficulty delta, end number delta); None = the honest child
    let variants: Vec<(&str, Option<(i8, i8)>)> = vec![
        ("honest", None),
        ("td+1", Some((1, 0))),
        ("td-1", Some((-1, 0))),
        ("td=2^100", Some((100, 0))),
        ("end+1", Some((0, 1))),
        ("end-1", Some((0, -1))),
        ("td+1,end+1", Some((1, 1))),
        ("td-1,end-1", Some((-1, -1))),
    ];
    for (label, v) in variants {
        let (mut sim, _) = match c10::try_build_with(env, &w, params, Scn::Ready, old.take()) {
            Ok(r) => r,
            Err(s) => {
                old = Some(s);
                continue;
            }
        };
        let n = params.h1;
        let chain = &w.main;
        let parent_hash = chain.blocks[n as usize].hash();
        let vh = match v {
            None => chain.vh(n + 1),
            Some((dtd, dend)) => {
                let true_td: U256 = chain.tds[n as usize].clone();
                let td = match dtd {
                    1 => true_td.clone() + U256::one(),
                    -1 => true_td.clone() - U256::one(),
                    100 => U256::one() << 100,
                    _ => true_td.clone(),
                };
                let end = (n as i64 + dend as i64) as u64;
                let root = chain.roots[n as usize].clone().as_builder().total_difficulty(td.pack()).end_number(end.pack()).build();
                let (e, i, l, compact) = chain.plan.locate(n + 1);
                crate::verif::world::seal_vh(&env.consensus, n + 1, root, compact, EpochNumberWithFraction::new(e, i, l), crate::verif::world::BASE_TS + (n + 1) * 10 + 3, parent_hash.clone())
            }
        };
        let msg = packed::LightClientMessage::new_builder().set(packed::SendLastState::new_builder().last_header(vh).build()).build();
        let before = trusted_view(&sim);
        let r = crate::verif::props::panics::catch(|| {
            sim.deliver_msg(InFlight { proto: Proto::LightClient, peer: 1, data: msg.as_bytes(), note: format!("SendLastState(child, {})", label) });
        });
        report.count("transitions", 1);
        report.count("child_shortcut/deliveries", 1);
        if let Err(p) = r {
            report.violation(format!("abort/{}", p.site()), format!("{} [child shortcut, {}]", p.describe(), label), json!({"scenario": "child-shortcut", "spec": spec, "variant": label}));
            continue;
        }
        let after = trusted_view(&sim);
        if v.is_none() {
            if after == before {
                report.violation("child-shortcut/honest-child-not-accepted".to_owned(), format!("the honest child of the proved header was not accepted: {:?}", sim.bans()), json!({"scenario": "child-shortcut", "spec": spec}));
            } else {
                report.count("child_shortcut/honest_accepted", 1);
            }
        } else if after != before {
            report.violation(
                format!("mutant-changed-trusted-state/child-shortcut/{}", label),
                format!("a child of the proved header whose chain root was altered ({}) was accepted without a proof: trusted view changed", label),
                json!({"scenario": "child-shortcut", "spec": spec, "params": format!("{:?}", params), "variant": label, "message_hex": hex(&msg.as_bytes()), "view_before": before, "view_after": after}),
            );
        } else {
            report.count("child_shortcut/forged_rejected", 1);
        }
        old = Some(sim);
    }
}

/// Partially mined twins (meaningful on Eaglesong): the peer, proven on the main chain, moves to
/// a self-consistent chain (own MMR, chain roots, parent hashes) in which exactly one SECTION of
/// the proof it will send consists of headers that fail PoW - the reorg section, the sampled
/// section, or the last-N section (sampled and short path) - while the announced tip and every
/// other header are mined. No single-site mutant gets there: altering a nonce changes the hash
/// and breaks the continuity checks first. The answer must leave the trusted view untouched; the
/// fully mined twin of the same shape must be accepted (control).
fn partial_pow_pass(env: &Env, report: &mut Report, spec: &str, params: &Params) {
    use crate::verif::driver::World;
    use crate::verif::scen::{self, advance_until};
    let main = scen::std_chain(env, params.main_len, params.epoch_len);
    let h1 = params.h1;
    let n = params.last_n;
    // (label, fork point, tip, unmined block range)
    let shapes: Vec<(&str, u64, u64, (u64, u64))> = vec![
        // fork within last-N: the reorg section [h1-n, h1) has its blocks after the fork point unmined
        ("reorg-section", h1 - n, h1 + n + 6, (h1 - n + 1, h1 - 1)),
        // sampled path: everything between the proven header and the last-N section unmined
        ("sampled-section", h1, h1 + n + 10, (h1 + 1, h1 + 9)),
        // sampled path: the last-N section (but the tip) unmined
        ("last-n-section/sampled-path", h1, h1 + n + 10, (h1 + 10, h1 + n + 9)),
        // short path (no samples): the blocks between the proven header and the tip unmined
        ("last-n-section/short-path", h1, h1 + n, (h1 + 1, h1 + n - 1)),
    ];
    let mut old: Option<Sim> = None;
    for (label, fork_at, tip, (u0, u1)) in shapes {
        for mined_control in [true, false] {
            let mut twin = main.fork(fork_at, 7171);
            for b in (fork_at + 1)..=tip {
                twin.mine = mined_control || b < u0 || b > u1;
                scen::extend_chain(&mut twin, &env.scripts, b, &[]);
            }
            twin.mine = true;
            let mut world = World::new(vec![main.clone(), twin], 4);
            world.add_peer(1, 0, h1);
            let cfg = crate::verif::client::ClientCfg { last_n: n, mmr_activated_epoch: params.mmr_epoch, ..scen::default_cfg() };
            crate::verif::client::set_now(crate::verif::world::BASE_TS + 1_000_000);
            let mut sim = match old.take() {
                Some(o) => Sim::recycle(o, cfg, world),
                None => scen::new_sim(env, cfg, world),
            };
            crate::verif_hooks::rng_reset(params.seed);
            if !scen::prove_peer(&mut sim, 1) {
                report.violation("harness/partial-pow/peer-not-proven".to_owned(), format!("[{}] the peer could not be proven on the main chain", label), json!({"spec": spec}));
                old = Some(sim);
                continue;
            }
            sim.queue.clear();
            sim.set_view(1, 1, tip, true);
            sim.deliver(0);
            sim.cm().tick_lc(0);
            sim.pump_out();
            if !advance_until(&mut sim, |m| kind_of(m) == "SendLastStateProof", 0, 10) {
                // (the announcement itself was refused: nothing to decide)
                report.count("partial_pow/no_proof_requested", 1);
                old = Some(sim);
                continue;
            }
            let before = trusted_view(&sim);
            let r = crate::verif::props::panics::catch(|| sim.deliver(0));
            report.count("transitions", 1);
            report.count("partial_pow/deliveries", 1);
            if let Err(p) = r {
                if !p.msg.contains("long fork detected") {
                    report.violation(format!("abort/{}", p.site()), format!("{} [partial PoW, {}]", p.describe(), label), json!({"scenario": "partial-pow", "spec": spec, "shape": label}));
                }
                continue;
            }
            let after = trusted_view(&sim);
            if mined_control {
                if after == before {
                    report.violation(
                        format!("partial-pow/control-not-accepted/{}", label),
                        format!("the fully mined twin ({}) was not accepted: the pass would be vacuous ({:?})", label, sim.bans()),
                        json!({"scenario": "partial-pow", "spec": spec, "shape": label}),
                    );
                } else {
                    report.count("partial_pow/controls_accepted", 1);
                }
            } else if after != before {
                report.violation(
                    format!("mutant-changed-trusted-state/partial-pow/{}", label),
                    format!("a self-consistent proof whose {} consists of headers that fail PoW (blocks {}..={}) was accepted: trusted view changed", label, u0, u1),
                    json!({"scenario": "partial-pow", "spec": spec, "params": format!("{:?}", params), "shape": label, "unmined_blocks": [u0, u1], "view_before": before, "view_after": after}),
                );
            } else {
                report.count("partial_pow/forged_rejected", 1);
            }
            old = Some(sim);
        }
    }
    // ---- a last header that enters through a proof RESPONSE ("my tip changed": new last header,
    // empty proof) instead of a SendLastState announcement: the peer announces an honest block of
    // the main chain, silently moves to a twin chain whose TIP fails PoW (everything else mined)
    // and answers the proof request for the announced block with its new tip; the client then asks
    // for the proof of that tip and gets an honest one (all proof headers are mined).
    for mined_control in [true, false] {
        let tip = h1 + n + 6;
        let mut twin = main.fork(h1, 7272);
        for b in (h1 + 1)..=tip {
            twin.mine = mined_control || b != tip;
            scen::extend_chain(&mut twin, &env.scripts, b, &[]);
        }
        twin.mine = true;
        let mut world = World::new(vec![main.clone(), twin], 4);
        world.add_peer(1, 0, h1);
        let cfg = crate::verif::client::ClientCfg { last_n: n, mmr_activated_epoch: params.mmr_epoch, ..scen::default_cfg() };
        crate::verif::client::set_now(crate::verif::world::BASE_TS + 1_000_000);
        let mut sim = match old.take() {
            Some(o) => Sim::recycle(o, cfg, world),
            None => scen::new_sim(env, cfg, world),
        };
        crate::verif_hooks::rng_reset(params.seed);
        if !scen::prove_peer(&mut sim, 1) {
            old = Some(sim);
            continue;
        }
        sim.queue.clear();
        let before = trusted_view(&sim);
        let r = crate::verif::props::panics::catch(|| {
            sim.set_view(1, 0, h1 + 4, true);
            sim.deliver(0);
            sim.set_view(1, 1, tip, false);
            sim.cm().tick_lc(0);
            sim.pump_out();
            // the new-tip answer, then (if the client went along) the proof of the new tip
            for _ in 0..2 {
                if advance_until(&mut sim, |m| kind_of(m) == "SendLastStateProof", 0, 10) {
                    sim.deliver(0);
                    sim.cm().tick_lc(0);
                    sim.pump_out();
                }
            }
        });
        report.count("transitions", 1);
        report.count("partial_pow/deliveries", 1);
        if let Err(p) = r {
            if !p.msg.contains("long fork detected") {
                report.violation(format!("abort/{}", p.site()), format!("{} [partial PoW, tip through a new-tip answer]", p.describe()), json!({"scenario": "partial-pow", "spec": spec, "shape": "tip-through-new-tip-answer"}));
            }
            continue;
        }
        let after = trusted_view(&sim);
        if mined_control {
            if after == before {
                report.violation(
                    "partial-pow/control-not-accepted/tip-through-new-tip-answer".to_owned(),
                    format!("the fully mined twin was not accepted through the new-tip answer: the pass would be vacuous ({:?})", sim.bans()),
                    json!({"scenario": "partial-pow", "spec": spec, "shape": "tip-through-new-tip-answer"}),
                );
            } else {
                report.count("partial_pow/controls_accepted", 1);
            }
        } else if after != before {
            report.violation(
                "mutant-changed-trusted-state/partial-pow/tip-through-new-tip-answer".to_owned(),
                "a last header that fails PoW was taken from a proof response (new last header, empty proof) and then proven with an honest proof: trusted view changed".to_owned(),
                json!({"scenario": "partial-pow", "spec": spec, "params": format!("{:?}", params), "shape": "tip-through-new-tip-answer", "view_before": before, "view_after": after}),
            );
        } else {
            report.count("partial_pow/forged_rejected", 1);
        }
        old = Some(sim);
    }
}

const PROOF_SCNS: [Scn; 5] = [
    Scn::FirstProof,
    Scn::NewProofSampled,
    Scn::NewProofShort,
    Scn::ReorgProof,
    Scn::UnminedProof,
];

fn param_grid(thorough: bool) -> Vec<(&'static str, Params)> {
    let mut v = vec![("mini_dummy.toml", Params::default())];
    v.push(("mini_eaglesong.toml", Params::default()));
    if thorough {
        v.push((
            "mini_dummy.toml",
            Params {
                last_n: 3,
                h1: 20,
                h_sampled: 45,
                h_short: 22,
                fork_at: 18,
                fork_tip: 40,
                main_len: 45,
                epoch_len: 5,
                seed: 2,
                ..Params::default()
            },
        ));
        v.push((
            "mini_dummy.toml",
            Params {
                last_n: 1,
                h1: 5,
                h_sampled: 30,
                h_short: 7,
                fork_at: 4,
                fork_tip: 20,
                seed: 3,
                ..Params::default()
            },
        ));
        v.push((
            "mini_dummy.toml",
            Params {
                last_n: 5,
                h1: 30,
                h_sampled: 60,
                h_short: 33,
                fork_at: 27,
                fork_tip: 58,
                main_len: 60,
                epoch_len: 7,
                mmr_epoch: 1,
                seed: 4,
                ..Params::default()
            },
        ));
        v.push((
            "mini_eaglesong.toml",
            Params {
                last_n: 3,
                h1: 20,
                h_sampled: 45,
                h_short: 22,
                fork_at: 18,
                fork_tip: 40,
                main_len: 45,
                epoch_len: 5,
                seed: 5,
                ..Params::default()
            },
        ));
        v.push((
            "mini_dummy.toml",
            Params {
                seed: 6,
                epoch_len: 4,
                ..Params::default()
            },
        ));
    }
    v
}

pub(crate) fn run(opts: &Opts, report: &mut Report) {
    let thorough = opts.thorough();
    let grid = param_grid(thorough);
    // items: (grid entry, scenario index over c10::ALL_SCN + UnminedProof)
    let mut scns: Vec<Scn> = c10::ALL_SCN.to_vec();
    scns.push(Scn::UnminedProof);
    const CHUNKS: usize = 4;
    let sweep_items = grid.len() * scns.len() * CHUNKS;
    // request grid: (constant / wavy difficulty) x last-N x 8 slices
    let grid_cfgs: Vec<(bool, u64)> = if thorough { vec![(true, 2), (false, 2), (true, 3), (false, 3), (true, 1)] } else { vec![(true, 2), (false, 2)] };
    const GRID_SLICES: usize = 8;
    let grid_items = grid_cfgs.len() * GRID_SLICES;
    let items = sweep_items + grid_items + grid.len();
    let worker = crate::verif::props::shard::run("C01", opts, report, items, 16, |item, report| {
        if item >= sweep_items + grid_items {
            let (spec, params) = &grid[item - sweep_items - grid_items];
            let env = Env::new(spec);
            child_pass(&env, report, spec, params);
            if spec.contains("eaglesong") {
                partial_pow_pass(&env, report, spec, params);
            }
            return;
        }
        if item >= sweep_items {
            let g = item - sweep_items;
            let (constant, last_n) = grid_cfgs[g / GRID_SLICES];
            let env = Env::dummy();
            request_grid(&env, report, constant, last_n, (g % GRID_SLICES, GRID_SLICES), thorough, false);
            return;
        }
        let chunk = item % CHUNKS;
        let item = item / CHUNKS;
        let (spec, params) = &grid[item / scns.len()];
        let scn = scns[item % scns.len()];
        if chunk != 0 && !PROOF_SCNS.contains(&scn) {
            return;
        }
        let env = Env::new(spec);
        let eaglesong = spec.contains("eaglesong");
        if scn == Scn::UnminedProof && !eaglesong {
            return;
        }
        let w = c10::worlds_with(&env, params);
        // cross alphabet: honest homes (and structural mutants) of every scenario
        let mut cross: Vec<sweep::CrossMsg> = vec![];
        let mut own_homes: Vec<Vec<u8>> = vec![];
        for s in &scns {
            if *s == Scn::UnminedProof && !eaglesong {
                continue;
            }
            let (sim, n) = match c10::try_build_with(&env, &w, params, *s, None) {
                Ok(r) => r,
                Err(_) => {
                    if *s == scn {
                        report.count("scenarios_not_reachable_in_this_world", 1);
                        return;
                    }
                    continue;
                }
            };
            for home in sim.queue.iter().take(n) {
                if *s == scn {
                    own_homes.push(home.data.to_vec());
                }
                cross.push((home.proto.clone(), format!("{:?}/{}", s, kind_of(home)), home.data.clone()));
                if kind_of(home) == "SendLastStateProof" {
                    for m in mutate::structural(&home.proto, &home.data) {
                        cross.push((home.proto.clone(), format!("{:?}/{}/{}", s, kind_of(home), m.label), m.data));
                    }
                }
            }
        }
        let is_proof_scn = PROOF_SCNS.contains(&scn);
        let sweep_opts = SweepOpts {
            thorough,
            byte_windows: is_proof_scn,
            truncations: is_proof_scn,
            bit_flips: is_proof_scn && thorough,
            structural: is_proof_scn,
            reseal: is_proof_scn,
            tick_after_change: false,
            honest_control: is_proof_scn,
            follow_up: false,
            view_only_on_change: false,
            chunk: (chunk, CHUNKS),
        };
        let mut by_class: BTreeMap<String, u64> = BTreeMap::new();
        let mut honest_accepted = 0u64;
        let mut honest_total = 0u64;
        let mut alternatives = 0u64;
        let wref = &w;
        let stats = {
            let mut judge = |ctx: &Ctx, out: &Outcome| {
                if let Some(p) = &out.panic {
                    if !p.msg.contains("long fork detected") {
                        report.violation(
                            format!("abort/{}", p.site()),
                            format!("{} [scenario {:?}, mutant {}]", p.describe(), ctx.scn, ctx.label),
                            json!({"scenario": format!("{:?}", ctx.scn), "mutant": ctx.label, "message_hex": hex(&ctx.data[..ctx.data.len().min(4096)])}),
                        );
                    }
                    return;
                }
                let changed = out.view_after != out.view_before;
                match ctx.kind {
                    Kind::HomeMutant => {
                        if ctx.home_kind != "SendLastStateProof" {
                            return;
                        }
                        let class = mutant_class(ctx);
                        *by_class.entry(class.clone()).or_insert(0) += 1;
                        let alternative = changed
                            && ctx.label.starts_with("reselect:")
                            && matches!(ctx.scn, Scn::NewProofSampled | Scn::NewProofShort | Scn::ReorgProof)
                            && ctx
                                .label
                                .split_once('#')
                                .and_then(|(_, rest)| rest.split_once(" from "))
                                .map(|(sel, nums)| legal_alternative(&parse_nums(nums), &parse_nums(sel), params.h1, params.last_n))
                                .unwrap_or(false);
                        if alternative {
                            alternatives += 1;
                        } else if changed {
                            report.violation(
                                format!("mutant-changed-trusted-state/{:?}/{}", ctx.scn, class),
                                format!(
                                    "an altered SendLastStateProof ({}) was accepted in scenario {:?}: trusted view changed",
                                    ctx.label, ctx.scn
                                ),
                                json!({
                                    "scenario": format!("{:?}", ctx.scn), "params": format!("{:?}", params), "spec": spec,
                                    "mutant": ctx.label, "message_hex": hex(ctx.data),
                                    "view_before": out.view_before, "view_after": out.view_after,
                                }),
                            );
                        }
                    }
                    Kind::HonestControl => {
                        if ctx.home_kind != "SendLastStateProof" {
                            return;
                        }
                        honest_total += 1;
                        if ctx.scn == Scn::UnminedProof {
                            if changed {
                                report.violation(
                                    "unmined-chain-accepted".to_owned(),
                                    "a self-consistent proof over headers that fail PoW was accepted".to_owned(),
                                    json!({"scenario": "UnminedProof", "params": format!("{:?}", params), "spec": spec, "view_after": out.view_after}),
                                );
                            }
                        } else if changed {
                            honest_accepted += 1;
                        } else {
                            // the first answer may be a RequireRecheck round (genesis sampled):
                            // not a rejection if the peer was not banned
                            if !out.bans.is_empty() {
                                report.violation(
                                    format!("honest-proof-rejected/{:?}", ctx.scn),
                                    format!("the honest answer was rejected: {:?}", out.bans),
                                    json!({"scenario": format!("{:?}", ctx.scn), "params": format!("{:?}", params), "spec": spec}),
                                );
                            }
                        }
                    }
                    Kind::Cross => {
                        if changed {
                            // legitimate only if it is this scenario's own pending honest answer
                            // from the asked peer
                            let own = ctx.peer == 1 && own_homes.iter().any(|h| h.as_slice() == &ctx.data[..]);
                            if !own {
                                report.violation(
                                    format!("foreign-message-changed-trusted-state/{:?}/{}", ctx.scn, ctx.label.split('/').take(2).collect::<Vec<_>>().join("/")),
                                    format!("message {} from peer {} changed the trusted view in scenario {:?}", ctx.label, ctx.peer, ctx.scn),
                                    json!({"scenario": format!("{:?}", ctx.scn), "params": format!("{:?}", params), "spec": spec, "message": ctx.label, "peer": ctx.peer, "view_before": out.view_before, "view_after": out.view_after}),
                                );
                            }
                        }
                    }
                }
            };
            sweep::sweep_scenario(
                &env,
                &w,
                params,
                scn,
                &sweep_opts,
                &|home| proof_mutants(wref, home),
                &cross,
                &trusted_view,
                &mut judge,
            )
        };
        report.count("states", if chunk == 0 { 1 } else { 0 });
        report.count("transitions", stats.deliveries);
        report.count("rebuilds", stats.rebuilds);
        report.count("deliveries_changing_any_state", stats.state_changes);
        report.count("deliveries_changing_trusted_view", stats.view_changes);
        report.count("accepted_alternative_answers(reorg section present or not)", alternatives);
        report.count("honest_controls", honest_total);
        report.count("honest_controls_accepted", honest_accepted);
        report.count("proof_mutants", by_class.values().sum());
        report.count("distinct_mutant_classes_x_scenarios", by_class.len() as u64);
        if is_proof_scn && item % scns.len() == 2 && chunk == 0 {
            let top: Vec<_> = by_class.iter().take(12).collect();
            report.sample(json!({"scenario": format!("{:?}", scn), "spec": spec, "params": format!("{:?}", params), "mutant_classes(sample)": top}));
        }
    });
    if worker {
        return;
    }
    let t = report.get("transitions");
    report.set("traces_validated_against_impl", json!(t));
    report.set("evaluations", json!(t));
    report.set("distinct_nontrivial", json!(report.get("proof_mutants")));
    report.set("rule", json!("states = (world parameters, PoW engine, receiver scenario); transitions = deliveries to the real handler, each followed by a comparison of the complete trusted view; distinct_nontrivial = single-site mutants of an outstanding honest SendLastStateProof (distinct by operator x site)"));
    report.set("bounds", json!({"worlds": grid.iter().map(|(s, p)| format!("{} {:?}", s, p)).collect::<Vec<_>>(), "mutation": "single site (+ re-sealing of the headers list)"}));
    report.assume("single-site mutations; hash collisions excluded; Eaglesong targets are easy by construction");
    if report.get("honest_controls_accepted") == 0 {
        report.violation(
            "vacuous/no-honest-proof-accepted".to_owned(),
            "no honest proof was accepted in any scenario: the sweep would be vacuous".to_owned(),
            json!({}),
        );
    }
}
