//! C06 — block filters are acted on only if authentic and attributed to the right block.
//!
//! E-mut + E-seq: for every world x script set x server batch length, for EVERY BlockFilters
//! message of the honest sync history (positions before / at / after the finalized and the cached
//! check point, with and without matches, near the proven tip) and for every mutant of it (filter
//! bytes emptied / flipped / replaced by the filter of another block, a block hash replaced by
//! another proven-chain block / a fork block / random, start number shifted, filters or hashes
//! dropped, added, swapped, all filters emptied, the generic structural mutants), the mutant is
//! delivered in place of the honest message (and, second variant, followed by the honest one),
//! from one of two otherwise honest peers; a banned sender is disconnected, then the honest
//! history continues to quiescence. Oracle: immediately, the filtered height advances at most over
//! the authentic prefix of the message (filters equal to the world's filters at the claimed
//! heights, start number = filtered height + 1); at quiescence no stall, the RPC answers equal
//! the reference index (no activity of a registered script skipped, nothing foreign indexed) and
//! every stored record is committed by the proven chain.

use std::collections::BTreeMap;

use ckb_types::{packed, prelude::*};
use serde_json::json;

use crate::verif::client::ClientCfg;
use crate::verif::driver::{InFlight, Sim, World};
use crate::verif::net::Proto;
use crate::verif::oracle::{self, Reg};
use crate::verif::props::c03;
use crate::verif::props::{panics, Opts};
use crate::verif::report::Report;
use crate::verif::scen::{self, Env};
use crate::verif::world::Chain;

struct Case {
    name: String,
    chain: Chain,
    fork: Chain,
    regs: Vec<Reg>,
    batch: u64,
    hashes_batch: u64,
    max_outbound: u32,
    n_peers: usize,
    /// peer `n_peers` lies consistently about the filters of the blocks `from..` (hashes and
    /// filters from a doctored chain, honest check points)
    liar_from: Option<u64>,
    /// how many of the last peers lie (1 if `liar_from` is set and this is 0)
    n_liars: usize,
    rng_seed: u64,
    /// the full nodes are this many blocks ahead of the last state they announced (and proved):
    /// they answer filters, hashes and check points from their own tip
    ahead: u64,
    /// the peers start at this height and move to the tip of the chain (announcing it) once the
    /// client has synced that far: the client then follows the tip in "latest" mode while
    /// further check points become final
    grow_from: Option<u64>,
}

/// the height the peers grow to at the first quiescent point (0: no growth); set by `new_sim`
static GROW_TO: std::sync::atomic::AtomicU64 = std::sync::atomic::AtomicU64::new(0);

fn new_sim(env: &Env, case: &Case, old: Option<Sim>) -> Sim {
    let cfg = ClientCfg { last_n: 3, max_outbound: case.max_outbound, cp_interval: 4, ..Default::default() };
    let mut chains = vec![case.chain.clone()];
    if let Some(from) = case.liar_from {
        chains.push(case.chain.with_fake_filters(from));
    }
    let mut world = World::new(chains, cfg.cp_interval);
    for p in 1..=case.n_peers {
        world.add_peer(p, 0, case.grow_from.unwrap_or(case.chain.tip_number() - case.ahead));
        world.peer_mut(p).ahead = case.ahead;
    }
    GROW_TO.store(if case.grow_from.is_some() { case.chain.tip_number() } else { 0 }, std::sync::atomic::Ordering::SeqCst);
    if case.liar_from.is_some() {
        for p in (case.n_peers + 1 - case.n_liars.max(1))..=case.n_peers {
            world.peer_mut(p).filter_chain = Some(1);
        }
    }
    world.filter_batch = case.batch;
    world.hashes_batch = case.hashes_batch;
    crate::verif::client::set_now(crate::verif::world::BASE_TS + 1_000_000);
    let mut sim = match old {
        Some(old) => Sim::recycle(old, cfg, world),
        None => scen::new_sim(env, cfg, world),
    };
    crate::verif_hooks::rng_reset(6 + case.rng_seed);
    let list: Vec<_> = case
        .regs
        .iter()
        .map(|r| (r.script.clone(), if r.is_lock { crate::storage::ScriptType::Lock } else { crate::storage::ScriptType::Type }, r.start))
        .collect();
    scen::register(&sim, &list);
    for p in 1..=case.n_peers {
        sim.connect(p);
    }
    sim
}

fn is_kind(m: &InFlight, kind: &str) -> bool {
    m.proto == Proto::Filter && scen::filter_kind(&m.data).as_deref() == Some(kind)
}

/// Runs the honest history until the k-th BlockFilters message is at the front of the queue.
fn run_until(sim: &mut Sim, kind: &str, k: usize) -> bool {
    let mut seen = 0usize;
    let mut idle = 0;
    for _ in 0..2000 {
        if sim.queue.is_empty() {
            sim.advance(10);
            sim.tick_all();
            idle += 1;
            let grow_to = GROW_TO.load(std::sync::atomic::Ordering::SeqCst);
            if idle > 3 && grow_to > 0 && sim.world.peers.iter().any(|p| p.connected && p.height < grow_to) {
                let ids: Vec<usize> = sim.world.peers.iter().filter(|p| p.connected && p.height < grow_to).map(|p| p.id).collect();
                // block by block: the client follows the tip in "latest" mode and check points
                // become final behind it
                for id in ids {
                    let h = sim.world.peer(id).height + 1;
                    sim.set_view(id, 0, h, true);
                }
                idle = 0;
                continue;
            }
            if idle > 6 {
                return false;
            }
            continue;
        }
        idle = 0;
        if is_kind(&sim.queue[0], kind) {
            if seen == k {
                return true;
            }
            seen += 1;
        }
        sim.deliver(0);
    }
    false
}

fn parse(data: &[u8]) -> Option<packed::BlockFilters> {
    match packed::BlockFilterMessage::from_slice(data).ok()?.to_enum() {
        packed::BlockFilterMessageUnion::BlockFilters(m) => Some(m),
        _ => None,
    }
}

fn build(start: u64, hashes: &[packed::Byte32], filters: &[packed::Bytes]) -> ckb_network::bytes::Bytes {
    let m = packed::BlockFilters::new_builder()
        .start_number(start.pack())
        .block_hashes(hashes.to_vec().pack())
        .filters(packed::BytesVec::new_builder().set(filters.to_vec()).build())
        .build();
    packed::BlockFilterMessage::new_builder().set(m).build().as_bytes()
}

/// (class, detail label, bytes)
fn mutants(case: &Case, honest: &packed::BlockFilters, thorough: bool) -> Vec<(String, String, ckb_network::bytes::Bytes)> {
    let chain = &case.chain;
    let start: u64 = honest.start_number().unpack();
    let hashes: Vec<packed::Byte32> = honest.block_hashes().into_iter().collect();
    let filters: Vec<packed::Bytes> = honest.filters().into_iter().collect();
    let n = filters.len();
    let mut out: Vec<(String, String, ckb_network::bytes::Bytes)> = vec![];
    let mut push = |class: &str, label: String, s: u64, h: &[packed::Byte32], f: &[packed::Bytes]| {
        out.push((class.to_owned(), label, build(s, h, f)));
    };
    let empty: packed::Bytes = Default::default();
    let tip = chain.tip_number();
    for i in 0..n {
        let number = start + i as u64;
        // --- filter bytes
        let mut f = filters.clone();
        f[i] = empty.clone();
        push("filter:=empty", format!("filter of #{}", number), start, &hashes, &f);
        let raw = filters[i].raw_data();
        if !raw.is_empty() {
            for pos in if thorough { vec![0usize, raw.len() / 2, raw.len() - 1] } else { vec![raw.len() / 2] } {
                let mut v = raw.to_vec();
                v[pos] ^= 0x10;
                let mut f = filters.clone();
                f[i] = v.pack();
                push("filter:byte-flipped", format!("filter of #{} byte {}", number, pos), start, &hashes, &f);
            }
        }
        for other in [number.saturating_sub(1), number + 1, 1, tip] {
            if other != number && other <= tip && chain.filters[other as usize].as_slice() != filters[i].as_slice() {
                let mut f = filters.clone();
                f[i] = chain.filters[other as usize].clone();
                push("filter:=filter-of-another-block", format!("filter of #{} := filter of #{}", number, other), start, &hashes, &f);
            }
        }
        // --- block hashes
        for other in [number.saturating_sub(1), number + 1, 1, tip, start + n as u64] {
            if other != number && other <= tip && other >= 1 {
                let mut h = hashes.clone();
                h[i] = chain.blocks[other as usize].hash();
                push("hash:=another-proven-chain-block", format!("hash of #{} := hash of #{}", number, other), start, &h, &filters);
            }
        }
        if number <= case.fork.tip_number() && case.fork.blocks[number as usize].hash() != hashes[i] {
            let mut h = hashes.clone();
            h[i] = case.fork.blocks[number as usize].hash();
            push("hash:=fork-block", format!("hash of #{} := fork block", number), start, &h, &filters);
        }
        let mut h = hashes.clone();
        h[i] = packed::Byte32::new_unchecked(vec![0xabu8; 32].into());
        push("hash:=random", format!("hash of #{}", number), start, &h, &filters);
        // --- drop one (filter and hash)
        let mut f = filters.clone();
        let mut h = hashes.clone();
        f.remove(i);
        h.remove(i);
        push("drop-one-filter-and-hash", format!("#{}", number), start, &h, &f);
        if i + 1 < n {
            let mut f = filters.clone();
            f.swap(i, i + 1);
            push("swap-neighbouring-filters", format!("#{} <-> #{}", number, number + 1), start, &hashes, &f);
            let mut h = hashes.clone();
            h.swap(i, i + 1);
            push("swap-neighbouring-hashes", format!("#{} <-> #{}", number, number + 1), start, &h, &filters);
        }
    }
    // --- message level
    for d in [-1i64, 1, -(n as i64), n as i64] {
        let s = start as i64 + d;
        if s >= 0 {
            push("start-number-shifted", format!("{:+}", d), s as u64, &hashes, &filters);
        }
    }
    // the authentic filters (and hashes) of the blocks one / two check point intervals LOWER under
    // the expected start number: they chain correctly against a hash list that is attributed to
    // the wrong heights (a list based on an earlier check point)
    for lower in [4u64, 8] {
        if start > lower && n > 0 {
            let f: Vec<packed::Bytes> = (0..n as u64).map(|i| chain.filters[(start + i - lower) as usize].clone()).collect();
            let h: Vec<packed::Byte32> = (0..n as u64).map(|i| chain.blocks[(start + i - lower) as usize].hash()).collect();
            push("all:=blocks-one-or-two-intervals-lower", format!("-{} filters+hashes", lower), start, &h, &f);
            push("all:=blocks-one-or-two-intervals-lower", format!("-{} filters only", lower), start, &hashes, &f);
        }
    }
    push("start-number-shifted", "=0".to_owned(), 0, &hashes, &filters);
    push("start-number-shifted", "=u64::MAX".to_owned(), u64::MAX, &hashes, &filters);
    if n > 0 {
        push("drop-last-filter-only", String::new(), start, &hashes, &filters[..n - 1]);
        push("drop-last-hash-only", String::new(), start, &hashes[..n - 1], &filters);
        let all_empty: Vec<packed::Bytes> = filters.iter().map(|_| empty.clone()).collect();
        push("all-filters:=empty", String::new(), start, &hashes, &all_empty);
    }
    // one more filter than the server may know hashes for: the authentic next one / an empty one
    let next = start + n as u64;
    if next <= tip {
        let mut f = filters.clone();
        let mut h = hashes.clone();
        f.push(chain.filters[next as usize].clone());
        h.push(chain.blocks[next as usize].hash());
        push("extra:authentic-next", String::new(), start, &h, &f);
        let mut f2 = filters.clone();
        f2.push(empty.clone());
        push("extra:empty-next", String::new(), start, &h, &f2);
        // a long tail of empty filters up to the tip
        let mut f3 = filters.clone();
        let mut h3 = hashes.clone();
        for x in next..=tip {
            f3.push(empty.clone());
            h3.push(chain.blocks[x as usize].hash());
        }
        push("extra:empty-tail-to-tip", String::new(), start, &h3, &f3);
    }
    out
}

/// Mutants of a BlockFilterHashes message: (class, label, bytes)
fn hashes_mutants(honest_data: &[u8]) -> Vec<(String, String, ckb_network::bytes::Bytes)> {
    let mut out = vec![];
    let m = match packed::BlockFilterMessage::from_slice(honest_data).ok().map(|m| m.to_enum()) {
        Some(packed::BlockFilterMessageUnion::BlockFilterHashes(m)) => m,
        _ => return out,
    };
    let start: u64 = m.start_number().unpack();
    let hs: Vec<packed::Byte32> = m.block_filter_hashes().into_iter().collect();
    let wrap = |x: packed::BlockFilterHashes| packed::BlockFilterMessage::new_builder().set(x).build().as_bytes();
    let fake = |salt: u8| packed::Byte32::new_unchecked(vec![salt; 32].into());
    for i in 0..hs.len() {
        let mut v = hs.clone();
        v[i] = fake(0xc0 + (i as u8 & 0xf));
        let class = if i + 1 == hs.len() { "hashes:last-hash:=fake" } else if i == 0 { "hashes:first-hash:=fake" } else { "hashes:inner-hash:=fake" };
        out.push((class.to_owned(), format!("hash of #{}", start + i as u64), wrap(m.clone().as_builder().block_filter_hashes(v.pack()).build())));
        if i + 1 < hs.len() {
            let mut v = hs.clone();
            v.swap(i, i + 1);
            out.push(("hashes:swap-neighbours".to_owned(), format!("#{} <-> #{}", start + i as u64, start + i as u64 + 1), wrap(m.clone().as_builder().block_filter_hashes(v.pack()).build())));
        }
    }
    if !hs.is_empty() {
        // everything from some point on replaced (a consistent lie about a whole tail)
        for from in [0usize, hs.len() / 2] {
            let mut v = hs.clone();
            for (j, x) in v.iter_mut().enumerate().skip(from) {
                *x = fake(0x30 + (j as u8 & 0xf));
            }
            out.push(("hashes:tail:=fake".to_owned(), format!("from #{}", start + from as u64), wrap(m.clone().as_builder().block_filter_hashes(v.pack()).build())));
        }
        out.push(("hashes:drop-last".to_owned(), String::new(), wrap(m.clone().as_builder().block_filter_hashes(hs[..hs.len() - 1].to_vec().pack()).build())));
        let mut v = hs.clone();
        v.push(fake(0x77));
        out.push(("hashes:extra-fake".to_owned(), String::new(), wrap(m.clone().as_builder().block_filter_hashes(v.pack()).build())));
    }
    out.push(("hashes:parent:=fake".to_owned(), String::new(), wrap(m.clone().as_builder().parent_block_filter_hash(fake(0x55)).build())));
    for d in [-1i64, 1] {
        let s2 = start as i64 + d;
        if s2 >= 0 {
            out.push(("hashes:start-number-shifted".to_owned(), format!("{:+}", d), wrap(m.clone().as_builder().start_number((s2 as u64).pack()).build())));
        }
    }
    out
}

fn authentic_prefix(case: &Case, min_filtered: u64, data: &[u8]) -> u64 {
    let m = match parse(data) {
        Some(m) => m,
        None => return 0,
    };
    let start: u64 = m.start_number().unpack();
    if start != min_filtered + 1 {
        return 0;
    }
    let mut n = 0u64;
    for (i, f) in m.filters().into_iter().enumerate() {
        let number = start + i as u64;
        if number > case.chain.tip_number() || case.chain.filters[number as usize].as_slice() != f.as_slice() {
            break;
        }
        n += 1;
    }
    n.min(m.block_hashes().len() as u64)
}

/// The message is authentic in its filters (over the prefix the client can accept) but attributes
/// a height to another block: returns the kind of the foreign hash.
fn misattribution(case: &Case, min_filtered: u64, proven_tip: u64, data: &[u8]) -> Option<&'static str> {
    let m = parse(data)?;
    let start: u64 = m.start_number().unpack();
    let prefix = authentic_prefix(case, min_filtered, data);
    let mut kind = None;
    for (i, h) in m.block_hashes().into_iter().enumerate().take(prefix as usize) {
        let number = start + i as u64;
        if case.chain.blocks[number as usize].hash() != h {
            // (a block of the chain beyond what is proven so far is no proven-chain block yet)
            if case.chain.number_of(&h).map(|n| n <= proven_tip).unwrap_or(false) {
                return Some("authentic-filters-with-hash-of-another-proven-chain-block");
            }
            kind = Some("authentic-filters-with-hash-not-on-the-proven-chain");
        }
    }
    kind
}

const LONG_WORLD: usize = usize::MAX;

pub(crate) fn run(opts: &Opts, report: &mut Report) {
    let thorough = opts.thorough();
    // (world, script set, server filter batch, server hashes batch, max_outbound, target message kind)
    let mut items: Vec<(usize, usize, u64, u64, u32, &'static str)> = vec![];
    for wi in if thorough { vec![0usize, 1, 2, 3] } else { vec![0usize, 1] } {
        for si in if thorough { vec![0usize, 1, 4, 5] } else { vec![1usize, 4] } {
            for batch in if thorough { vec![2u64, 5, 1000] } else { vec![3u64] } {
                items.push((wi, si, batch, 2000, 2, "BlockFilters"));
            }
        }
    }
    // filter hashes: answers that end before / exactly at / beyond the next check point (interval
    // 4), with quorum 1 (max_outbound 2) and quorum 2 (max_outbound 3)
    for wi in if thorough { vec![0usize, 1, 2] } else { vec![0usize] } {
        for hashes_batch in if thorough { vec![3u64, 4, 6, 2000] } else { vec![4u64, 2000] } {
            // (quorum 2 of 3 peers; with a quorum of 1 a single peer's hashes are trusted by configuration)
            for max_outbound in [3u32] {
                items.push((wi, 1, 5, hashes_batch, max_outbound, "BlockFilterHashes"));
            }
        }
    }
    // a growing world: the client catches up at block 10, then the peers move to block 24 (check
    // points become final while the client follows the tip in "latest" mode)
    items.push((LONG_WORLD, 1, 3, 2000, 2, "BlockFilters"));
    if thorough {
        items.push((LONG_WORLD, 4, 5, 2000, 2, "BlockFilters"));
        items.push((LONG_WORLD, 1, 3, 2000, 3, "BlockFilters"));
    }
    // full nodes three blocks ahead of the state they proved: only the honest history is run; the
    // filtered height and the scripts' block numbers must never pass the proven tip, whatever
    // the answers offer beyond it
    for (wi, batch) in if thorough { vec![(0usize, 3u64), (0, 1000), (1, 3), (2, 5)] } else { vec![(0usize, 3u64), (0, 1000)] } {
        items.push((wi, 1, batch, 2000, 2, "Ahead"));
    }
    const SLICES: usize = 4;
    let n_items = items.len() * SLICES;
    let worker = crate::verif::props::shard::run("C06", opts, report, n_items, 16, |item, report| {
        let env = Env::dummy();
        let (wi, si, batch, hashes_batch, max_outbound, target) = items[item / SLICES];
        let slice = item % SLICES;
        let mut ws = c03::worlds(&env);
        if wi == LONG_WORLD {
            // a chain long enough for check points to become final while the client follows the tip
            let mut c = crate::verif::world::Chain::new(std::sync::Arc::clone(&env.consensus), scen::wavy_plan(5));
            let mut acts = scen::std_acts();
            acts.extend([(14, scen::Act::Mine('A')), (17, scen::Act::Move('A', 'B')), (19, scen::Act::Mine('B')), (22, scen::Act::Move('B', 'A'))]);
            scen::extend_chain(&mut c, &env.scripts, 24, &acts);
            ws.push(("W-long24-grow".to_owned(), c));
        }
        let (wname, chain) = &ws[wi.min(ws.len() - 1)];
        let sets = c03::script_sets(&env, chain.tip_number());
        let (sname, regs) = &sets[si];
        let fork_at = chain.tip_number().saturating_sub(5).max(1);
        let mut fork = chain.fork(fork_at, 99);
        scen::extend_chain(&mut fork, &env.scripts, chain.tip_number(), &[]);
        let case = Case {
            name: format!("{}/{}/batch{}/hashes{}/outbound{}", wname, sname, batch, hashes_batch, max_outbound),
            chain: chain.clone(),
            fork,
            regs: regs.clone(),
            batch,
            hashes_batch,
            max_outbound,
            n_peers: if max_outbound >= 3 { 3 } else { 2 },
            liar_from: None,
            n_liars: 0,
            rng_seed: 0,
            ahead: if target == "Ahead" { 3 } else { 0 },
            grow_from: if wi == LONG_WORLD { Some(10) } else { None },
        };
        if target == "Ahead" {
            if slice != 0 {
                return;
            }
            let mut sim = new_sim(&env, &case, None);
            let mut beyond: Option<String> = None;
            let mut deliveries = 0u64;
            let mut idle = 0;
            // FIFO; after every delivery: nothing beyond the proven tip may count as filtered
            for _ in 0..4000 {
                if sim.queue.is_empty() {
                    sim.advance(10);
                    sim.tick_all();
                    idle += 1;
                    if idle > 6 {
                        break;
                    }
                    continue;
                }
                idle = 0;
                sim.deliver(0);
                deliveries += 1;
                let tip = sim.c().tip_number();
                let filtered = sim.c().storage.get_min_filtered_block_number();
                let over: Vec<u64> = oracle::rpc_scripts(sim.c()).iter().map(|(_, _, n)| *n).filter(|n| *n > tip).collect();
                if beyond.is_none() && (filtered > tip || !over.is_empty()) {
                    beyond = Some(format!("after {} deliveries: proven tip {}, filtered height {}, script block numbers beyond the tip {:?}", deliveries, tip, filtered, over));
                }
            }
            let (_, _, converged) = sim.converge(80);
            let view = crate::verif::world::View::new(&case.chain, case.chain.tip_number() - case.ahead);
            let _ = view;
            let mut bad = oracle::judge_index(sim.c(), &case.chain, &case.regs, converged);
            bad.extend(oracle::judge_store(&sim, &case.chain));
            if let Some(b) = beyond {
                bad.push(("filtered-beyond-the-proven-tip".into(), b));
            }
            if !converged || !sim.bans().is_empty() {
                bad.push(("stall-or-ban".into(), format!("converged={} bans={:?}", converged, sim.bans())));
            }
            for (class, v) in oracle::group(bad) {
                report.violation(format!("node-ahead/{}", class), format!("[{}] {}", case.name, v[0]), json!({"case": case.name, "ahead": case.ahead}));
            }
            report.count("node_ahead_runs", 1);
            report.count("transitions", deliveries);
            report.count("cases", 1);
            return;
        }
        // honest reference run: how many BlockFilters messages, and it must be clean
        let mut sim = new_sim(&env, &case, None);
        let mut n_msgs = 0usize;
        while run_until(&mut sim, target, 0) {
            n_msgs += 1;
            sim.deliver(0);
            if n_msgs > 200 {
                break;
            }
        }
        let (_, _, converged) = sim.converge(80);
        if slice == 0 {
            let mut bad = oracle::judge_index(sim.c(), &case.chain, &case.regs, converged);
            bad.extend(oracle::judge_store(&sim, &case.chain));
            if !converged || !sim.bans().is_empty() {
                bad.push(("stall-or-ban".into(), format!("converged={} bans={:?}", converged, sim.bans())));
            }
            for (class, v) in oracle::group(bad) {
                // the honest history itself is C03's subject; here it only has to be sane
                report.violation(format!("honest-run/{}", class), format!("[{}] {}", case.name, v[0]), json!({"case": case.name}));
            }
            report.count(&format!("messages/{}", target), n_msgs as u64);
            report.count("block_filters_messages", n_msgs as u64);
            report.count("cases", 1);
        }
        let mut old = Some(sim);
        let mut by_class: BTreeMap<String, u64> = BTreeMap::new();
        let mut runs = 0u64;
        let mut not_judged = 0u64;
        let mut accepted_changes = 0u64;
        for k in 0..n_msgs {
            // the honest k-th message
            let mut sim0 = new_sim(&env, &case, old.take());
            if !run_until(&mut sim0, target, k) {
                old = Some(sim0);
                continue;
            }
            let honest_msg = sim0.queue[0].clone();
            old = Some(sim0);
            let mut muts = if target == "BlockFilters" {
                match parse(&honest_msg.data) {
                    Some(h) => mutants(&case, &h, thorough),
                    None => continue,
                }
            } else {
                hashes_mutants(&honest_msg.data)
            };
            let honest_start: u64 = match packed::BlockFilterMessage::from_slice(&honest_msg.data).ok().map(|m| m.to_enum()) {
                Some(packed::BlockFilterMessageUnion::BlockFilters(m)) => m.start_number().unpack(),
                Some(packed::BlockFilterMessageUnion::BlockFilterHashes(m)) => m.start_number().unpack(),
                _ => 0,
            };
            for m in crate::verif::mutate::structural(&Proto::Filter, &honest_msg.data) {
                muts.push((format!("structural:{}", m.label.split('[').next().unwrap_or("")), m.label.clone(), m.data));
            }
            // the growing world repeats what the static worlds cover up to the point where the
            // growth starts: quick tier = the messages after that point and the mutant classes
            // that are about positions (thorough: everything)
            if case.grow_from.is_some() && !thorough && std::env::var("C06_FULL_GROW").is_err() {
                if honest_start <= case.grow_from.unwrap_or(0) {
                    continue;
                }
                muts.retain(|(class, _, _)| {
                    class.starts_with("structural:") || ["all:=blocks-one-or-two-intervals-lower", "start-number-shifted", "extra:authentic-next", "drop-last-hash-only", "swap-neighbouring-filters"].contains(&class.as_str())
                });
            }
            for (mi, (class, label, data)) in muts.iter().enumerate() {
                if mi % SLICES != slice || data == &honest_msg.data {
                    continue;
                }
                for then_honest in [false, true] {
                    runs += 1;
                    *by_class.entry(class.clone()).or_insert(0) += 1;
                    crate::verif::props::shard::journal(&format!("{} msg#{} {} {} then_honest={}", case.name, k, class, label, then_honest));
                    let mut sim = new_sim(&env, &case, old.take());
                    let mut bad: Vec<(String, String)> = vec![];
                    let mut root_of_run: Option<&'static str> = None;
                    let r = panics::catch(|| {
                        if !run_until(&mut sim, target, k) {
                            return None;
                        }
                        let hm = sim.queue.pop_front().unwrap();
                        let m0 = sim.c().storage.get_min_filtered_block_number();
                        let allowed = authentic_prefix(&case, m0, data);
                        let root = if target == "BlockFilters" {
                            misattribution(&case, m0, sim.c().tip_number(), data)
                        } else {
                            // filter hashes between two finalized check points are cached from a
                            // single peer; beyond the last finalized one they need the quorum
                            let (fi, _) = sim.c().storage.get_last_check_point();
                            if honest_start <= fi as u64 * 4 {
                                Some("tampered-cached-filter-hashes")
                            } else {
                                Some("tampered-latest-filter-hashes")
                            }
                        };
                        sim.deliver_msg(InFlight { proto: Proto::Filter, peer: hm.peer, data: data.clone(), note: format!("BlockFilters[{}]", class) });
                        let m1 = sim.c().storage.get_min_filtered_block_number();
                        let mut imm = vec![];
                        if m1 > m0 + allowed {
                            imm.push((
                                "filtered-height-advanced-over-unauthentic-filters".to_owned(),
                                format!("filtered height {} -> {} but only {} leading filters are authentic for heights {}..", m0, m1, allowed, m0 + 1),
                            ));
                        }
                        if m1 < m0 {
                            imm.push(("filtered-height-decreased".to_owned(), format!("{} -> {}", m0, m1)));
                        }
                        let banned: Vec<usize> = sim.bans().iter().map(|(p, _)| p.value()).collect();
                        for p in banned {
                            if sim.world.peer(p).connected {
                                sim.disconnect(p);
                            }
                        }
                        let sender = hm.peer;
                        if then_honest && sim.world.peer(hm.peer).connected {
                            sim.deliver_msg(hm);
                        }
                        // honest continuation; a peer the client bans is disconnected
                        let mut converged = false;
                        for _ in 0..6 {
                            let (_, _, c) = sim.converge(80);
                            converged = c;
                            let banned: Vec<(usize, String)> = sim.bans().iter().map(|(p, r)| (p.value(), r.clone())).collect();
                            let mut any = false;
                            for (p, reason) in banned {
                                if sim.world.peer(p).connected {
                                    sim.disconnect(p);
                                    any = true;
                                    if p != sender {
                                        imm.push((
                                            "honest-peer-banned-after-foreign-mutant".to_owned(),
                                            format!("peer {} (never sent anything but honest answers) was banned after the mutant of peer {}: {}", p, sender, reason),
                                        ));
                                    }
                                }
                            }
                            if !any {
                                break;
                            }
                        }
                        Some((imm, converged, m1 != m0, root))
                    });
                    match r {
                        Err(p) => bad.push((format!("abort/{}", p.site()), p.describe())),
                        Ok(None) => {
                            not_judged += 1;
                        }
                        Ok(Some((imm, converged, changed, root))) => {
                            root_of_run = root;
                            if changed {
                                accepted_changes += 1;
                            }
                            bad.extend(imm);
                            let any_left = sim.world.peers.iter().any(|p| p.connected);
                            if !any_left {
                                not_judged += 1;
                            } else {
                                if !converged {
                                    bad.push(("stall".into(), "the honest continuation does not reach quiescence".into()));
                                }
                                let tip_ok = sim.c().tip_number() == case.chain.tip_number();
                                bad.extend(oracle::judge_index(sim.c(), &case.chain, &case.regs, converged && tip_ok));
                                bad.extend(oracle::judge_store(&sim, &case.chain));
                            }
                        }
                    }
                    for (oc, v) in oracle::group(bad) {
                        report.violation(
                            format!("{}/{}", oc, root_of_run.unwrap_or(class.as_str())),
                            format!("[{}] {} message #{} (start {}), mutant {} ({}), then honest twin: {}: {}", case.name, target, k, honest_start, class, label, then_honest, v[0]),
                            json!({"case": case.name, "message_index": k, "mutant_class": class, "mutant": label, "then_honest": then_honest, "all": v.iter().take(6).collect::<Vec<_>>(), "mutant_hex": crate::verif::report::hex(&data[..data.len().min(2048)])}),
                        );
                    }
                    old = Some(sim);
                }
            }
        }
        // ---- a consistently lying filter server among enough honest ones (quorum 2 of 3 peers):
        // fake filters (empty from block `from` on) and a hash chain over them, honest check points
        if target == "BlockFilterHashes" && slice == 0 {
            let tip = case.chain.tip_number();
            // (liars, max_outbound): one liar against a quorum of 2 that the two honest peers
            // reach; two liars against one honest peer with a quorum of 3 that nobody reaches
            // (then nothing beyond the finalized check point may be acted on at all)
            for (n_liars, outbound) in [(1usize, 3u32), (2, 5)] {
            for from in (1..=tip).filter(|n| thorough || [1u64, 2, 4, 5, 7, 9].contains(n)) {
                for seed in 0..(if thorough { 6u64 } else { 3 }) {
                    let liar_case = Case {
                        name: format!("{}/{}-liar-from-{}/quorum{}/seed{}", case.name, n_liars, from, (outbound + 1) / 2, seed),
                        chain: case.chain.clone(),
                        fork: case.fork.clone(),
                        regs: case.regs.clone(),
                        batch: case.batch,
                        hashes_batch: case.hashes_batch,
                        max_outbound: outbound,
                        n_peers: 3,
                        liar_from: Some(from),
                        n_liars,
                        rng_seed: seed,
                        ahead: 0,
                        grow_from: None,
                    };
                    runs += 1;
                    *by_class.entry("consistent-liar".to_owned()).or_insert(0) += 1;
                    crate::verif::props::shard::journal(&liar_case.name);
                    let mut sim = new_sim(&env, &liar_case, old.take());
                    let mut bad: Vec<(String, String)> = vec![];
                    let r = panics::catch(|| {
                        let mut converged = false;
                        let mut imm = vec![];
                        for _ in 0..6 {
                            let (_, _, c) = sim.converge(80);
                            converged = c;
                            let banned: Vec<(usize, String)> = sim.bans().iter().map(|(p, r)| (p.value(), r.clone())).collect();
                            let mut any = false;
                            for (p, reason) in banned {
                                if sim.world.peer(p).connected {
                                    sim.disconnect(p);
                                    any = true;
                                    if p <= 3 - n_liars {
                                        imm.push(("honest-peer-banned-by-consistent-liar".to_owned(), format!("honest peer {} banned: {}", p, reason)));
                                    }
                                }
                            }
                            if !any {
                                break;
                            }
                        }
                        (imm, converged)
                    });
                    match r {
                        Err(p) => bad.push((format!("abort/{}", p.site()), p.describe())),
                        Ok((imm, converged)) => {
                            // both honest peers have to be proven for the quorum of 2 (an honest
                            // peer stuck in its first proof round is C05's subject)
                            let proven_honest = (1..=(3 - n_liars))
                                .filter(|p| sim.c().peers.get_state(&ckb_network::PeerIndex::new(*p)).and_then(|s| s.get_prove_state().cloned()).is_some())
                                .count();
                            if proven_honest < 3 - n_liars {
                                not_judged += 1;
                                old = Some(sim);
                                continue;
                            }
                            bad.extend(imm);
                            if n_liars == 1 {
                                if !converged {
                                    bad.push(("stall".into(), "no quiescence with two honest peers and one lying filter server".into()));
                                }
                                let tip_ok = sim.c().tip_number() == case.chain.tip_number();
                                bad.extend(oracle::judge_index(sim.c(), &case.chain, &case.regs, converged && tip_ok));
                            } else {
                                // the quorum is out of reach: no progress is owed, but whatever
                                // height the scripts report must not hide activity
                                bad.extend(oracle::judge_index(sim.c(), &case.chain, &case.regs, false).into_iter().filter(|(k, _)| k != "not-caught-up"));
                            }
                            bad.extend(oracle::judge_store(&sim, &case.chain));
                        }
                    }
                    // what keeps a stalled run busy: filter hashes of the lying server's chain in
                    // the cache (cached from a single peer below the next check point: the
                    // recorded finding of the mutant pass), or something else
                    let poisoned_cache = {
                        let (cp_index, hashes) = sim.c().peers.get_cached_block_filter_hashes();
                        let first = cp_index as u64 * 4 + 1;
                        hashes.iter().enumerate().any(|(i, h)| case.chain.filter_hashes.get((first + i as u64) as usize).map(|t| t != h).unwrap_or(true))
                    };
                    for (oc, v) in oracle::group(bad) {
                        let oc = if oc == "stall" && poisoned_cache { "stall/tampered-cached-filter-hashes".to_owned() } else { oc };
                        report.violation(
                            format!("{}/consistent-liar", oc),
                            format!("[{}] the last {} of 3 peers serve empty filters and a matching hash chain from block {} on (honest check points), quorum {}: {}", liar_case.name, n_liars, from, (outbound + 1) / 2, v[0]),
                            json!({"case": liar_case.name, "liar_from": from, "rng_seed": seed, "all": v.iter().take(6).collect::<Vec<_>>()}),
                        );
                    }
                    old = Some(sim);
                }
            }
            }
        }
        report.count("runs", runs);
        report.count("runs_not_judged_all_peers_banned_or_unreached", not_judged);
        report.count("mutants_that_advanced_the_filtered_height", accepted_changes);
        for (c, n) in by_class {
            report.count(&format!("mutants/{}", c), n);
        }
        if item == 0 {
            report.sample(json!({"case": case.name, "block_filters_messages_in_history": n_msgs}));
        }
    });
    if worker {
        return;
    }
    let r = report.get("runs");
    report.set("evaluations", json!(r));
    report.set("distinct_nontrivial", json!(r));
    report.set("states", json!(report.get("block_filters_messages")));
    report.set("transitions", json!(r));
    report.set("traces_validated_against_impl", json!(r));
    report.set("rule", json!("states = BlockFilters messages of the honest histories (world x script set x batch length x position); one run = the history up to that message, one mutant delivered in its place (with / without the honest twin after it), honest continuation to quiescence on the real client; every run is judged"));
    report.assume("two honest peers on the same chain, check point interval 4, quorum 1; the sender of the mutant is otherwise honest; single-site mutants");
}

#[allow(dead_code)]
pub(crate) fn debug_case() {
    let env = Env::dummy();
    let ws = c03::worlds(&env);
    let (wname, chain) = &ws[0];
    let sets = c03::script_sets(&env, chain.tip_number());
    let (sname, regs) = &sets[1];
    let fork_at = chain.tip_number().saturating_sub(5).max(1);
    let mut fork = chain.fork(fork_at, 99);
    scen::extend_chain(&mut fork, &env.scripts, chain.tip_number(), &[]);
    let getn = |k: &str, d: u64| -> u64 { std::env::var(k).ok().and_then(|x| x.parse().ok()).unwrap_or(d) };
    let target = std::env::var("C06_TARGET").unwrap_or("BlockFilters".into());
    let liar = std::env::var("C06_LIAR").ok().and_then(|x| x.parse().ok());
    let out = getn("C06_OUT", 2) as u32;
    let case = Case {
        name: format!("{}/{}", wname, sname),
        chain: chain.clone(),
        fork,
        regs: regs.clone(),
        batch: getn("C06_BATCH", 3),
        hashes_batch: getn("C06_HB", 2000),
        max_outbound: out,
        n_peers: if out >= 3 { 3 } else { 2 },
        liar_from: liar,
        n_liars: getn("C06_LIARS", 1) as usize,
        rng_seed: getn("C06_SEED", 0),
        ahead: getn("C06_AHEAD", 0),
        grow_from: None,
    };
    let want_class = std::env::var("C06_CLASS").unwrap_or("drop-one-filter-and-hash".into());
    let want_label = std::env::var("C06_LABEL").unwrap_or("#2".into());
    let k = getn("C06_K", 0) as usize;
    let mut sim = new_sim(&env, &case, None);
    sim.record_trace = true;
    if liar.is_none() {
        assert!(run_until(&mut sim, &target, k));
        let hm = sim.queue.pop_front().unwrap();
        let mut muts = if target == "BlockFilters" { mutants(&case, &parse(&hm.data).unwrap(), false) } else { hashes_mutants(&hm.data) };
        for m in crate::verif::mutate::structural(&Proto::Filter, &hm.data) {
            muts.push((format!("structural:{}", m.label.split('[').next().unwrap_or("")), m.label.clone(), m.data));
        }
        let (class, label, data) = muts.iter().find(|(c, l, _)| c == &want_class && (want_label.is_empty() || l == &want_label)).expect("mutant");
        println!("--- mutant {} {} from peer {}", class, label, hm.peer);
        sim.deliver_msg(InFlight { proto: Proto::Filter, peer: hm.peer, data: data.clone(), note: format!("{}[{}]", target, class) });
    }
    let mut r = (0, 0, false);
    for _ in 0..6 {
        r = sim.converge(80);
        let banned: Vec<usize> = sim.bans().iter().map(|(p, _)| p.value()).collect();
        let mut any = false;
        for p in banned {
            if sim.world.peer(p).connected {
                sim.disconnect(p);
                any = true;
            }
        }
        if !any {
            break;
        }
    }
    for l in &sim.trace {
        println!("{}", l);
    }
    println!("bans {:?}", sim.bans());
    println!("converged {:?} min_filtered {}", r, sim.c().storage.get_min_filtered_block_number());
    println!("{}", sim.c().peers.verif_dump(crate::verif::client::now()));
    for b in oracle::judge_index(sim.c(), &case.chain, &case.regs, true) {
        println!("{:?}", b);
    }
}
