//! C13 — cell and transaction queries are exact views of the index.
//!
//! E-grid: stores written by the real `filter_block` from generated blocks (scripts sharing a code
//! hash with args "", 01, 0102, 02; typed cells; several cells per block; spends), the full query
//! grid (search key incl. prefix searches and an unmatched one, lock/type, both orders, limits,
//! every filter kind incl. empty and inverted ranges, with_data, group_by_transaction) against a
//! reference index and the metamorphic relations of the property.

use std::collections::BTreeMap;
use std::sync::Arc;

use ckb_jsonrpc_types::JsonBytes;
use ckb_network::bytes::Bytes;
use ckb_types::{
    core::{ScriptHashType, TransactionView},
    packed::{self, OutPoint, Script},
    prelude::*,
    U256,
};
use serde_json::{json, Value};

use crate::service::{
    BlockFilterRpc, Order, ScriptType as RpcScriptType, SearchKey, SearchKeyFilter,
};
use crate::storage::{extract_raw_data, ScriptStatus, ScriptType, SetScriptsCommand};
use crate::verif::client::Client;
use crate::verif::props::Opts;
use crate::verif::report::Report;
use crate::verif::scen::{self, Env};
use crate::verif::txlib::{build_tx, OutSpec};
use crate::verif::world::{Chain, EpochPlan};

#[derive(Clone, Debug)]
struct RefCell_ {
    lock: Script,
    type_: Option<Script>,
    capacity: u64,
    data: Vec<u8>,
    out_point: OutPoint,
    block: u64,
    tx_index: u32,
    out_index: u32,
}

#[derive(Clone, Debug)]
struct RefTxEntry {
    lock: Script,
    type_: Option<Script>,
    tx_hash: packed::Byte32,
    block: u64,
    tx_index: u32,
    io_index: u32,
    is_input: bool,
}

struct Store {
    client: Client,
    live: Vec<RefCell_>,
    history: Vec<RefTxEntry>,
    tip_number: u64,
    tip_hash: packed::Byte32,
    scripts: Vec<Script>,
    type_script: Script,
}

fn lcg(state: &mut u64) -> u64 {
    *state = state
        .wrapping_mul(6364136223846793005)
        .wrapping_add(1442695040888963407);
    *state >> 33
}

fn build_store(env: &Env, blocks: u64, seed: u64) -> Store {
    let code_hash = env.scripts.a.code_hash();
    let mk = |args: &[u8]| {
        Script::new_builder()
            .code_hash(code_hash.clone())
            .hash_type(ScriptHashType::Data.into())
            .args(Bytes::from(args.to_vec()).pack())
            .build()
    };
    let scripts = vec![mk(&[]), mk(&[1]), mk(&[1, 2]), mk(&[2])];
    let type_script = env.scripts.t.clone();
    let mut chain = Chain::new(
        Arc::clone(&env.consensus),
        EpochPlan::constant(1000, env.consensus.genesis_block().header().compact_target()),
    );
    let client = Client::fresh(scen::default_cfg(), Arc::clone(&env.consensus), &env.template);
    let mut list: Vec<ScriptStatus> = scripts
        .iter()
        .map(|s| ScriptStatus {
            script: s.clone(),
            script_type: ScriptType::Lock,
            block_number: 0,
        })
        .collect();
    list.push(ScriptStatus {
        script: type_script.clone(),
        script_type: ScriptType::Type,
        block_number: 0,
    });
    client
        .storage
        .update_filter_scripts(list, SetScriptsCommand::All);

    let mut rng = seed.wrapping_mul(0x9E3779B97F4A7C15) ^ 0xABCDEF;
    let mut live: Vec<RefCell_> = vec![];
    let mut history: Vec<RefTxEntry> = vec![];
    for n in 1..=blocks {
        // miner lock: one of the scripts (cellbase output is a cell too)
        chain.miner_lock = scripts[(lcg(&mut rng) % 4) as usize].clone();
        let tx_count = 1 + lcg(&mut rng) % 3;
        let mut txs: Vec<TransactionView> = vec![];
        let mut spent_in_block: Vec<OutPoint> = vec![];
        for t in 0..tx_count {
            // spend 0-2 live cells (not ones created in this block, to keep the reference simple
            // about same-block chains, except for one deliberate same-block chain below)
            let mut inputs = vec![];
            let spend = lcg(&mut rng) % 3;
            for _ in 0..spend {
                let candidates: Vec<&RefCell_> = live
                    .iter()
                    .filter(|c| !spent_in_block.contains(&c.out_point))
                    .collect();
                if candidates.is_empty() {
                    break;
                }
                let c = candidates[(lcg(&mut rng) as usize) % candidates.len()];
                inputs.push(c.out_point.clone());
                spent_in_block.push(c.out_point.clone());
            }
            if t == 1 && !txs.is_empty() {
                // same-block chain: spend output 0 of the previous transaction of this block
                let prev = &txs[txs.len() - 1];
                let op = OutPoint::new(prev.hash(), 0);
                if !spent_in_block.contains(&op) {
                    inputs.push(op.clone());
                    spent_in_block.push(op);
                }
            }
            let out_count = 1 + lcg(&mut rng) % 3;
            let mut outputs = vec![];
            for _ in 0..out_count {
                let lock = scripts[(lcg(&mut rng) % 4) as usize].clone();
                let typed = lcg(&mut rng) % 3 == 0;
                let capacity = (100 + 100 * (lcg(&mut rng) % 3)) * 100_000_000;
                let data_len = [0usize, 1, 5][(lcg(&mut rng) % 3) as usize];
                outputs.push(OutSpec {
                    lock,
                    type_: if typed { Some(type_script.clone()) } else { None },
                    capacity,
                    data: vec![0xaa; data_len],
                });
            }
            txs.push(build_tx(&[], &inputs, &outputs, n * 100 + t));
        }
        let block = chain.push(txs).clone();
        // reference replay
        for (tx_index, tx) in block.transactions().into_iter().enumerate() {
            if tx_index > 0 {
                for (io, input) in tx.inputs().into_iter().enumerate() {
                    let op = input.previous_output();
                    if let Some(pos) = live.iter().position(|c| c.out_point == op) {
                        let c = live.remove(pos);
                        history.push(RefTxEntry {
                            lock: c.lock.clone(),
                            type_: c.type_.clone(),
                            tx_hash: tx.hash(),
                            block: n,
                            tx_index: tx_index as u32,
                            io_index: io as u32,
                            is_input: true,
                        });
                    }
                }
            }
            for (oi, (out, data)) in tx.outputs_with_data_iter().enumerate() {
                let cell = RefCell_ {
                    lock: out.lock(),
                    type_: out.type_().to_opt(),
                    capacity: out.capacity().unpack(),
                    data: data.to_vec(),
                    out_point: OutPoint::new(tx.hash(), oi as u32),
                    block: n,
                    tx_index: tx_index as u32,
                    out_index: oi as u32,
                };
                history.push(RefTxEntry {
                    lock: cell.lock.clone(),
                    type_: cell.type_.clone(),
                    tx_hash: tx.hash(),
                    block: n,
                    tx_index: tx_index as u32,
                    io_index: oi as u32,
                    is_input: false,
                });
                live.push(cell);
            }
        }
        client.storage.filter_block(block.data());
    }
    let tip = chain.tip().header();
    client
        .storage
        .update_last_state(&U256::from(123u64), &tip.data(), &[]);
    Store {
        client,
        live,
        history,
        tip_number: tip.number(),
        tip_hash: tip.hash(),
        scripts,
        type_script,
    }
}

fn key_of(script: &Script, block: u64, tx_index: u32, io_index: u32) -> Vec<u8> {
    let mut k = extract_raw_data(script);
    k.extend_from_slice(&block.to_be_bytes());
    k.extend_from_slice(&tx_index.to_be_bytes());
    k.extend_from_slice(&io_index.to_be_bytes());
    k
}

fn hex_u64(v: &Value) -> u64 {
    u64::from_str_radix(v.as_str().unwrap_or("0x0").trim_start_matches("0x"), 16).unwrap_or(0)
}

#[derive(Clone)]
struct FilterSpec {
    name: String,
    script: Option<Script>,
    script_len: Option<[u64; 2]>,
    data_len: Option<[u64; 2]>,
    capacity: Option<[u64; 2]>,
    block: Option<[u64; 2]>,
}

impl FilterSpec {
    fn none() -> FilterSpec {
        FilterSpec {
            name: "none".into(),
            script: None,
            script_len: None,
            data_len: None,
            capacity: None,
            block: None,
        }
    }
    fn to_rpc(&self) -> Option<SearchKeyFilter> {
        if self.name == "none" {
            return None;
        }
        Some(SearchKeyFilter {
            script: self.script.clone().map(Into::into),
            script_len_range: self.script_len.map(|r| [r[0].into(), r[1].into()]),
            output_data_len_range: self.data_len.map(|r| [r[0].into(), r[1].into()]),
            output_capacity_range: self.capacity.map(|r| [r[0].into(), r[1].into()]),
            block_range: self.block.map(|r| [r[0].into(), r[1].into()]),
        })
    }
}

/// Tri-state: Some(true) must be kept, Some(false) must be removed, None either (the upper end of
/// script_len_range, on which code and upstream documentation disagree).
fn cell_passes(c: &RefCell_, f: &FilterSpec, search_lock: bool) -> Option<bool> {
    let other = if search_lock { c.type_.clone() } else { Some(c.lock.clone()) };
    if let Some(fs) = &f.script {
        let prefix = extract_raw_data(fs);
        match &other {
            Some(s) if extract_raw_data(s).starts_with(&prefix) => {}
            _ => return Some(false),
        }
    }
    let mut unsure = false;
    if let Some([r0, r1]) = f.script_len {
        let len = other.as_ref().map(|s| extract_raw_data(s).len() as u64).unwrap_or(0);
        if len < r0 || len > r1 {
            return Some(false);
        }
        if len == r1 {
            unsure = true;
        }
    }
    if let Some([r0, r1]) = f.data_len {
        let len = c.data.len() as u64;
        if len < r0 || len >= r1 {
            return Some(false);
        }
    }
    if let Some([r0, r1]) = f.capacity {
        if c.capacity < r0 || c.capacity >= r1 {
            return Some(false);
        }
    }
    if let Some([r0, r1]) = f.block {
        if c.block < r0 || c.block >= r1 {
            return Some(false);
        }
    }
    if unsure {
        None
    } else {
        Some(true)
    }
}

fn search_key(script: &Script, lock: bool, f: &FilterSpec, with_data: Option<bool>, group: Option<bool>) -> SearchKey {
    SearchKey {
        script: script.clone().into(),
        script_type: if lock { RpcScriptType::Lock } else { RpcScriptType::Type },
        filter: f.to_rpc(),
        with_data,
        group_by_transaction: group,
    }
}

fn order(asc: bool) -> Order {
    if asc {
        Order::Asc
    } else {
        Order::Desc
    }
}

fn paged_cells(store: &Store, script: &Script, lock: bool, f: &FilterSpec, asc: bool, limit: u32, calls: &mut u64) -> Result<Vec<Value>, String> {
    let rpc = store.client.rpc_filter();
    let mut out = vec![];
    let mut cursor: Option<JsonBytes> = None;
    for _ in 0..10_000 {
        *calls += 1;
        let page = rpc
            .get_cells(search_key(script, lock, f, None, None), order(asc), limit.into(), cursor.clone())
            .map_err(|e| format!("{:?}", e))?;
        let n = page.objects.len();
        for c in page.objects {
            out.push(serde_json::to_value(c).unwrap());
        }
        if n == 0 || page.last_cursor.is_empty() {
            break;
        }
        if (n as u32) < limit {
            break;
        }
        cursor = Some(page.last_cursor);
    }
    Ok(out)
}

fn paged_txs(store: &Store, script: &Script, lock: bool, f: &FilterSpec, asc: bool, limit: u32, group: bool, calls: &mut u64) -> Result<Vec<Value>, String> {
    let rpc = store.client.rpc_filter();
    let mut out = vec![];
    let mut cursor: Option<JsonBytes> = None;
    for _ in 0..10_000 {
        *calls += 1;
        let page = rpc
            .get_transactions(search_key(script, lock, f, None, Some(group)), order(asc), limit.into(), cursor.clone())
            .map_err(|e| format!("{:?}", e))?;
        let n = page.objects.len();
        for c in page.objects {
            out.push(serde_json::to_value(c).unwrap());
        }
        if n == 0 || page.last_cursor.is_empty() {
            break;
        }
        if (n as u32) < limit {
            break;
        }
        cursor = Some(page.last_cursor);
    }
    Ok(out)
}

fn cell_id(v: &Value) -> String {
    format!("{}:{}", v["out_point"]["tx_hash"].as_str().unwrap_or("?"), v["out_point"]["index"].as_str().unwrap_or("?"))
}

fn tx_entry_id(v: &Value) -> String {
    format!(
        "{}:{}:{}:{}:{}",
        hex_u64(&v["block_number"]),
        hex_u64(&v["tx_index"]),
        v["transaction"]["hash"].as_str().unwrap_or("?"),
        hex_u64(&v["io_index"]),
        v["io_type"].as_str().unwrap_or("?")
    )
}

pub(crate) fn run(opts: &Opts, report: &mut Report) {
    let thorough = opts.thorough();
    let env = Env::dummy();
    let mut store_specs: Vec<(u64, u64)> = vec![(3, 1), (8, 2), (8, 3), (12, 4), (5, 5), (10, 6), (14, 7), (6, 8)];
    if thorough {
        store_specs.extend([(16, 9), (20, 10), (9, 11), (11, 12), (7, 13), (13, 14), (18, 15), (4, 16), (24, 17), (2, 18), (1, 19), (15, 20), (17, 21), (19, 22), (22, 23), (28, 24)]);
    }
    let limits: Vec<u32> = if thorough { vec![1, 2, 3, 4, 5, 7, 11, 10_000] } else { vec![1, 2, 3, 10_000] };
    let mut calls = 0u64;
    let mut queries = 0u64;
    let mut nonempty = 0u64;
    let mut relations: BTreeMap<&'static str, u64> = BTreeMap::new();
    for (si, (blocks, seed)) in store_specs.iter().enumerate() {
        let store = build_store(&env, *blocks, *seed);
        let nomatch = Script::new_builder()
            .code_hash([0x55u8; 32].pack())
            .hash_type(ScriptHashType::Data.into())
            .build();
        let mut search_scripts: Vec<(String, Script)> = store
            .scripts
            .iter()
            .enumerate()
            .map(|(i, s)| (format!("L{}", i), s.clone()))
            .collect();
        search_scripts.push(("T".into(), store.type_script.clone()));
        search_scripts.push(("nomatch".into(), nomatch.clone()));
        let cap = |x: u64| x * 100_000_000;
        let mut filters: Vec<FilterSpec> = vec![FilterSpec::none()];
        let mut add = |name: &str, f: &dyn Fn(&mut FilterSpec)| {
            let mut spec = FilterSpec::none();
            spec.name = name.to_owned();
            f(&mut spec);
            filters.push(spec);
        };
        add("script=T", &|f| f.script = Some(store.type_script.clone()));
        add("script=L1", &|f| f.script = Some(store.scripts[1].clone()));
        add("script=L0(prefix of all)", &|f| f.script = Some(store.scripts[0].clone()));
        add("script=nomatch", &|f| f.script = Some(nomatch.clone()));
        add("script_len=[0,0]", &|f| f.script_len = Some([0, 0]));
        add("script_len=[0,1000]", &|f| f.script_len = Some([0, 1000]));
        add("script_len=[33,34]", &|f| f.script_len = Some([33, 34]));
        add("script_len=[34,33]", &|f| f.script_len = Some([34, 33]));
        add("data_len=[0,1]", &|f| f.data_len = Some([0, 1]));
        add("data_len=[1,6]", &|f| f.data_len = Some([1, 6]));
        add("data_len=[0,0]", &|f| f.data_len = Some([0, 0]));
        add("data_len=[6,1]", &|f| f.data_len = Some([6, 1]));
        add("capacity=[0,200]", &|f| f.capacity = Some([0, cap(200)]));
        add("capacity=[200,301]", &|f| f.capacity = Some([cap(200), cap(301)]));
        add("capacity=[200,200]", &|f| f.capacity = Some([cap(200), cap(200)]));
        add("capacity=[300,100]", &|f| f.capacity = Some([cap(300), cap(100)]));
        add("block=[0,3]", &|f| f.block = Some([0, 3]));
        add("block=[2,5]", &|f| f.block = Some([2, 5]));
        add("block=[3,3]", &|f| f.block = Some([3, 3]));
        add("block=[5,2]", &|f| f.block = Some([5, 2]));
        add("block=[1,4]+data_len=[0,1]", &|f| {
            f.block = Some([1, 4]);
            f.data_len = Some([0, 1]);
        });
        add("script=T+capacity=[100,201]", &|f| {
            f.script = Some(store.type_script.clone());
            f.capacity = Some([cap(100), cap(201)]);
        });
        for (sname, script) in &search_scripts {
            for lock in [true, false] {
                let prefix = extract_raw_data(script);
                // ---------- reference lists for this search key
                let mut ref_cells: Vec<(Vec<u8>, &RefCell_)> = store
                    .live
                    .iter()
                    .filter_map(|c| {
                        let s = if lock { Some(&c.lock) } else { c.type_.as_ref() };
                        s.filter(|s| extract_raw_data(s).starts_with(&prefix))
                            .map(|s| (key_of(s, c.block, c.tx_index, c.out_index), c))
                    })
                    .collect();
                ref_cells.sort_by(|a, b| a.0.cmp(&b.0));
                let mut ref_hist: Vec<(Vec<u8>, &RefTxEntry)> = store
                    .history
                    .iter()
                    .filter_map(|e| {
                        let s = if lock { Some(&e.lock) } else { e.type_.as_ref() };
                        s.filter(|s| extract_raw_data(s).starts_with(&prefix)).map(|s| {
                            let mut k = key_of(s, e.block, e.tx_index, e.io_index);
                            k.push(if e.is_input { 0 } else { 1 });
                            (k, e)
                        })
                    })
                    .collect();
                ref_hist.sort_by(|a, b| a.0.cmp(&b.0));
                let ctx = |f: &FilterSpec, what: &str| {
                    json!({"store": {"blocks": blocks, "seed": seed, "index": si}, "search": sname, "script_type": if lock {"lock"} else {"type"}, "filter": f.name, "query": what})
                };
                for f in &filters {
                    // ================= get_cells
                    queries += 1;
                    let unpaged = match paged_cells(&store, script, lock, f, true, 10_000, &mut calls) {
                        Ok(v) => v,
                        Err(e) => {
                            report.violation(format!("rpc-error/get_cells/{}", f.name.split('=').next().unwrap_or("")), e, ctx(f, "get_cells"));
                            continue;
                        }
                    };
                    if !unpaged.is_empty() {
                        nonempty += 1;
                    }
                    // reference equality (three-valued at the script_len upper end)
                    {
                        *relations.entry("cells=reference").or_insert(0) += 1;
                        let got: Vec<String> = unpaged.iter().map(cell_id).collect();
                        let must: Vec<String> = ref_cells
                            .iter()
                            .filter(|(_, c)| cell_passes(c, f, lock) == Some(true))
                            .map(|(_, c)| format!("{:#x}:{:#x}", c.out_point.tx_hash(), Unpack::<u32>::unpack(&c.out_point.index())))
                            .collect();
                        let may: Vec<String> = ref_cells
                            .iter()
                            .filter(|(_, c)| cell_passes(c, f, lock) != Some(false))
                            .map(|(_, c)| format!("{:#x}:{:#x}", c.out_point.tx_hash(), Unpack::<u32>::unpack(&c.out_point.index())))
                            .collect();
                        let got_in_may_order: Vec<&String> = may.iter().filter(|m| got.contains(m)).collect();
                        let ok = must.iter().all(|m| got.contains(m))
                            && got.iter().all(|g| may.contains(g))
                            && got_in_may_order.iter().map(|s| s.as_str()).eq(got.iter().map(|s| s.as_str()));
                        if !ok {
                            report.violation(
                                format!("get_cells/differs-from-reference/{}", f.name.split('=').next().unwrap_or("")),
                                format!("get_cells returns {} cells, reference has {} (must) / {} (may)", got.len(), must.len(), may.len()),
                                json!({"ctx": ctx(f, "get_cells"), "got": got, "must": must}),
                            );
                        }
                        // every field of the returned cell is the reference cell's
                        for v in &unpaged {
                            let id = cell_id(v);
                            if let Some((_, c)) = ref_cells.iter().find(|(_, c)| format!("{:#x}:{:#x}", c.out_point.tx_hash(), Unpack::<u32>::unpack(&c.out_point.index())) == id) {
                                let ok = hex_u64(&v["output"]["capacity"]) == c.capacity
                                    && hex_u64(&v["block_number"]) == c.block
                                    && hex_u64(&v["tx_index"]) == c.tx_index as u64
                                    && v["output_data"].as_str().map(|s| (s.len() - 2) / 2) == Some(c.data.len());
                                if !ok {
                                    report.violation("get_cells/wrong-cell-fields".into(), format!("cell {} differs from the chain", id), json!({"ctx": ctx(f, "get_cells"), "cell": v}));
                                }
                            }
                        }
                    }
                    // desc = reverse(asc)
                    {
                        *relations.entry("cells desc=reverse(asc)").or_insert(0) += 1;
                        let desc = paged_cells(&store, script, lock, f, false, 10_000, &mut calls).unwrap_or_default();
                        let a: Vec<String> = unpaged.iter().map(cell_id).collect();
                        let mut d: Vec<String> = desc.iter().map(cell_id).collect();
                        d.reverse();
                        if a != d {
                            report.violation(format!("get_cells/desc-not-reverse/{}", f.name.split('=').next().unwrap_or("")), format!("asc has {} cells, desc {}", a.len(), d.len()), json!({"ctx": ctx(f, "get_cells"), "asc": a, "desc_reversed": d}));
                        }
                    }
                    // paging = unpaged, both orders
                    for asc in [true, false] {
                        for &limit in &limits {
                            if limit == 10_000 {
                                continue;
                            }
                            *relations.entry("cells paged=unpaged").or_insert(0) += 1;
                            let paged = paged_cells(&store, script, lock, f, asc, limit, &mut calls).unwrap_or_default();
                            let mut a: Vec<String> = unpaged.iter().map(cell_id).collect();
                            if !asc {
                                a.reverse();
                            }
                            let p: Vec<String> = paged.iter().map(cell_id).collect();
                            if a != p {
                                report.violation(
                                    format!("get_cells/paging/{}/{}", if asc { "asc" } else { "desc" }, f.name.split('=').next().unwrap_or("")),
                                    format!("following last_cursor with limit {} yields {} cells, unpaged {}", limit, p.len(), a.len()),
                                    json!({"ctx": ctx(f, "get_cells"), "limit": limit, "asc": asc, "paged": p, "unpaged": a}),
                                );
                            }
                        }
                    }
                    // with_data = false removes only the data
                    {
                        *relations.entry("cells with_data").or_insert(0) += 1;
                        calls += 1;
                        let page = store.client.rpc_filter().get_cells(search_key(script, lock, f, Some(false), None), Order::Asc, 10_000u32.into(), None);
                        if let Ok(page) = page {
                            let ids: Vec<String> = page.objects.iter().map(|c| cell_id(&serde_json::to_value(c).unwrap())).collect();
                            let any_data = page.objects.iter().any(|c| c.output_data.is_some());
                            let a: Vec<String> = unpaged.iter().map(cell_id).collect();
                            if ids != a || any_data {
                                report.violation("get_cells/with_data".into(), "with_data=false changes the result set or still returns data".into(), ctx(f, "get_cells"));
                            }
                        }
                    }
                    // capacity = sum of cells + tip
                    {
                        *relations.entry("capacity=sum(cells)").or_insert(0) += 1;
                        calls += 1;
                        match store.client.rpc_filter().get_cells_capacity(search_key(script, lock, f, None, None)) {
                            Ok(cc) => {
                                let v = serde_json::to_value(&cc).unwrap();
                                let sum: u64 = unpaged.iter().map(|c| hex_u64(&c["output"]["capacity"])).sum();
                                let tip_ok = hex_u64(&v["block_number"]) == store.tip_number
                                    && v["block_hash"].as_str() == Some(&format!("{:#x}", store.tip_hash));
                                if hex_u64(&v["capacity"]) != sum || !tip_ok {
                                    report.violation(
                                        format!("get_cells_capacity/{}", if tip_ok { "sum" } else { "tip" }),
                                        format!("capacity {} vs sum of get_cells {} (tip ok: {})", hex_u64(&v["capacity"]), sum, tip_ok),
                                        json!({"ctx": ctx(f, "get_cells_capacity"), "answer": v}),
                                    );
                                }
                            }
                            Err(e) => report.violation("rpc-error/get_cells_capacity".into(), format!("{:?}", e), ctx(f, "get_cells_capacity")),
                        }
                    }

                    // ================= get_transactions (only script / block filters are supported)
                    if f.script_len.is_some() || f.data_len.is_some() || f.capacity.is_some() {
                        continue;
                    }
                    queries += 1;
                    let ungrouped = match paged_txs(&store, script, lock, f, true, 10_000, false, &mut calls) {
                        Ok(v) => v,
                        Err(e) => {
                            report.violation("rpc-error/get_transactions".into(), e, ctx(f, "get_transactions"));
                            continue;
                        }
                    };
                    {
                        *relations.entry("txs=reference").or_insert(0) += 1;
                        let expect: Vec<String> = ref_hist
                            .iter()
                            .filter(|(_, e)| {
                                let other = if lock { e.type_.clone() } else { Some(e.lock.clone()) };
                                let s_ok = match &f.script {
                                    None => true,
                                    Some(fs) => other.as_ref().map(|o| o == fs).unwrap_or(false),
                                };
                                let b_ok = match f.block {
                                    None => true,
                                    Some([r0, r1]) => e.block >= r0 && e.block < r1,
                                };
                                s_ok && b_ok
                            })
                            .map(|(_, e)| format!("{}:{}:{:#x}:{}:{}", e.block, e.tx_index, e.tx_hash, e.io_index, if e.is_input { "input" } else { "output" }))
                            .collect();
                        let got: Vec<String> = ungrouped.iter().map(tx_entry_id).collect();
                        if got != expect {
                            report.violation(
                                format!("get_transactions/differs-from-reference/{}", f.name.split('=').next().unwrap_or("")),
                                format!("get_transactions returns {} entries, reference {}", got.len(), expect.len()),
                                json!({"ctx": ctx(f, "get_transactions"), "got": got, "expected": expect}),
                            );
                        }
                    }
                    {
                        *relations.entry("txs desc=reverse(asc)").or_insert(0) += 1;
                        let desc = paged_txs(&store, script, lock, f, false, 10_000, false, &mut calls).unwrap_or_default();
                        let a: Vec<String> = ungrouped.iter().map(tx_entry_id).collect();
                        let mut d: Vec<String> = desc.iter().map(tx_entry_id).collect();
                        d.reverse();
                        if a != d {
                            report.violation("get_transactions/desc-not-reverse".into(), format!("asc {} entries, desc {}", a.len(), d.len()), json!({"ctx": ctx(f, "get_transactions"), "asc": a, "desc_reversed": d}));
                        }
                    }
                    // grouped = adjacent grouping of ungrouped (both orders), paging for both
                    for asc in [true, false] {
                        let mut base: Vec<&Value> = ungrouped.iter().collect();
                        if !asc {
                            base.reverse();
                        }
                        let mut expect_groups: Vec<(String, Vec<String>)> = vec![];
                        for v in &base {
                            let h = v["transaction"]["hash"].as_str().unwrap_or("?").to_owned();
                            let cell = format!("{}:{}", v["io_type"].as_str().unwrap_or("?"), hex_u64(&v["io_index"]));
                            match expect_groups.last_mut() {
                                Some((lh, cells)) if *lh == h => cells.push(cell),
                                _ => expect_groups.push((h, vec![cell])),
                            }
                        }
                        let groups_of = |vals: &[Value]| -> Vec<(String, Vec<String>)> {
                            vals.iter()
                                .map(|v| {
                                    (
                                        v["transaction"]["hash"].as_str().unwrap_or("?").to_owned(),
                                        v["cells"].as_array().map(|a| a.iter().map(|c| format!("{}:{}", c[0].as_str().unwrap_or("?"), hex_u64(&c[1]))).collect()).unwrap_or_default(),
                                    )
                                })
                                .collect()
                        };
                        *relations.entry("grouped=group(ungrouped)").or_insert(0) += 1;
                        let grouped = paged_txs(&store, script, lock, f, asc, 10_000, true, &mut calls).unwrap_or_default();
                        if groups_of(&grouped) != expect_groups {
                            report.violation(
                                format!("get_transactions/grouping/{}", if asc { "asc" } else { "desc" }),
                                format!("grouped result has {} groups, grouping the ungrouped result gives {}", grouped.len(), expect_groups.len()),
                                json!({"ctx": ctx(f, "get_transactions grouped"), "asc": asc, "got": groups_of(&grouped), "expected": expect_groups}),
                            );
                        }
                        for &limit in &limits {
                            if limit == 10_000 {
                                continue;
                            }
                            *relations.entry("txs paged=unpaged").or_insert(0) += 2;
                            let p = paged_txs(&store, script, lock, f, asc, limit, false, &mut calls).unwrap_or_default();
                            let pe: Vec<String> = p.iter().map(tx_entry_id).collect();
                            let be: Vec<String> = base.iter().map(|v| tx_entry_id(v)).collect();
                            if pe != be {
                                report.violation(
                                    format!("get_transactions/paging/{}", if asc { "asc" } else { "desc" }),
                                    format!("limit {}: paged {} entries, unpaged {}", limit, pe.len(), be.len()),
                                    json!({"ctx": ctx(f, "get_transactions"), "limit": limit, "asc": asc, "paged": pe, "unpaged": be}),
                                );
                            }
                            let pg = paged_txs(&store, script, lock, f, asc, limit, true, &mut calls).unwrap_or_default();
                            if groups_of(&pg) != expect_groups {
                                report.violation(
                                    format!("get_transactions/grouped-paging/{}", if asc { "asc" } else { "desc" }),
                                    format!("limit {}: paged grouped result has {} groups, expected {}", limit, pg.len(), expect_groups.len()),
                                    json!({"ctx": ctx(f, "get_transactions grouped"), "limit": limit, "asc": asc, "got": groups_of(&pg), "expected": expect_groups}),
                                );
                            }
                        }
                    }
                }
            }
        }
        report.sample(json!({"store": {"blocks": blocks, "seed": seed, "live_cells": store.live.len(), "history_entries": store.history.len()}, "query": "get_cells(L1 prefix, lock, asc, limit 2, filter block=[2,5]) paged to exhaustion vs unpaged vs reference"}));
    }
    report.set("states", json!(queries));
    report.set("transitions", json!(calls));
    report.set("traces_validated_against_impl", json!(calls));
    report.set("evaluations", json!(calls));
    report.set("distinct_nontrivial", json!(nonempty));
    report.set("rule", json!("states = (store, search script, script type, filter) query families; transitions = RPC calls (every page of every order/limit/grouping variant); distinct_nontrivial = query families whose unfiltered-order answer is non-empty"));
    report.set("relations_checked", json!(relations));
    report.set("stores", json!(store_specs.len()));
    report.assume("upper end of script_len_range is not constrained (code inclusive, documentation half-open)");
    report.assume("stores are written by the real filter_block from generated blocks; limits listed in bounds");
    report.set("bounds", json!({"limits": limits, "stores(blocks,seed)": store_specs}));
}
