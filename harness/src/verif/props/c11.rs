//! C11 — the per-peer sync state machine follows its diagram for every event order.
//!
//! E-seq/BFS over the event alphabet {connect, disconnect, FIFO delivery of the honest answer,
//! unsolicited SendLastState (same / child / 5 ahead / lighter), duplicate of the last message,
//! replay of the first proof ever sent (stale or unsolicited), REFRESH tick after
//! {0, 1 ms, 8 s, timeout-8 s, timeout+1 ms}, FETCH tick} for 1 (thorough also 2) peers. After
//! every event the observed step (PeerState before -> after, messages the client sent, message
//! received, disconnect calls) is checked against a reference transition relation:
//!  * the variant moved along edges of the documented diagram whose cause (that request sent,
//!    that response received, a copy from another peer proven for the identical header) occurred
//!    in this very event;
//!  * the prove state changed only to the header of the outstanding proof request answered in this
//!    event, to a child of the proven header announced in this event, or by copy;
//!  * an existing prove state is never lost while the peer stays;
//!  * the last state changed only by a SendLastState (or an empty-proof "new tip" answer to an
//!    outstanding request) of this event, and the same last state does not refresh its time stamp;
//!  * a REFRESH tick disconnects exactly the peers with a request or last state older than the
//!    message timeout;
//!  * after a disconnect the peer has no entry and its in-flight fetch is eligible again.

use std::cell::RefCell;
use std::collections::{BTreeMap, BTreeSet};

use ckb_network::PeerIndex;
use ckb_types::{packed, prelude::*};
use serde_json::json;

use crate::protocols::light_client::PeerState;
use crate::verif::bfs::{self, Model};
use crate::verif::client::{self, ClientCfg};
use crate::verif::driver::{InFlight, Sim, World};
use crate::verif::net::Proto;
use crate::verif::props::Opts;
use crate::verif::report::Report;
use crate::verif::scen::{self, Env};
use crate::verif::world::{self, Chain};

const TIMEOUT: u64 = 60_000;
const TICKS: [u64; 6] = [0, 1, 8_000, TIMEOUT - 8_000, TIMEOUT - 7_999, TIMEOUT + 1];

#[derive(Clone, Debug, PartialEq, Eq)]
pub(crate) enum Ev {
    Connect(usize),
    Disconnect(usize),
    Deliver(usize),
    Announce(usize, i64),
    Dup(usize),
    StaleProof(usize),
    Tick(usize),
    FetchTick,
    /// the peer answers an outstanding proof request with "my tip changed": its next block as the
    /// new last header and an empty proof (the client then asks again)
    NewTip(usize),
}

#[derive(Clone, Debug, PartialEq, Eq)]
struct Snap {
    variant: u8,
    last: Option<packed::Byte32>,
    last_ts: Option<u64>,
    prove: Option<packed::Byte32>,
    req: Option<packed::Byte32>,
    when_sent: Option<u64>,
}

const NAMES: [&str; 7] = [
    "Initialized",
    "RequestFirstLastState",
    "OnlyHasLastState",
    "RequestFirstLastStateProof",
    "Ready",
    "RequestNewLastState",
    "RequestNewLastStateProof",
];

fn snap(sim: &Sim, p: usize) -> Option<Snap> {
    let st = sim.c().peers.get_state(&PeerIndex::new(p))?;
    let (variant, when_sent) = match &st {
        PeerState::Initialized => (0, None),
        PeerState::RequestFirstLastState { when_sent } => (1, Some(*when_sent)),
        PeerState::OnlyHasLastState { .. } => (2, None),
        PeerState::RequestFirstLastStateProof { when_sent, .. } => (3, Some(*when_sent)),
        PeerState::Ready { .. } => (4, None),
        PeerState::RequestNewLastState { when_sent, .. } => (5, Some(*when_sent)),
        PeerState::RequestNewLastStateProof { when_sent, .. } => (6, Some(*when_sent)),
    };
    Some(Snap {
        variant,
        last: st.get_last_state().map(|l| l.header().hash()),
        last_ts: st.get_last_state().map(|l| l.update_ts()),
        prove: st.get_prove_state().map(|p| p.get_last_header().header().hash()),
        req: st.get_prove_request().map(|r| r.get_last_header().header().hash()),
        when_sent,
    })
}

#[derive(Clone, Debug, PartialEq, Eq, PartialOrd, Ord)]
enum Cause {
    SentGetLastState,
    SentGetLastStateProof,
    RecvLastState,
    RecvProof,
    Copy,
}

/// (from, to, cause) of the documented diagram (plus the copy shortcut of get_last_state_proof)
const EDGES: [(u8, u8, Cause); 12] = [
    (0, 1, Cause::SentGetLastState),
    (1, 2, Cause::RecvLastState),
    (2, 3, Cause::SentGetLastStateProof),
    (3, 4, Cause::RecvProof),
    (4, 5, Cause::SentGetLastState),
    (5, 4, Cause::RecvLastState),
    (4, 6, Cause::SentGetLastStateProof),
    (6, 4, Cause::RecvProof),
    (2, 4, Cause::Copy),
    (3, 4, Cause::Copy),
    (6, 4, Cause::Copy),
    (4, 4, Cause::Copy),
];

#[derive(Default)]
struct Step {
    /// peer the event was about
    peer: Option<usize>,
    /// (kind, last header hash, parent hash, proof empty) of the message delivered from `peer`
    recv: Option<(String, packed::Byte32, packed::Byte32, bool)>,
    sent: Vec<(usize, String)>,
    disconnect_calls: Vec<usize>,
    banned: Vec<usize>,
    explicit_disconnect: Option<usize>,
    connect: Option<usize>,
    refresh_tick: bool,
    now: u64,
    /// fetch in flight to that peer before the event
    inflight_before: Option<(usize, packed::Byte32)>,
    /// the event delivered the next honest answer out of the peer's queue (not a copy or a replay)
    fifo: bool,
}

#[derive(Default)]
struct Track {
    prev: BTreeMap<usize, Snap>,
    step: Step,
    first_proof: BTreeMap<usize, InFlight>,
    last_delivered: BTreeMap<usize, InFlight>,
    inflight: Option<(usize, packed::Byte32)>,
    sent_seen: usize,
    disc_seen: usize,
    bans_seen: usize,
    connects: u32,
    disconnects: u32,
    announces: u32,
    dups: u32,
    stales: u32,
    ticks: u32,
    fetch_ticks: u32,
    new_tips: u32,
}

pub(crate) struct FsmModel<'a> {
    env: &'a Env,
    main: Chain,
    cfg: ClientCfg,
    n_peers: usize,
    start_proven: bool,
    /// (with start_proven) peer 1 has announced a new last state and the proof request for it is
    /// outstanding (its answer is dropped): the run starts in RequestNewLastStateProof
    start_requested: bool,
    fetch_hash: packed::Byte32,
    track: RefCell<Track>,
    /// distinct observed (variant before -> variant after) steps, for the coverage report
    edges_seen: RefCell<BTreeSet<String>>,
}

impl<'a> FsmModel<'a> {
    fn describe(m: &InFlight) -> Option<(String, packed::Byte32, packed::Byte32, bool)> {
        if m.proto != Proto::LightClient {
            return None;
        }
        let msg = packed::LightClientMessage::from_compatible_slice(&m.data).ok()?;
        match msg.to_enum() {
            packed::LightClientMessageUnion::SendLastState(x) => {
                let h = x.last_header().header();
                Some(("SendLastState".into(), h.calc_header_hash(), h.raw().parent_hash(), false))
            }
            packed::LightClientMessageUnion::SendLastStateProof(x) => {
                let h = x.last_header().header();
                Some(("SendLastStateProof".into(), h.calc_header_hash(), h.raw().parent_hash(), x.proof().is_empty()))
            }
            packed::LightClientMessageUnion::SendBlocksProof(x) => {
                let h = x.last_header().header();
                let empty = x.proof().is_empty() && x.headers().is_empty() && x.missing_block_hashes().is_empty();
                Some(("SendBlocksProof".into(), h.calc_header_hash(), h.raw().parent_hash(), empty))
            }
            packed::LightClientMessageUnion::SendTransactionsProof(x) => {
                let h = x.last_header().header();
                let empty = x.proof().is_empty() && x.filtered_blocks().is_empty() && x.missing_tx_hashes().is_empty();
                Some(("SendTransactionsProof".into(), h.calc_header_hash(), h.raw().parent_hash(), empty))
            }
            other => Some((other.item_name().to_owned(), Default::default(), Default::default(), false)),
        }
    }

    fn deliver(&self, sim: &mut Sim, m: InFlight) {
        {
            let mut t = self.track.borrow_mut();
            t.step.recv = Self::describe(&m);
            t.last_delivered.insert(m.peer, m.clone());
            if t.step.recv.as_ref().map(|r| r.0 == "SendLastStateProof" && !r.3).unwrap_or(false) {
                t.first_proof.entry(m.peer).or_insert_with(|| m.clone());
            }
        }
        sim.deliver_msg(m);
    }
}

impl<'a> Model for FsmModel<'a> {
    type Ev = Ev;

    fn init(&self, old: Option<Sim>) -> Sim {
        let mut world = World::new(vec![self.main.clone()], self.cfg.cp_interval);
        for p in 1..=self.n_peers {
            world.add_peer(p, 0, 14);
        }
        client::set_now(world::BASE_TS + 1_000_000);
        let sim = match old {
            Some(old) => Sim::recycle(old, self.cfg.clone(), world),
            None => scen::new_sim(self.env, self.cfg.clone(), world),
        };
        crate::verif_hooks::rng_reset(11);
        *self.track.borrow_mut() = Track::default();
        let mut sim = sim;
        if self.start_proven {
            for p in 1..=self.n_peers {
                sim.connect(p);
            }
            sim.converge(40);
            if self.start_requested {
                let h = sim.world.peer(1).height + 5;
                sim.set_view(1, 0, h, true);
                sim.deliver_all_fifo(1);
                sim.cm().tick_lc(0);
                sim.pump_out();
                // the answer never arrives
                sim.queue.clear();
            }
            let mut t = self.track.borrow_mut();
            t.sent_seen = sim.sent_log.len();
            t.disc_seen = sim.c().out.disconnects().len();
            t.bans_seen = sim.bans().len();
            for p in 1..=self.n_peers {
                if let Some(s) = snap(&sim, p) {
                    t.prev.insert(p, s);
                }
            }
        }
        // a pending fetch_header, so that a proven idle peer gets a GetBlocksProof at a FETCH tick
        {
            use crate::service::ChainRpc;
            let _ = sim.c().rpc_chain().fetch_header(self.fetch_hash.unpack());
        }
        sim
    }

    fn enabled(&self, sim: &Sim, _hist: &[Ev]) -> Vec<Ev> {
        let t = self.track.borrow();
        let mut v = vec![];
        for p in 1..=self.n_peers {
            let connected = sim.world.peer(p).connected;
            if !connected {
                if t.connects < 2 * self.n_peers as u32 && !sim.bans().iter().any(|(b, _)| b.value() == p) {
                    v.push(Ev::Connect(p));
                }
                continue;
            }
            if sim.queue.iter().any(|m| m.peer == p) {
                v.push(Ev::Deliver(p));
            }
            if t.disconnects < 1 {
                v.push(Ev::Disconnect(p));
            }
            if t.announces < 2 {
                for d in [0i64, 1, 5, -2] {
                    v.push(Ev::Announce(p, d));
                }
            }
            if t.dups < 1 && t.last_delivered.contains_key(&p) {
                v.push(Ev::Dup(p));
            }
            if t.stales < 1 && t.first_proof.contains_key(&p) {
                v.push(Ev::StaleProof(p));
            }
            if t.new_tips < 1 && sim.c().peers.get_state(&PeerIndex::new(p)).map(|s| s.get_prove_request().is_some()).unwrap_or(false) {
                v.push(Ev::NewTip(p));
            }
        }
        if t.ticks < 3 {
            for i in 0..TICKS.len() {
                v.push(Ev::Tick(i));
            }
        }
        if t.fetch_ticks < 1 {
            v.push(Ev::FetchTick);
        }
        v
    }

    fn apply(&self, sim: &mut Sim, ev: &Ev) {
        {
            let mut t = self.track.borrow_mut();
            let inflight = t.inflight.clone();
            t.step = Step { inflight_before: inflight, ..Default::default() };
        }
        match ev {
            Ev::Connect(p) => {
                let mut t = self.track.borrow_mut();
                t.connects += 1;
                t.step.connect = Some(*p);
                t.step.peer = Some(*p);
                drop(t);
                sim.connect(*p);
            }
            Ev::Disconnect(p) => {
                {
                    let mut t = self.track.borrow_mut();
                    t.disconnects += 1;
                    t.step.explicit_disconnect = Some(*p);
                    t.step.peer = Some(*p);
                }
                sim.disconnect(*p);
            }
            Ev::Deliver(p) => {
                self.track.borrow_mut().step.peer = Some(*p);
                self.track.borrow_mut().step.fifo = true;
                if let Some(i) = sim.queue.iter().position(|m| m.peer == *p) {
                    let m = sim.queue.remove(i).unwrap();
                    self.deliver(sim, m);
                }
            }
            Ev::Announce(p, d) => {
                {
                    let mut t = self.track.borrow_mut();
                    t.announces += 1;
                    t.step.peer = Some(*p);
                }
                let h = (sim.world.peer(*p).height as i64 + d).max(1) as u64;
                sim.world.peer_mut(*p).height = h;
                let m = sim.world.view(*p).send_last_state();
                self.deliver(
                    sim,
                    InFlight { proto: Proto::LightClient, peer: *p, data: m.as_bytes(), note: format!("SendLastState({}) [unsolicited]", h) },
                );
            }
            Ev::Dup(p) => {
                let m = {
                    let mut t = self.track.borrow_mut();
                    t.dups += 1;
                    t.step.peer = Some(*p);
                    t.last_delivered.get(p).cloned()
                };
                if let Some(m) = m {
                    self.deliver(sim, m);
                }
            }
            Ev::StaleProof(p) => {
                let m = {
                    let mut t = self.track.borrow_mut();
                    t.stales += 1;
                    t.step.peer = Some(*p);
                    t.first_proof.get(p).cloned()
                };
                if let Some(m) = m {
                    self.deliver(sim, m);
                }
            }
            Ev::Tick(i) => {
                {
                    let mut t = self.track.borrow_mut();
                    t.ticks += 1;
                    t.step.refresh_tick = true;
                }
                sim.advance(TICKS[*i]);
                sim.cm().tick_lc(0);
                sim.pump_out();
            }
            Ev::FetchTick => {
                self.track.borrow_mut().fetch_ticks += 1;
                sim.cm().tick_lc(1);
                sim.pump_out();
            }
            Ev::NewTip(p) => {
                {
                    let mut t = self.track.borrow_mut();
                    t.new_tips += 1;
                    t.step.peer = Some(*p);
                }
                // the answer that was computed for the old tip never arrives
                sim.queue.retain(|m| !(m.peer == *p && scen::lc_kind(&m.data).as_deref() == Some("SendLastStateProof")));
                let h = sim.world.peer(*p).height + 1;
                sim.world.peer_mut(*p).height = h;
                let vh = sim.world.view(*p).chain.vh(h);
                let msg = packed::LightClientMessage::new_builder().set(packed::SendLastStateProof::new_builder().last_header(vh).build()).build();
                self.deliver(sim, InFlight { proto: Proto::LightClient, peer: *p, data: msg.as_bytes(), note: format!("SendLastStateProof(new tip {}, empty)", h) });
            }
        }
        // what the client did during the event
        let mut t = self.track.borrow_mut();
        t.step.now = client::now();
        let sent: Vec<(usize, String)> = sim.sent_log[t.sent_seen..]
            .iter()
            .filter(|s| s.proto == Proto::LightClient)
            .map(|s| (s.peer.value(), scen::lc_kind(&s.data).unwrap_or_default()))
            .collect();
        t.sent_seen = sim.sent_log.len();
        for (p, k) in &sent {
            if k == "GetBlocksProof" {
                t.inflight = Some((*p, self.fetch_hash.clone()));
            }
        }
        t.step.sent = sent;
        let discs = sim.c().out.disconnects();
        t.step.disconnect_calls = discs[t.disc_seen..].iter().map(|(p, _)| p.value()).collect();
        t.disc_seen = discs.len();
        let bans = sim.bans();
        t.step.banned = bans[t.bans_seen..].iter().map(|(p, _)| p.value()).collect();
        t.bans_seen = bans.len();
        let to_drop: BTreeSet<usize> = t.step.disconnect_calls.iter().chain(t.step.banned.iter()).cloned().collect();
        drop(t);
        // the network layer closes the session the client asked to close / banned
        for p in to_drop {
            if sim.world.peer(p).connected {
                sim.disconnect(p);
            }
        }
    }

    fn check(&self, sim: &Sim, _hist: &[Ev]) -> Vec<(String, String)> {
        let mut bad = vec![];
        let mut t = self.track.borrow_mut();
        let step = std::mem::take(&mut t.step);
        let before = t.prev.clone();
        let mut after: BTreeMap<usize, Snap> = BTreeMap::new();
        for p in 1..=self.n_peers {
            if let Some(s) = snap(sim, p) {
                after.insert(p, s);
            }
        }
        for p in 1..=self.n_peers {
            let b = before.get(&p);
            let a = after.get(&p);
            let removed = step.explicit_disconnect == Some(p) || step.disconnect_calls.contains(&p) || step.banned.contains(&p);
            // ---- existence
            match (b, a) {
                (None, Some(_)) if step.connect != Some(p) => bad.push(("peer-appeared-without-connect".into(), format!("peer {} has state {:?} without a connect event", p, a))),
                (Some(_), Some(_)) if removed => bad.push(("disconnected-peer-leaves-state".into(), format!("peer {} was disconnected but still has state {}", p, NAMES[a.unwrap().variant as usize]))),
                (Some(bs), None) if !removed => bad.push(("peer-state-vanished".into(), format!("peer {} ({}) lost its state without a disconnect", p, NAMES[bs.variant as usize]))),
                (None, None) if step.connect == Some(p) && !removed => bad.push(("connected-peer-has-no-state".into(), format!("peer {} connected but has no state", p))),
                _ => {}
            }
            // ---- timeout => disconnect, disconnect call => timeout (REFRESH tick)
            if step.refresh_tick {
                if let Some(bs) = b {
                    let req_timed_out = bs.when_sent.map(|w| step.now > w + TIMEOUT).unwrap_or(false);
                    let stale = bs.last_ts.map(|u| step.now > u + TIMEOUT).unwrap_or(false);
                    let fetch_timed_out = false;
                    let called = step.disconnect_calls.contains(&p);
                    if (req_timed_out || stale) && !called {
                        bad.push((
                            "timeout-without-disconnect".into(),
                            format!("peer {} in {}: request sent {:?} ms ago, last state updated {:?} ms ago, timeout {} ms, but the refresh tick did not disconnect it", p, NAMES[bs.variant as usize], bs.when_sent.map(|w| step.now - w), bs.last_ts.map(|u| step.now - u), TIMEOUT),
                        ));
                    }
                    if called && !(req_timed_out || stale || fetch_timed_out) && step.inflight_before.as_ref().map(|(q, _)| *q != p).unwrap_or(true) {
                        bad.push((
                            "disconnect-without-timeout".into(),
                            format!("peer {} in {} was disconnected by the refresh tick: request age {:?}, last state age {:?}", p, NAMES[bs.variant as usize], bs.when_sent.map(|w| step.now - w), bs.last_ts.map(|u| step.now - u)),
                        ));
                    }
                }
            } else if step.disconnect_calls.contains(&p) {
                bad.push(("disconnect-outside-refresh".into(), format!("peer {} disconnected by the client outside a refresh tick", p)));
            }
            let (bs, as_) = match (b, a) {
                (Some(x), Some(y)) => (x.clone(), y.clone()),
                (None, Some(y)) => (Snap { variant: 0, last: None, last_ts: None, prove: None, req: None, when_sent: None }, y.clone()),
                _ => continue,
            };
            // ---- causes that occurred for this peer in this event
            let mut causes: BTreeSet<Cause> = BTreeSet::new();
            for (q, k) in &step.sent {
                if *q == p && k == "GetLastState" {
                    causes.insert(Cause::SentGetLastState);
                }
                if *q == p && k == "GetLastStateProof" {
                    causes.insert(Cause::SentGetLastStateProof);
                }
            }
            let recv = if step.peer == Some(p) { step.recv.clone() } else { None };
            if let Some((k, _, _, empty)) = &recv {
                // a "new tip" answer (no data, another last header) to a proof request carries a
                // last state as well
                if k == "SendLastState" || ((k == "SendBlocksProof" || k == "SendTransactionsProof" || k == "SendLastStateProof") && *empty) {
                    causes.insert(Cause::RecvLastState);
                }
                if k == "SendLastStateProof" {
                    causes.insert(Cause::RecvProof);
                }
            }
            if let Some(ap) = &as_.prove {
                let other = (1..=self.n_peers).filter(|q| *q != p).any(|q| {
                    before.get(&q).and_then(|s| s.prove.as_ref()) == Some(ap) || after.get(&q).and_then(|s| s.prove.as_ref()) == Some(ap)
                });
                if other && as_.last.as_ref() == Some(ap) {
                    causes.insert(Cause::Copy);
                }
            }
            // ---- a request sent in this event carries its own time (the message timeout of a
            // repeated request starts with the repetition, not with the first one)
            if step.sent.iter().any(|(q, k)| *q == p && (k == "GetLastState" || k == "GetLastStateProof")) {
                if let Some(w) = as_.when_sent {
                    if w != step.now {
                        bad.push((
                            "request-time-not-recorded".into(),
                            format!("peer {} in {}: a request was sent at {} but the state records {} as its sending time (the message timeout would hit {} ms early)", p, NAMES[as_.variant as usize], step.now, w, step.now.saturating_sub(w)),
                        ));
                    }
                }
            }
            self.edges_seen.borrow_mut().insert(format!("{}->{}", NAMES[bs.variant as usize], NAMES[as_.variant as usize]));
            // ---- the variant moved along diagram edges whose cause occurred
            if bs.variant != as_.variant {
                let mut reach: BTreeSet<u8> = BTreeSet::new();
                reach.insert(bs.variant);
                loop {
                    let mut grew = false;
                    for (f, to, c) in EDGES.iter() {
                        if reach.contains(f) && causes.contains(c) && reach.insert(*to) {
                            grew = true;
                        }
                    }
                    if !grew {
                        break;
                    }
                }
                if !reach.contains(&as_.variant) {
                    bad.push((
                        format!("undocumented-transition/{}->{}", NAMES[bs.variant as usize], NAMES[as_.variant as usize]),
                        format!("peer {}: {} -> {} with causes {:?} (sent {:?}, received {:?})", p, NAMES[bs.variant as usize], NAMES[as_.variant as usize], causes, step.sent, recv.as_ref().map(|r| &r.0)),
                    ));
                }
            }
            // ---- the prove state
            if bs.prove.is_some() && as_.prove.is_none() {
                bad.push(("proof-discarded".into(), format!("peer {}: {} -> {} lost its prove state", p, NAMES[bs.variant as usize], NAMES[as_.variant as usize])));
            }
            if as_.prove != bs.prove {
                if let Some(ap) = &as_.prove {
                    let by_request = recv.as_ref().map(|(k, h, _, _)| k == "SendLastStateProof" && h == ap).unwrap_or(false) && bs.req.as_ref() == Some(ap);
                    // RequireRecheck rounds replace the request for the same last state: still "the same last state"
                    let by_child = recv.as_ref().map(|(k, h, parent, _)| k == "SendLastState" && h == ap && Some(parent) == bs.prove.as_ref()).unwrap_or(false);
                    let by_copy = causes.contains(&Cause::Copy);
                    if !(by_request || by_child || by_copy) {
                        bad.push((
                            "proof-accepted-without-matching-request".into(),
                            format!("peer {}: prove state became {:#x} in {} (outstanding request: {:?}, received {:?})", p, ap, NAMES[bs.variant as usize], bs.req.as_ref().map(|h| format!("{:#x}", h)), recv.as_ref().map(|r| (&r.0, format!("{:#x}", r.1)))),
                        ));
                    }
                }
            }
            // ---- a response ends its request: when the honest answer to the outstanding proof
            // request arrives (whatever the peer announced meanwhile), the request does not stay
            // on record - the proof is accepted, or the client asked again in this very event
            // (re-check, new tip); otherwise the answered request would end in the message timeout
            if step.fifo {
                if let Some((k, h, _, empty)) = &recv {
                    if k == "SendLastStateProof" && !*empty && bs.req.as_ref() == Some(h) {
                        let accepted = as_.prove.as_ref() == Some(h);
                        let asked_again = step.sent.iter().any(|(q, k)| *q == p && k == "GetLastStateProof");
                        if !accepted && !asked_again {
                            bad.push((
                                format!("answered-request-stays-outstanding/{}", NAMES[bs.variant as usize]),
                                format!("peer {} in {}: the honest answer to the outstanding proof request for {:#x} was delivered, the peer was neither banned nor asked again, but the proof was not accepted (prove state {:?}, request still {:?}, last state {:?}): the answered request can only end in the message timeout", p, NAMES[bs.variant as usize], h, as_.prove.as_ref().map(|x| format!("{:#x}", x)), as_.req.as_ref().map(|x| format!("{:#x}", x)), as_.last.as_ref().map(|x| format!("{:#x}", x))),
                            ));
                        }
                    }
                }
            }
            // ---- the last state
            if as_.last != bs.last {
                let ok = recv
                    .as_ref()
                    .map(|(k, h, _, empty)| Some(h) == as_.last.as_ref() && (k == "SendLastState" || (k == "SendLastStateProof" && *empty && bs.req.is_some()) || ((k == "SendBlocksProof" || k == "SendTransactionsProof") && *empty)))
                    .unwrap_or(false);
                if !ok {
                    bad.push(("last-state-changed-without-message".into(), format!("peer {}: last state changed {:?} -> {:?} (received {:?})", p, bs.last.as_ref().map(|h| format!("{:#x}", h)), as_.last.as_ref().map(|h| format!("{:#x}", h)), recv.as_ref().map(|r| &r.0))));
                }
            } else if as_.last.is_some() && as_.last_ts != bs.last_ts && bs.last_ts.is_some() {
                bad.push(("same-last-state-refreshed-its-timestamp".into(), format!("peer {}: the unchanged last state got a new update time ({:?} -> {:?})", p, bs.last_ts, as_.last_ts)));
            }
        }
        // ---- a disconnected peer's in-flight fetch is eligible again
        if let Some((q, h)) = &step.inflight_before {
            let gone = step.explicit_disconnect == Some(*q) || step.disconnect_calls.contains(q) || step.banned.contains(q);
            if gone {
                let still_wanted = sim.c().peers.get_header_fetch_info(h).is_some();
                let eligible = sim.c().peers.get_headers_to_fetch().contains(h);
                if still_wanted && !eligible {
                    bad.push(("fetch-lost-with-disconnected-peer".into(), format!("the header fetch in flight to peer {} is neither answered nor eligible for another peer after the disconnect", q)));
                }
                t.inflight = None;
            }
        }
        if sim.c().peers.get_header_fetch_info(&self.fetch_hash).is_none() {
            t.inflight = None;
        }
        t.prev = after;
        bad
    }

    fn fingerprint(&self, sim: &Sim) -> [u8; 32] {
        let mut hasher = ckb_hash::new_blake2b();
        hasher.update(&sim.c().db_hash());
        hasher.update(sim.c().peers.verif_dump(client::now()).as_bytes());
        for m in &sim.queue {
            hasher.update(&(m.peer as u64).to_le_bytes());
            hasher.update(&m.data);
        }
        for p in &sim.world.peers {
            hasher.update(&[p.chain as u8, p.connected as u8]);
            hasher.update(&p.height.to_le_bytes());
        }
        let t = self.track.borrow();
        hasher.update(&[t.connects as u8, t.disconnects as u8, t.announces as u8, t.dups as u8, t.stales as u8, t.ticks as u8, t.fetch_ticks as u8, t.new_tips as u8]);
        for (p, m) in &t.first_proof {
            hasher.update(&[*p as u8]);
            hasher.update(&m.data);
        }
        for (p, m) in &t.last_delivered {
            hasher.update(&[*p as u8]);
            hasher.update(&m.data);
        }
        let mut out = [0u8; 32];
        hasher.finalize(&mut out);
        out
    }
}

fn parse_ev(s: &str) -> Option<Ev> {
    let (name, a) = bfs::parse_call(s);
    Some(match name.as_str() {
        "Connect" => Ev::Connect(*a.first()? as usize),
        "Disconnect" => Ev::Disconnect(*a.first()? as usize),
        "Deliver" => Ev::Deliver(*a.first()? as usize),
        "Announce" => Ev::Announce(*a.first()? as usize, *a.get(1)?),
        "Dup" => Ev::Dup(*a.first()? as usize),
        "StaleProof" => Ev::StaleProof(*a.first()? as usize),
        "Tick" => Ev::Tick(*a.first()? as usize),
        "FetchTick" => Ev::FetchTick,
        "NewTip" => Ev::NewTip(*a.first()? as usize),
        _ => return None,
    })
}

fn make_model<'a>(env: &'a Env, n_peers: usize, start: u8) -> FsmModel<'a> {
    let mut main = Chain::new(std::sync::Arc::clone(&env.consensus), scen::wavy_plan(6));
    scen::extend_chain(&mut main, &env.scripts, 40, &[]);
    let fetch_hash = main.blocks[6].hash();
    FsmModel {
        env,
        main,
        cfg: ClientCfg { last_n: 3, max_outbound: 2, cp_interval: 4, ..Default::default() },
        n_peers,
        start_proven: start >= 1,
        start_requested: start == 2,
        fetch_hash,
        track: RefCell::new(Track::default()),
        edges_seen: RefCell::new(BTreeSet::new()),
    }
}

pub(crate) fn run(opts: &Opts, report: &mut Report) {
    let thorough = opts.thorough();
    // a recorded event list is replayed directly
    if let Some((config, events)) = opts.replay.as_deref().and_then(bfs::read_replay) {
        let env = Env::dummy();
        let n_peers: usize = config.chars().next().and_then(|c| c.to_digit(10)).unwrap_or(1) as usize;
        let start = ["fresh", "proven", "requested"].iter().position(|s| config.ends_with(s)).unwrap_or(0) as u8;
        let m = make_model(&env, n_peers, start);
        let evs: Vec<Ev> = events.iter().filter_map(|e| parse_ev(e)).collect();
        let mut rep = |hist: &[Ev], class: String, detail: String| {
            let last = hist.last().map(|e| format!("{:?}", e).split('(').next().unwrap_or("").to_owned()).unwrap_or_default();
            report.violation(format!("{}/{}", class, last), format!("[{}] after {:?}: {}", config, hist, detail), json!({"config": config, "events": hist.iter().map(|e| format!("{:?}", e)).collect::<Vec<_>>()}));
        };
        bfs::replay_one(&m, &evs, &mut rep);
        return;
    }
    // (peers, start: 0 fresh / 1 proven / 2 proven with an outstanding new proof request, max depth)
    let configs: Vec<(usize, u8, usize)> = if thorough {
        vec![(1, 0, 6), (1, 1, 5), (1, 2, 5), (2, 0, 4), (2, 1, 4), (2, 2, 4)]
    } else {
        vec![(1, 0, 4), (1, 1, 3), (1, 2, 3), (2, 1, 2)]
    };
    const SHARDS: usize = 16;
    let n_items = configs.len() * SHARDS;
    let worker = crate::verif::props::shard::run("C11", opts, report, n_items, 16, |item, report| {
        let env = Env::dummy();
        let (n_peers, start, max_depth) = configs[item / SHARDS];
        let (start_proven, start_requested) = (start >= 1, start == 2);
        let shard = item % SHARDS;
        let mut main = Chain::new(std::sync::Arc::clone(&env.consensus), scen::wavy_plan(6));
        scen::extend_chain(&mut main, &env.scripts, 40, &[]);
        let fetch_hash = main.blocks[6].hash();
        let m = FsmModel {
            env: &env,
            main,
            cfg: ClientCfg { last_n: 3, max_outbound: 2, cp_interval: 4, ..Default::default() },
            n_peers,
            start_proven,
            start_requested,
            fetch_hash,
            track: RefCell::new(Track::default()),
            edges_seen: RefCell::new(BTreeSet::new()),
        };
        let mut st0 = bfs::Stats::default();
        let all_roots = bfs::roots(&m, 2, &mut st0);
        let mine: Vec<Vec<Ev>> = all_roots.iter().enumerate().filter(|(i, _)| i % SHARDS == shard).map(|(_, h)| h.clone()).collect();
        let shallow: Vec<Vec<Ev>> = if shard == 0 {
            let mut v = vec![vec![]];
            v.extend(bfs::roots(&m, 1, &mut st0));
            v
        } else {
            vec![]
        };
        let name = format!("{}peer/{}", n_peers, ["fresh", "proven", "requested"][start as usize]);
        let mut transitions_seen: BTreeSet<String> = BTreeSet::new();
        let stats = {
            let mut rep = |hist: &[Ev], class: String, detail: String| {
                let last = hist.last().map(|e| format!("{:?}", e).split('(').next().unwrap_or("").to_owned()).unwrap_or_default();
                report.violation(
                    format!("{}/{}", class, last),
                    format!("[{}] after {:?}: {}", name, hist, detail),
                    json!({"config": name, "events": hist.iter().map(|e| format!("{:?}", e)).collect::<Vec<_>>()}),
                );
            };
            bfs::search(&m, mine, shallow, max_depth, if thorough { 600_000 } else { 40_000 }, &mut rep)
        };
        let _ = &mut transitions_seen;
        for e in m.edges_seen.borrow().iter() {
            report.count(&format!("step_seen/{}", e), 1);
        }
        report.count("states", stats.states);
        report.count("transitions", stats.transitions);
        report.count("replays", stats.replays + st0.replays);
        report.count("events_applied", stats.applied_events);
        for (d, n) in stats.per_depth.iter().enumerate() {
            report.count(&format!("states_at_depth_{}/{}", d, name), *n);
        }
        if stats.capped {
            report.cap(&format!("{} shard {}: state cap reached at depth {}", name, shard, stats.max_depth));
        }
        if shard == 0 && item == 0 {
            report.sample(json!({"config": name, "example_events": all_roots.iter().take(12).map(|h| format!("{:?}", h)).collect::<Vec<_>>()}));
        }
    });
    if worker {
        return;
    }
    report.set("evaluations", json!(report.get("transitions")));
    report.set("distinct_nontrivial", json!(report.get("states")));
    report.set("traces_validated_against_impl", json!(report.get("replays")));
    report.set("rule", json!("state = event list replayed on the real client (store + peers with exact ages + pending messages + world position + event budgets, fingerprinted); transitions = (state, enabled event) pairs executed; after every event the observed step of every peer is checked against the reference transition relation"));
    report.set("bounds", json!({"depth": if thorough { "6 / 5 / 5 (1 peer: fresh / proven / proof request outstanding), 4 / 4 / 4 (2 peers)" } else { "4 / 3 / 3 (1 peer: fresh / proven / proof request outstanding), 2 (2 peers proven)" }, "budgets": "connect <= 2 per peer, disconnect <= 1, unsolicited last states <= 2, refresh ticks <= 3, duplicate <= 1, stale proof <= 1, fetch tick <= 1", "tick_deltas_ms": TICKS}));
    report.assume("the peer's messages are honest in content (C01 covers forged content); what varies is their order, timing, duplication and staleness");
}
