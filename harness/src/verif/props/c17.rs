//! C17 — concurrent RPC calls and protocol handlers behave like some serial order.
//!
//! E-sched: from one rebuilt pre-state (two scripts registered, first filter batch processed, a
//! matched-blocks record pending with all but its last block downloaded, the next BlockFilters
//! answer, the last SendBlock and the proof of a fork switch in hand) every ordered pair of
//! operations {set_scripts all / partial / delete, BlockFilters processing, SendBlock completing
//! the record, fork rollback through the proof, get_cells, get_transactions, get_cells_capacity}
//! with at least one writer runs on two real threads under the controlled scheduler: serially
//! in both orders (reference) and with up to two (thorough: four) preemptions at every hook point
//! (every storage write, every acquisition of the matched_blocks lock, the reader mid-points).
//! Oracle: no deadlock, no panic; the final state (whole key space, in-memory matched blocks)
//! equals the final state of one of the two serial orders; every reader's answer equals its
//! answer in one of the two serial orders (cells and tip from one point in time).

use std::collections::{BTreeMap, BTreeSet};
use std::sync::Arc;

use ckb_network::{CKBProtocolHandler, PeerIndex};
use ckb_types::{packed, prelude::*};
use serde_json::json;

use crate::service::{BlockFilterRpc, Order, ScriptStatus, ScriptType as RpcScriptType, SearchKey, SetScriptsCommand};
use crate::verif::client::{Client, ClientCfg};
use crate::verif::driver::{InFlight, Sim, World};
use crate::verif::net::{as_nc, Proto};
use crate::verif::props::Opts;
use crate::verif::report::Report;
use crate::verif::scen::{self, Act, Env};
use crate::verif::sched;
use crate::verif::world::Chain;

#[derive(Clone, Copy, Debug, PartialEq, Eq, PartialOrd, Ord)]
enum Op {
    SetAll,
    SetPartial,
    SetDelete,
    Filters,
    Block,
    ForkProof,
    /// SendTransactionsProof for a pending fetch_transaction (add_fetched_tx)
    TxsProof,
    /// the REFRESH timer (finalize_check_points, proof requests)
    Refresh,
    /// the filter protocol's GET_BLOCK_FILTERS timer (recovers a stored matched-blocks record
    /// into the memory, re-requests proofs / bodies, asks for the next filters)
    FilterTick,
    GetCells,
    GetTxs,
    GetCapacity,
}

impl Op {
    fn is_writer(&self) -> bool {
        !matches!(self, Op::GetCells | Op::GetTxs | Op::GetCapacity)
    }
    fn is_reader(&self) -> bool {
        !self.is_writer()
    }
}

const OPS: [Op; 12] = [Op::SetAll, Op::SetPartial, Op::SetDelete, Op::Filters, Op::Block, Op::ForkProof, Op::TxsProof, Op::Refresh, Op::FilterTick, Op::GetCells, Op::GetTxs, Op::GetCapacity];

/// the protocol handler object an operation needs exclusively (one handler runs one call at a time)
fn handler_of(op: Op) -> Option<u8> {
    match op {
        Op::ForkProof | Op::TxsProof | Op::Refresh => Some(0),
        Op::Filters | Op::FilterTick => Some(1),
        Op::Block => Some(2),
        _ => None,
    }
}

struct InHand {
    filters: InFlight,
    block: InFlight,
    proof: InFlight,
    txs_proof: InFlight,
}

fn chains(env: &Env) -> (Chain, Chain) {
    let mut main = Chain::new(Arc::clone(&env.consensus), scen::wavy_plan(6));
    let acts = vec![
        (1, Act::Mine('A')),
        (2, Act::Mine('B')),
        (3, Act::Move('A', 'A')),
        (4, Act::Mine('A')),
        (5, Act::Move('B', 'A')),
        (6, Act::Mine('B')),
        (7, Act::Move('A', 'B')),
        (9, Act::Mine('A')),
        (11, Act::Move('A', 'A')),
        (12, Act::Mine('B')),
    ];
    scen::extend_chain(&mut main, &env.scripts, 13, &acts);
    let mut fork = main.fork(10, 1717);
    scen::extend_chain(&mut fork, &env.scripts, 16, &[(12, Act::Mine('A')), (14, Act::Mine('B'))]);
    (main, fork)
}

/// Rebuilds the pre-state; deterministic.
fn build(env: &Env, main: &Chain, fork: &Chain, old: Option<Sim>, pre: u8) -> Option<(Sim, InHand)> {
    let cfg = ClientCfg { last_n: 3, max_outbound: 2, cp_interval: 4, ..Default::default() };
    let mut world = World::new(vec![main.clone(), fork.clone()], cfg.cp_interval);
    world.add_peer(1, 0, main.tip_number());
    world.filter_batch = 4;
    world.slow_blocks = true;
    crate::verif::client::set_now(crate::verif::world::BASE_TS + 1_000_000);
    let mut sim = match old {
        Some(old) => Sim::recycle(old, cfg, world),
        None => scen::new_sim(env, cfg, world),
    };
    crate::verif_hooks::rng_reset(17);
    scen::register(
        &sim,
        &[
            (env.scripts.a.clone(), crate::storage::ScriptType::Lock, 0),
            (env.scripts.b.clone(), crate::storage::ScriptType::Lock, 0),
        ],
    );
    sim.connect(1);
    if pre == 1 {
        // pre-state 2: everything synced and indexed; only the fork proof is in hand
        sim.world.slow_blocks = false;
        sim.converge(60);
        sim.set_view(1, 1, fork.tip_number(), true);
        for _ in 0..50 {
            let pos = sim.queue.iter().position(|m| m.proto == Proto::LightClient && scen::lc_kind(&m.data).as_deref() == Some("SendLastState"));
            match pos {
                Some(i) => sim.deliver(i),
                None => break,
            }
        }
        sim.cm().tick_lc(0);
        sim.pump_out();
        let pos = sim.queue.iter().position(|m| m.proto == Proto::LightClient && scen::lc_kind(&m.data).as_deref() == Some("SendLastStateProof"))?;
        let proof = sim.queue.remove(pos).unwrap();
        sim.queue.clear();
        sim.held.clear();
        let txs_proof = fetch_in_hand(&mut sim, main)?;
        return Some((sim, InHand { filters: proof.clone(), block: proof.clone(), proof, txs_proof }));
    }
    // until block bodies are held back and the next BlockFilters answer is in flight
    let is_filters = |m: &InFlight| m.proto == Proto::Filter && scen::filter_kind(&m.data).as_deref() == Some("BlockFilters");
    let mut seen_filters = 0;
    let mut idle = 0;
    for _ in 0..400 {
        if sim.queue.is_empty() {
            // the filter protocol is driven by its timers
            sim.advance(10);
            sim.tick_all();
            idle += 1;
            if idle > 5 {
                break;
            }
            continue;
        }
        idle = 0;
        if is_filters(&sim.queue[0]) {
            seen_filters += 1;
            // the second BlockFilters answer (blocks 5..8) stays in hand once bodies are held
            if seen_filters >= 2 && !sim.held.is_empty() {
                break;
            }
        }
        sim.deliver(0);
    }
    if sim.held.is_empty() || sim.queue.is_empty() || !is_filters(&sim.queue[0]) {
        if std::env::var("VERIF_TRACE").is_ok() {
            eprintln!("build: no filters+held state: queue {:?} held {:?}", sim.queue.iter().map(|m| m.note.clone()).collect::<Vec<_>>(), sim.held.iter().map(|m| m.note.clone()).collect::<Vec<_>>());
        }
        return None;
    }
    let filters = sim.queue.pop_front().unwrap();
    // everything else in flight is delivered first (block filter hashes etc.), except bodies
    while !sim.queue.is_empty() && sim.held.len() > 0 {
        // `pump_out` moves held bodies into the queue when it is empty: stop before that
        if sim.queue.len() == 1 && sim.queue[0].proto == Proto::Sync {
            break;
        }
        if sim.queue[0].proto == Proto::Sync {
            break;
        }
        sim.deliver(0);
    }
    // bodies: all but the last one are delivered
    let mut bodies: Vec<InFlight> = sim.held.drain(..).collect();
    bodies.extend(sim.queue.iter().filter(|m| m.proto == Proto::Sync).cloned());
    sim.queue.retain(|m| m.proto != Proto::Sync);
    if bodies.is_empty() {
        if std::env::var("VERIF_TRACE").is_ok() {
            eprintln!("build: no bodies");
        }
        return None;
    }
    let block = bodies.pop().unwrap();
    for b in bodies {
        sim.deliver_msg(b);
    }
    // the peer switches to the heavier fork: its proof answer is kept in hand
    sim.set_view(1, 1, fork.tip_number(), true);
    for _ in 0..50 {
        let pos = sim.queue.iter().position(|m| m.proto == Proto::LightClient && scen::lc_kind(&m.data).as_deref() == Some("SendLastState"));
        match pos {
            Some(i) => sim.deliver(i),
            None => break,
        }
    }
    // the proof request for the new last state is sent by the refresh timer
    sim.cm().tick_lc(0);
    sim.pump_out();
    let pos = sim.queue.iter().position(|m| m.proto == Proto::LightClient && scen::lc_kind(&m.data).as_deref() == Some("SendLastStateProof"));
    if pos.is_none() && std::env::var("VERIF_TRACE").is_ok() {
        eprintln!("build: no proof in flight: queue {:?}", sim.queue.iter().map(|m| m.note.clone()).collect::<Vec<_>>());
    }
    let pos = pos?;
    let proof = sim.queue.remove(pos).unwrap();
    sim.queue.clear();
    sim.held.clear();
    let txs_proof = fetch_in_hand(&mut sim, main)?;
    Some((sim, InHand { filters, block, proof, txs_proof }))
}

/// The user fetches a transaction; the answer of the peer is kept in hand.
fn fetch_in_hand(sim: &mut Sim, main: &Chain) -> Option<InFlight> {
    use crate::service::TransactionRpc;
    // (the cellbase of block 8: no registered script is involved, so it is not indexed)
    let tx = main.blocks[8].transactions().get(0)?.hash();
    let _ = sim.c().rpc_tx().fetch_transaction(tx.unpack());
    sim.cm().tick_lc(1);
    sim.pump_out();
    let pos = sim.queue.iter().position(|m| m.proto == Proto::LightClient && scen::lc_kind(&m.data).as_deref() == Some("SendTransactionsProof"))?;
    let m = sim.queue.remove(pos).unwrap();
    sim.queue.clear();
    Some(m)
}

fn key_of(script: &packed::Script) -> SearchKey {
    SearchKey { script: script.clone().into(), script_type: RpcScriptType::Lock, filter: None, with_data: None, group_by_transaction: None }
}

/// final state: the whole key space + the in-memory matched blocks
fn state_print(c: &Client) -> String {
    let mut s = String::new();
    for (k, v) in c.db_dump() {
        s.push_str(&crate::verif::report::hex(&k));
        s.push('=');
        s.push_str(&crate::verif::report::hex(&v[..v.len().min(48)]));
        s.push('\n');
    }
    // (a handler that panicked under the lock leaves it poisoned)
    let m = c.peers.matched_blocks().read().unwrap_or_else(|e| e.into_inner());
    let mut keys: Vec<String> = m.iter().map(|(k, (proved, b))| format!("{:#x}:{}:{}", k, proved, b.is_some())).collect();
    keys.sort();
    s.push_str(&format!("matched {:?}\n", keys));
    s
}

fn summarize(c: &Client) -> String {
    let scripts: Vec<String> = crate::verif::oracle::rpc_scripts(c).iter().map(|(s, _, n)| format!("{:#x}@{}", s.args().raw_data(), n)).collect();
    format!(
        "tip {} min_filtered {} scripts {:?} stored record {:?} in-memory matched {}",
        c.tip_number(),
        c.storage.get_min_filtered_block_number(),
        scripts,
        c.storage.get_earliest_matched_blocks().map(|(s, n, v)| (s, n, v.len())),
        c.peers.matched_blocks().read().unwrap_or_else(|e| e.into_inner()).len()
    )
}

/// the schedule that is being run (for the hang handler)
static CASE: std::sync::Mutex<String> = std::sync::Mutex::new(String::new());

struct RunResult {
    outcome: sched::Outcome,
    state: String,
    summary: String,
    answers: [Option<String>; 2],
}

/// Runs the pair under one schedule on a freshly rebuilt pre-state.
fn run_schedule(env: &Env, main: &Chain, fork: &Chain, old: &mut Option<Sim>, pre: u8, ops: [Op; 2], first: usize, plan: Vec<(usize, usize)>) -> Option<RunResult> {
    let (mut sim, hand) = build(env, main, fork, old.take(), pre)?;
    let answers: [std::sync::Mutex<Option<String>>; 2] = [std::sync::Mutex::new(None), std::sync::Mutex::new(None)];
    let outcome;
    {
        let client = sim.cm();
        let rpc = [client.rpc_filter(), client.rpc_filter()];
        let scripts = &env.scripts;
        let Client { ref mut lc, ref mut fp, ref mut sp, ref ctx_lc, ref ctx_f, ref ctx_s, .. } = *client;
        let mut lc = Some(lc);
        let mut fp = Some(fp);
        let mut sp = Some(sp);
        let mut make = |i: usize, op: Op| -> Box<dyn FnOnce() + Send + '_> {
            let p = PeerIndex::new(1);
            let answer = &answers[i];
            match op {
                Op::Filters => {
                    let fp = fp.take().expect("one handler per pair");
                    let nc = as_nc(ctx_f);
                    let data = hand.filters.data.clone();
                    Box::new(move || {
                        let rt = ckb_network::tokio::runtime::Builder::new_current_thread().build().unwrap();
                        rt.block_on(fp.received(nc, p, data));
                    })
                }
                Op::FilterTick => {
                    let fp = fp.take().expect("one handler per pair");
                    *fp.last_ask_time.write().unwrap() = None;
                    let nc = as_nc(ctx_f);
                    Box::new(move || {
                        let rt = ckb_network::tokio::runtime::Builder::new_current_thread().build().unwrap();
                        rt.block_on(fp.notify(nc, 0));
                    })
                }
                Op::Block => {
                    let sp = sp.take().expect("one handler per pair");
                    let nc = as_nc(ctx_s);
                    let data = hand.block.data.clone();
                    Box::new(move || {
                        let rt = ckb_network::tokio::runtime::Builder::new_current_thread().build().unwrap();
                        rt.block_on(sp.received(nc, p, data));
                    })
                }
                Op::ForkProof => {
                    let lc = lc.take().expect("one handler per pair");
                    let nc = as_nc(ctx_lc);
                    let data = hand.proof.data.clone();
                    Box::new(move || {
                        let rt = ckb_network::tokio::runtime::Builder::new_current_thread().build().unwrap();
                        rt.block_on(lc.received(nc, p, data));
                    })
                }
                Op::TxsProof => {
                    let lc = lc.take().expect("one handler per pair");
                    let nc = as_nc(ctx_lc);
                    let data = hand.txs_proof.data.clone();
                    Box::new(move || {
                        let rt = ckb_network::tokio::runtime::Builder::new_current_thread().build().unwrap();
                        rt.block_on(lc.received(nc, p, data));
                    })
                }
                Op::Refresh => {
                    let lc = lc.take().expect("one handler per pair");
                    let nc = as_nc(ctx_lc);
                    Box::new(move || {
                        let rt = ckb_network::tokio::runtime::Builder::new_current_thread().build().unwrap();
                        rt.block_on(lc.notify(nc, 0));
                    })
                }
                Op::SetAll | Op::SetPartial | Op::SetDelete => {
                    let rpc = &rpc[i];
                    let (list, cmd) = match op {
                        Op::SetAll => (vec![(scripts.b.clone(), 2u64)], SetScriptsCommand::All),
                        Op::SetPartial => (vec![(scripts.a.clone(), 3u64)], SetScriptsCommand::Partial),
                        _ => (vec![(scripts.b.clone(), 0u64)], SetScriptsCommand::Delete),
                    };
                    Box::new(move || {
                        let list: Vec<ScriptStatus> = list
                            .into_iter()
                            .map(|(s, n)| ScriptStatus { script: s.into(), script_type: RpcScriptType::Lock, block_number: n.into() })
                            .collect();
                        let _ = rpc.set_scripts(list, Some(cmd));
                    })
                }
                Op::GetCells => {
                    let rpc = &rpc[i];
                    Box::new(move || {
                        let r = rpc.get_cells(key_of(&scripts.a), Order::Asc, 100u32.into(), None);
                        *answer.lock().unwrap() = Some(match r {
                            Ok(p) => serde_json::to_string(&p.objects).unwrap_or_default(),
                            Err(e) => format!("error {}", e.message),
                        });
                    })
                }
                Op::GetTxs => {
                    let rpc = &rpc[i];
                    Box::new(move || {
                        let r = rpc.get_transactions(key_of(&scripts.a), Order::Asc, 100u32.into(), None);
                        *answer.lock().unwrap() = Some(match r {
                            Ok(p) => serde_json::to_string(&p.objects).unwrap_or_default(),
                            Err(e) => format!("error {}", e.message),
                        });
                    })
                }
                Op::GetCapacity => {
                    let rpc = &rpc[i];
                    Box::new(move || {
                        let r = rpc.get_cells_capacity(key_of(&scripts.a));
                        *answer.lock().unwrap() = Some(match r {
                            Ok(c) => format!("capacity {} at block {} {:#x}", c.capacity.value(), c.block_number.value(), c.block_hash),
                            Err(e) => format!("error {}", e.message),
                        });
                    })
                }
            }
        };
        let a = make(0, ops[0]);
        let b = make(1, ops[1]);
        outcome = sched::run_pair(first, plan, a, b);
    }
    let state = state_print(sim.c());
    let summary = summarize(sim.c());
    let answers = [answers[0].lock().unwrap().clone(), answers[1].lock().unwrap().clone()];
    let _ = sim.c().out.take_sent();
    *old = Some(sim);
    Some(RunResult { outcome, state, summary, answers })
}

pub(crate) fn run(opts: &Opts, report: &mut Report) {
    let thorough = opts.thorough();
    let depth: usize = std::env::var("C17_DEPTH").ok().and_then(|x| x.parse().ok()).unwrap_or(if thorough { 4 } else { 2 });
    // ordered pairs with at least one writer, not both on the same handler object
    // (pre-state, pair): pre-state 0 = matched-blocks record pending, 1 = fully synced and indexed
    let mut pairs: Vec<(u8, [Op; 2])> = vec![];
    for pre in [0u8, 1] {
        for a in OPS {
            for b in OPS {
                if a >= b {
                    continue;
                }
                if !(a.is_writer() || b.is_writer()) {
                    continue;
                }
                if pre == 1 && [a, b].iter().any(|o| matches!(o, Op::Filters | Op::Block)) {
                    continue;
                }
                if handler_of(a).is_some() && handler_of(a) == handler_of(b) {
                    continue;
                }
                pairs.push((pre, [a, b]));
            }
        }
    }
    let n_items = pairs.len();
    // the scheduler's detection of threads that block at a lock without a lock point is tested on
    // every run (two plain mutexes; once benign: a forced switch, once a real deadlock)
    if crate::verif::props::shard::child_item().is_none() {
        let exe = std::env::current_exe().expect("current exe");
        for (mode, want) in [("sched-benign", 0), ("sched-deadlock", 42)] {
            let st = std::process::Command::new(&exe).arg("smoke").env("SMOKE", mode).stdout(std::process::Stdio::null()).stderr(std::process::Stdio::null()).status();
            let code = st.ok().and_then(|s| s.code());
            if code != Some(want) {
                eprintln!("E-sched self-test `{}`: exit {:?}, expected {} (machinery failure)", mode, code, want);
                std::process::exit(2);
            }
            report.count(&format!("scheduler_selftest_passed/{}", mode), 1);
        }
    }
    let worker = crate::verif::props::shard::run("C17", opts, report, n_items, 16, |item, report| {
        let env = Env::dummy();
        let (main, fork) = chains(&env);
        let (pre, ops) = pairs[item];
        let name = format!("{}{:?}+{:?}", if pre == 0 { "" } else { "synced/" }, ops[0], ops[1]);
        let mut old: Option<Sim> = None;
        // two threads that wait for each other through a lock without a lock point cannot be
        // unwound: the violation is written as this worker's result and the process ends (the
        // remaining schedules of this pair are then not run)
        {
            let name = name.clone();
            let tier = opts.tier.clone();
            let seed = opts.seed;
            sched::set_hang_handler(Some(Arc::new(move |log: &[String]| {
                let mut r = Report::new("C17", &tier, seed);
                let case = CASE.lock().unwrap_or_else(|e| e.into_inner()).clone();
                r.count("pairs_cut_short_by_a_deadlock", 1);
                r.violation(
                    format!("deadlock/{}", name),
                    format!("[{}] {}: the two threads wait for each other (at least one of them at a lock that has no lock point): {:?}", name, case, log),
                    json!({"pair": name, "schedule": case, "log": log}),
                );
                crate::verif::props::shard::write_result_and_exit(&r);
            })));
        }
        // ---- the two serial orders
        let mut serial_states: Vec<String> = vec![];
        let mut serial_summaries: Vec<String> = vec![];
        let mut serial_answers: [BTreeSet<String>; 2] = [BTreeSet::new(), BTreeSet::new()];
        let mut points = [0usize; 2];
        for first in [0usize, 1] {
            let r = match run_schedule(&env, &main, &fork, &mut old, pre, ops, first, vec![]) {
                Some(r) => r,
                None => {
                    report.violation("harness/pre-state-not-reached".into(), format!("[{}]", name), json!({}));
                    return;
                }
            };
            for (i, p) in r.outcome.panics.iter().enumerate() {
                if let Some(p) = p {
                    report.violation(format!("abort/serial/{:?}", ops[i]), format!("[{}] serial order, thread {}: {}", name, i, p), json!({"pair": name}));
                }
            }
            if r.outcome.deadlock {
                report.violation("deadlock/serial".into(), format!("[{}] {:?}", name, r.outcome.log), json!({"pair": name}));
            }
            points[0] = points[0].max(r.outcome.labels[0].len());
            points[1] = points[1].max(r.outcome.labels[1].len());
            serial_states.push(r.state);
            serial_summaries.push(r.summary);
            for i in 0..2 {
                if let Some(a) = &r.answers[i] {
                    serial_answers[i].insert(a.clone());
                }
            }
            report.count("schedules", 1);
        }
        report.count("pairs", 1);
        report.count(&format!("hook_points/{}", name), (points[0] + points[1]) as u64);
        // ---- one preemption at every hook point of the thread that starts (thorough: then one
        // more at every point of the other thread). For a reader/writer pair the schedules in
        // which only the writer is preempted come first: the reader then runs atomically at a
        // write boundary of the writer, which DEFINES the legal answers ("the store as it was at
        // one point in time"); the schedules that preempt the reader are judged against them.
        let reader_thread: Option<usize> = (0..2).find(|i| ops[*i].is_reader());
        let mut plans: Vec<(usize, Vec<(usize, usize)>, bool)> = vec![];
        // all alternating preemption plans that start with thread `first`: the running thread is
        // preempted at one of its hook points, then the other one at one of its own, then the
        // first one again at a LATER point, ... up to `depth` preemptions
        fn alternating(first: usize, points: [usize; 2], depth: usize, out: &mut Vec<Vec<(usize, usize)>>) {
            fn rec(t: usize, from: [usize; 2], points: [usize; 2], left: usize, cur: &mut Vec<(usize, usize)>, out: &mut Vec<Vec<(usize, usize)>>) {
                if left == 0 {
                    return;
                }
                for i in from[t]..points[t] {
                    cur.push((t, i));
                    out.push(cur.clone());
                    let mut f = from;
                    f[t] = i + 1;
                    rec(1 - t, f, points, left - 1, cur, out);
                    cur.pop();
                }
            }
            rec(first, [0, 0], points, depth, &mut vec![], out);
        }
        if let Some(r) = reader_thread {
            let w = 1 - r;
            for i in 0..points[w] {
                plans.push((w, vec![(w, i)], true));
            }
            let mut v = vec![];
            alternating(r, points, depth, &mut v);
            alternating(w, points, depth, &mut v);
            for plan in v {
                if plan.len() == 1 && plan[0].0 == w {
                    continue;
                }
                let first = plan[0].0;
                plans.push((first, plan, false));
            }
        } else {
            for first in [0usize, 1] {
                let mut v = vec![];
                alternating(first, points, depth, &mut v);
                for plan in v {
                    plans.push((first, plan, false));
                }
            }
        }
        let mut overlapped = 0u64;
        let mut distinct_outcomes: BTreeSet<String> = BTreeSet::new();
        for (first, plan, defines_reference) in plans {
            crate::verif::props::shard::journal(&format!("{} first={} plan={:?}", name, first, plan));
            *CASE.lock().unwrap_or_else(|e| e.into_inner()) = format!("first={} preempted at {:?}", first, plan);
            let r = match run_schedule(&env, &main, &fork, &mut old, pre, ops, first, plan.clone()) {
                Some(r) => r,
                None => continue,
            };
            report.count("schedules", 1);
            if std::env::var("VERIF_TRACE").is_ok() {
                eprintln!("{} first={} plan={:?} ref={} answers={:?} labels={:?}", name, first, plan, defines_reference, r.answers.iter().map(|a| a.as_ref().map(|x| x[..x.len().min(60)].to_owned())).collect::<Vec<_>>(), r.outcome.labels);
            }
            if r.outcome.overlapped {
                overlapped += 1;
            }
            report.count("forced_switches_at_locks_without_a_lock_point", r.outcome.forced_switches);
            let sched_json = json!({"pair": name, "first": first, "preemptions": plan, "log": r.outcome.log});
            if r.outcome.deadlock {
                report.violation(format!("deadlock/{}", name), format!("[{}] first={} preempted at {:?}: no thread can run: {:?}", name, first, plan, r.outcome.log), sched_json.clone());
                continue;
            }
            let mut panicked = false;
            for (i, p) in r.outcome.panics.iter().enumerate() {
                if let Some(p) = p {
                    panicked = true;
                    report.violation(format!("abort/{}/{:?}", name, ops[i]), format!("[{}] first={} preempted at {:?}: thread {} ({:?}) panicked: {}", name, first, plan, i, ops[i], p), sched_json.clone());
                }
            }
            if panicked {
                // the store may be anything after an unwound handler
                old = None;
                continue;
            }
            distinct_outcomes.insert(crate::verif::report::hex(&ckb_hash::blake2b_256(r.state.as_bytes())[..8]));
            if !serial_states.contains(&r.state) {
                // (the final state does not depend on where a reader ran)
                report.violation(
                    format!("not-serialisable/{}", name),
                    format!(
                        "[{}] {} starts, preempted at {:?} (hook points {:?}): final state {{{}}} equals neither serial order ({{{}}} / {{{}}})",
                        name,
                        if first == 0 { format!("{:?}", ops[0]) } else { format!("{:?}", ops[1]) },
                        plan,
                        plan.iter().map(|(t, i)| r.outcome.labels[*t].get(*i).cloned().unwrap_or_default()).collect::<Vec<_>>(),
                        r.summary,
                        serial_summaries[0],
                        serial_summaries[1]
                    ),
                    sched_json.clone(),
                );
            }
            for i in 0..2 {
                if ops[i].is_reader() {
                    if let Some(a) = &r.answers[i] {
                        if defines_reference {
                            serial_answers[i].insert(a.clone());
                            continue;
                        }
                        if !serial_answers[i].contains(a) {
                            report.violation(
                                format!("reader-answer-from-no-serial-order/{}", name),
                                format!("[{}] first={} preempted at {:?}: {:?} answered {} ; answers at the write boundaries of the other operation: {:?}", name, first, plan, ops[i], &a[..a.len().min(300)], serial_answers[i].iter().map(|x| x[..x.len().min(200)].to_owned()).collect::<Vec<_>>()),
                                sched_json.clone(),
                            );
                        }
                    }
                }
            }
        }
        report.count(&format!("overlapped_schedules/{}", name), overlapped);
        report.count("overlapped_schedules", overlapped);
        report.count("distinct_final_states", distinct_outcomes.len() as u64);
        if item == 0 {
            report.sample(json!({"pair": name, "hook_points_of_each_thread": points, "serial_final_states": serial_summaries}));
        }
    });
    if worker {
        return;
    }
    let s = report.get("schedules");
    report.set("evaluations", json!(s));
    report.set("distinct_nontrivial", json!(s));
    report.set("states", json!(report.get("distinct_final_states")));
    report.set("transitions", json!(s));
    report.set("traces_validated_against_impl", json!(s));
    report.set("rule", json!("one schedule = the two operations of a pair on two real threads over a rebuilt pre-state, exactly one thread runnable between hook points, preempted at the listed hook points; all schedules with <= 2 (thorough 4) alternating preemptions of every pair; overlapped_schedules = schedules in which one operation ran to completion while the other was parked inside its own"));
    report.set("bounds", json!({"preemptions": depth, "operations": OPS.iter().map(|o| format!("{:?}", o)).collect::<Vec<_>>(), "pairs": "all unordered pairs with at least one writer, each started by either thread"}));
    report.assume("memory orderings are not explored; a thread that blocks at a primitive without a lock point (any other lock, a DashMap shard, RocksDB) is detected by its OS state and the turn is forced over (counted); two threads blocking each other that way are reported as a deadlock; two pre-states");
    let _: BTreeMap<u8, u8> = BTreeMap::new();
}

#[allow(dead_code)]
pub(crate) fn debug_case() {
    let env = Env::dummy();
    let (main, fork) = chains(&env);
    let cfg = ClientCfg { last_n: 3, max_outbound: 2, cp_interval: 4, ..Default::default() };
    let mut world = World::new(vec![main.clone(), fork.clone()], cfg.cp_interval);
    world.add_peer(1, 0, main.tip_number());
    world.filter_batch = 4;
    world.slow_blocks = true;
    crate::verif::client::set_now(crate::verif::world::BASE_TS + 1_000_000);
    let mut sim = scen::new_sim(&env, cfg, world);
    sim.record_trace = true;
    scen::register(&sim, &[(env.scripts.a.clone(), crate::storage::ScriptType::Lock, 0), (env.scripts.b.clone(), crate::storage::ScriptType::Lock, 0)]);
    sim.connect(1);
    for _ in 0..60 {
        if sim.queue.is_empty() {
            sim.advance(10);
            sim.tick_all();
            continue;
        }
        sim.deliver(0);
        println!("queue {:?} held {:?}", sim.queue.iter().map(|m| m.note.clone()).collect::<Vec<_>>(), sim.held.iter().map(|m| m.note.clone()).collect::<Vec<_>>());
    }
    match build(&env, &main, &fork, None, 0) {
        Some((mut sim, h)) => {
            println!("OK {} | {} | {} | {}", h.filters.note, h.block.note, h.proof.note, summarize(sim.c()));
            sim.record_trace = true;
            sim.deliver_msg(h.proof.clone());
            println!("after proof: {} bans {:?}", summarize(sim.c()), sim.bans());
            for l in &sim.trace {
                println!("{}", l);
            }
            println!("{}", sim.c().peers.verif_dump(crate::verif::client::now()));
        }
        None => println!("build failed"),
    }
}
