//! C04 — after a fork switch the index reflects only the new chain and sync resumes.
//!
//! E-seq: trunk + old branch (with indexed activity on the abandoned blocks, incl. spends of
//! trunk cells) + a heavier new branch; last-N in {2,3}, fork depth 1..N+2, growth 1..N+2, script
//! sets incl. the prefix-sharing pair; the peer switches branches either after the client fully
//! synced the old one or (deviation) at every step of that sync (matched blocks pending,
//! partly downloaded, mid filter batch). Depth <= N: at quiescence the RPC answers equal the
//! reference index of the new chain, no stall, no request for an abandoned block keeps
//! repeating. Depth > N: store untouched until the second (from genesis) proof, then the
//! documented `long fork detected` abort and nothing else.

use std::cell::{Cell, RefCell};
use std::sync::Arc;

use ckb_types::{packed, packed::Byte32, prelude::*};
use serde_json::json;

use crate::storage::ScriptType;
use crate::verif::client::ClientCfg;
use crate::verif::driver::{Sim, World};
use crate::verif::explore::{self, Dev, RunOutcome, Scenario};
use crate::verif::oracle::{self, Reg};
use crate::verif::props::c02::index_view;
use crate::verif::props::Opts;
use crate::verif::report::Report;
use crate::verif::scen::{self, Act, Env};
use crate::verif::world::Chain;

pub(crate) struct ForkScenario<'a> {
    env: &'a Env,
    name: String,
    old: Chain,
    new: Chain,
    regs: Vec<Reg>,
    cfg: ClientCfg,
    new_tip: u64,
    switched: Cell<bool>,
    /// index view + stored tip right before the switch
    before_switch: RefCell<Option<String>>,
    explore_switch_moment: bool,
    /// the peer switches to the new branch while the client is down (C08: crash, then restart)
    pub switch_while_down: bool,
    pub filter_batch: u64,
    /// right before the switch the user adds one more script from block 0 (1) or registers the
    /// first script again with its original start number (2) (set_scripts partial): filter syncing
    /// / the script's block number go back while the index is kept, and the fork arrives before
    /// the re-sync has passed the fork point
    pub rewind_before_switch: u8,
    /// block bodies travel slower than everything else: a body that was requested on the old
    /// branch arrives after the proof of the new one
    pub slow_blocks: bool,
    /// after the full sync the peer first grows on the old branch, one announced block at a time
    /// (each a child of the proven tip: the client follows without a proof), up to the old tip;
    /// only then it switches
    pub steps: u64,
    pub stepped: Cell<u64>,
}

fn trusted_store(sim: &Sim) -> String {
    let (td, tip) = sim.c().storage.get_last_state();
    format!(
        "{} tip={:#x} td={:#x} min_filtered={}",
        index_view(sim),
        tip.calc_header_hash(),
        td,
        sim.c().storage.get_min_filtered_block_number()
    )
}

impl<'a> ForkScenario<'a> {
    fn switch(&self, sim: &mut Sim) {
        self.switched.set(true);
        match self.rewind_before_switch {
            1 => self.rewind(sim),
            2 => {
                let r = &self.regs[0];
                explore::user_set_scripts(sim, 1, &[(r.script.clone(), r.is_lock, r.start)]);
                sim.pump_out();
            }
            _ => {}
        }
        *self.before_switch.borrow_mut() = Some(trusted_store(sim));
        sim.set_view(1, 1, self.new_tip, true);
    }
    fn rewind(&self, sim: &mut Sim) {
        explore::user_set_scripts(sim, 1, &[(self.env.scripts.c.clone(), true, 0)]);
        sim.pump_out();
    }
}

impl<'a> Scenario for ForkScenario<'a> {
    fn init(&self, old: Option<Sim>) -> Sim {
        let mut world = World::new(vec![self.old.clone(), self.new.clone()], self.cfg.cp_interval);
        world.add_peer(1, 0, self.old.tip_number() - self.steps);
        self.stepped.set(0);
        world.filter_batch = self.filter_batch;
        world.slow_blocks = self.slow_blocks;
        world.very_slow_blocks = self.slow_blocks;
        crate::verif::client::set_now(crate::verif::world::BASE_TS + 1_000_000);
        let mut sim = match old {
            Some(old) => Sim::recycle(old, self.cfg.clone(), world),
            None => scen::new_sim(self.env, self.cfg.clone(), world),
        };
        crate::verif_hooks::rng_reset(11);
        self.switched.set(false);
        *self.before_switch.borrow_mut() = None;
        let list: Vec<(packed::Script, ScriptType, u64)> = self
            .regs
            .iter()
            .map(|r| (r.script.clone(), if r.is_lock { ScriptType::Lock } else { ScriptType::Type }, r.start))
            .collect();
        scen::register(&sim, &list);
        sim.connect(1);
        sim
    }
    fn user_devs(&self, _sim: &Sim) -> Vec<Dev> {
        if self.explore_switch_moment && !self.switched.get() {
            // 0: the peer switches now; 1: the user rewinds filter syncing (one more script from
            // block 0) and the peer switches in the same moment
            // 2: the user registers the first script again with its original start number (the
            // index is kept, only the script's block number goes back) and the peer switches
            vec![Dev::Custom(0), Dev::Custom(1), Dev::Custom(2)]
        } else {
            vec![]
        }
    }
    fn apply_custom(&self, sim: &mut Sim, dev: &Dev) {
        match dev {
            Dev::Custom(0) => self.switch(sim),
            Dev::Custom(1) => {
                self.rewind(sim);
                self.switch(sim);
            }
            Dev::Custom(2) => {
                let r = &self.regs[0];
                explore::user_set_scripts(sim, 1, &[(r.script.clone(), r.is_lock, r.start)]);
                sim.pump_out();
                self.switch(sim);
            }
            _ => {}
        }
    }
    fn enable_reorder(&self) -> bool {
        false
    }
    fn enable_truncate(&self) -> bool {
        false
    }
    fn enable_restart(&self) -> bool {
        false
    }
    fn enable_tick(&self) -> bool {
        false
    }
    fn max_steps(&self) -> usize {
        600
    }
    fn on_quiescent(&self, sim: &mut Sim) -> bool {
        if self.switched.get() {
            return false;
        }
        if self.stepped.get() < self.steps {
            self.stepped.set(self.stepped.get() + 1);
            let h = self.old.tip_number() - self.steps + self.stepped.get();
            sim.set_view(1, 0, h, true);
            return true;
        }
        self.switch(sim);
        true
    }
    fn on_restart(&self, sim: &mut Sim) {
        if self.switch_while_down && !self.switched.get() {
            // the chain reorganised while the client was down: the peer comes back on the new
            // branch (restart_all connects it with this view)
            self.switched.set(true);
            self.stepped.set(self.steps);
            let p = sim.world.peer_mut(1);
            p.chain = 1;
            p.height = self.new_tip;
        }
    }
}

pub(crate) struct Item {
    last_n: u64,
    depth: u64,
    growth: u64,
    set: usize,
    rewind: u8,
    slow: bool,
    /// the new branch commits the transactions of the abandoned blocks again (one block later than
    /// the old branch did, as a reorganising node's pool would), and spends their outputs later
    recommit: bool,
    /// blocks the old branch grows by single announcements between the full sync and the switch
    steps: u64,
    /// the old branch has no script activity after block 8 (filter batches over its last blocks
    /// match nothing), the new branch has activity in every block
    quiet: bool,
}

fn chains(env: &Env, item: &Item) -> (Chain, Chain, u64) {
    let l = 14u64 + item.steps;
    let fork_at = l - item.depth;
    // old chain: activity around the fork region incl. spends of trunk cells in abandoned blocks
    let mut acts = vec![
        (2, Act::Mine('A')),
        (3, Act::Mine('B')),
        (5, Act::Mine('A')),
        (7, Act::Move('A', 'A')),
        // a typed cell created on the trunk by the second transaction of block 8 ...
        (8, Act::Move('A', 'A')),
        (8, Act::Typed('A')),
        // ... and spent by the first transaction of the (always abandoned) old tip
        (l, Act::Untype('A', 'B')),
    ];
    if item.quiet {
        acts.pop();
    }
    for n in (fork_at.saturating_sub(1)).max(8)..=(if item.quiet { 0 } else { l }) {
        match n % 3 {
            0 => acts.push((n, Act::Mine('A'))),
            1 => acts.push((n, Act::Move('A', 'B'))),
            _ => acts.push((n, Act::Move('B', 'A'))),
        }
    }
    let mut old = Chain::new(Arc::clone(&env.consensus), scen::wavy_plan(6));
    scen::extend_chain(&mut old, &env.scripts, l, &acts);
    // new branch: shares everything up to fork_at, then its own activity
    let mut new = old.fork(fork_at, 4242);
    let new_tip = l + item.growth;
    let mut new_acts: Vec<(u64, Act)> = vec![];
    for n in (fork_at + 1)..=new_tip {
        if n % 2 == 0 || item.quiet {
            new_acts.push((n, Act::Mine('A')));
        } else if n % 5 == 0 {
            new_acts.push((n, Act::Mine('B')));
        }
    }
    if item.recommit {
        // every transaction of an abandoned block whose inputs are still there on the new branch
        // (created on the trunk or by a transaction committed again before) is committed again, one
        // block later than on the old branch; its output is spent in the block after that
        let mut known: std::collections::HashSet<Byte32> = old.blocks[..=fork_at as usize]
            .iter()
            .flat_map(|b| b.transactions().into_iter().map(|t| t.hash()))
            .collect();
        for n in (fork_at + 1)..=l {
            for tx in old.blocks[n as usize].transactions().into_iter().skip(1) {
                let resolvable = tx.input_pts_iter().all(|op| known.contains(&op.tx_hash()));
                if !resolvable || n + 1 > new_tip {
                    continue;
                }
                known.insert(tx.hash());
                let out = tx.output(0).expect("output 0");
                let owner = ['A', 'B', 'C'].into_iter().find(|c| env.scripts.by_name(*c) == out.lock()).unwrap_or('A');
                let cap: u64 = out.capacity().unpack();
                let typed = out.type_().to_opt().is_some();
                new_acts.push((n + 1, Act::Raw(tx.clone(), if typed { 'Z' } else { owner }, cap)));
                if !typed && n + 2 <= new_tip {
                    new_acts.push((n + 2, Act::Move(owner, if owner == 'A' { 'B' } else { 'A' })));
                }
            }
        }
    }
    scen::extend_chain(&mut new, &env.scripts, new_tip, &new_acts);
    (old, new, new_tip)
}

pub(crate) fn run(opts: &Opts, report: &mut Report) {
    let thorough = opts.thorough();
    let mut items: Vec<Item> = vec![];
    for last_n in if thorough { vec![2u64, 3] } else { vec![2u64] } {
        for depth in 1..=(last_n + 2) {
            // (growth last-N+1 .. 2*last-N runs into the known zero-sample rejection with high
            // probability; last-N+6 exercises the sampled path with a lower one)
            for growth in if thorough { (1..=(last_n + 2)).chain([last_n + 6]).collect::<Vec<_>>() } else { vec![1, last_n, last_n + 2, last_n + 6] } {
                for set in if thorough { vec![0usize, 1, 2, 3] } else { vec![1usize, 3] } {
                    items.push(Item { last_n, depth, growth, set, rewind: 0, slow: false, recommit: false, steps: 0, quiet: false });
                    // the old branch grows block by block (child announcements, no proof) before
                    // the switch: the remembered last-N headers come from the child shortcut
                    if depth <= last_n && (thorough || set == 1) && (thorough || growth == 1 || growth == last_n + 2) {
                        for steps in 1..=(last_n + 2) {
                            items.push(Item { last_n, depth, growth, set, rewind: 0, slow: false, recommit: false, steps, quiet: false });
                        }
                    }
                    // an old branch without script activity after block 8 (its last filter batches
                    // match nothing), a new branch with activity in every block
                    if depth <= last_n && (thorough || (set == 1 && growth == last_n + 2)) {
                        items.push(Item { last_n, depth, growth, set, rewind: 0, slow: false, recommit: false, steps: 0, quiet: true });
                    }
                    // the new branch commits the abandoned transactions again (shallow forks)
                    if depth <= last_n && growth >= 2 && (thorough || set == 1) {
                        items.push(Item { last_n, depth, growth, set, rewind: 0, slow: false, recommit: true, steps: 0, quiet: false });
                    }
                    // the same with a set_scripts that rewinds filter syncing right before the
                    // switch after the full sync (shallow forks, one script set; thorough: all)
                    // slow block bodies (shallow forks): bodies requested on the old branch arrive
                    // after the proof of the new one
                    if depth <= last_n && (thorough || set == 1) {
                        items.push(Item { last_n, depth, growth, set, rewind: 0, slow: true, recommit: false, steps: 0, quiet: false });
                    }
                    if depth <= last_n && (thorough || set == 1) {
                        items.push(Item { last_n, depth, growth, set, rewind: 1, slow: false, recommit: false, steps: 0, quiet: false });
                        items.push(Item { last_n, depth, growth, set, rewind: 2, slow: false, recommit: false, steps: 0, quiet: false });
                    }
                }
            }
        }
    }
    let n_items = items.len();
    let worker = crate::verif::props::shard::run("C04", opts, report, n_items, 16, |w, report| {
        let env = Env::dummy();
        let item = &items[w];
        let (old, new, new_tip) = chains(&env, item);
        let s = &env.scripts;
        let regs: Vec<Reg> = match item.set {
            0 => vec![Reg { script: s.a.clone(), is_lock: true, start: 0 }],
            1 => vec![Reg { script: s.a.clone(), is_lock: true, start: 0 }, Reg { script: s.b.clone(), is_lock: true, start: 0 }],
            2 => vec![Reg { script: s.b.clone(), is_lock: true, start: 0 }, Reg { script: s.a.clone(), is_lock: true, start: 6 }],
            _ => vec![Reg { script: s.t.clone(), is_lock: false, start: 0 }, Reg { script: s.b.clone(), is_lock: true, start: 0 }],
        };
        let name = format!("lastN{}/depth{}/growth{}/set{}{}", item.last_n, item.depth, item.growth, item.set, format!("{}{}", ["", "/rewind", "/registered-again"][item.rewind as usize], if item.slow { "/slow-blocks".to_owned() } else if item.recommit { "/recommit".to_owned() } else if item.quiet { "/quiet-old-branch".to_owned() } else if item.steps > 0 { format!("/steps{}", item.steps) } else { String::new() }));
        let sc = ForkScenario {
            env: &env,
            name: name.clone(),
            old,
            new,
            regs: regs.clone(),
            cfg: ClientCfg { last_n: item.last_n, cp_interval: 4, ..Default::default() },
            new_tip,
            switched: Cell::new(false),
            before_switch: RefCell::new(None),
            explore_switch_moment: item.steps == 0, switch_while_down: false, filter_batch: 6,
            rewind_before_switch: item.rewind,
            slow_blocks: item.slow,
            steps: item.steps,
            stepped: Cell::new(0),
        };
        let long_fork = item.depth > item.last_n;
        let mut skipped_banned = 0u64;
        let mut ban_reasons: std::collections::BTreeMap<String, u64> = Default::default();
        let stats = {
            let mut judge = |sim: &Sim, outcome: &RunOutcome, devs: &[(usize, Dev)], extra: &[(String, String, usize)]| {
                let mut bad: Vec<(String, String)> = vec![];
                let fully_synced_before = devs.is_empty();
                if !sim.bans().is_empty() {
                    // the honest peer was banned (C05's subject, e.g. the zero-sample answer):
                    // nothing can be concluded about the fork switch from this run
                    skipped_banned += 1;
                    for (_, reason) in sim.bans() {
                        if std::env::var("C04_SHOW_BANS").is_ok() {
                            eprintln!("BANNED [{}] devs {:?}: {}", name, devs, reason);
                        }
                        let code = reason.split(':').next().unwrap_or("").to_owned();
                        *ban_reasons.entry(code).or_insert(0u64) += 1;
                    }
                    return;
                }
                if long_fork && fully_synced_before {
                    // documented behaviour: nothing changes, then the long-fork abort
                    match &outcome.panic {
                        Some(p) if p.msg.contains("long fork detected") => {
                            let now = trusted_store(sim);
                            if Some(&now) != sc.before_switch.borrow().as_ref() {
                                bad.push(("long-fork/store-changed-before-abort".into(), format!("index / tip changed before the long-fork abort: {} -> {}", sc.before_switch.borrow().clone().unwrap_or_default(), now)));
                            }
                        }
                        Some(p) => bad.push((format!("abort/{}", p.site()), p.describe())),
                        None => {
                            // no abort: then the fork must not have been adopted piecemeal
                            let now = trusted_store(sim);
                            if Some(&now) != sc.before_switch.borrow().as_ref() {
                                bad.push(("long-fork/adopted-without-abort".into(), format!("a fork deeper than last-N was (partly) adopted: {}", now)));
                            } else {
                                bad.push(("long-fork/no-abort-and-stuck".into(), "the client neither stops with the long-fork error nor follows the heavier chain".into()));
                            }
                        }
                    }
                } else if long_fork {
                    // switch in the middle of the initial sync: only "no piecemeal adoption and no
                    // other panic" is decided here
                    if let Some(p) = &outcome.panic {
                        if !p.msg.contains("long fork detected") {
                            bad.push((format!("abort/{}", p.site()), p.describe()));
                        }
                    }
                } else {
                    bad.extend(crate::verif::props::c03::judge_run(sim, outcome, &regs, extra));
                    // leftovers of transaction / header records of abandoned blocks are C16's subject
                    bad.retain(|(k, _)| !k.starts_with("uncommitted-record/TxHash") && !k.starts_with("uncommitted-record/BlockHash") && !k.starts_with("uncommitted-record/BlockNumber"));
                    // nothing the client still waits for may exist only on the abandoned branch
                    let old_only: Vec<packed::Byte32> = sim.world.chains[0]
                        .blocks
                        .iter()
                        .filter(|b| sim.world.chains[1].number_of(&b.hash()).is_none())
                        .map(|b| b.hash())
                        .collect();
                    let mut waiting: Vec<packed::Byte32> = sim
                        .c()
                        .peers
                        .matched_blocks()
                        .read()
                        .map(|m| m.keys().map(|h| h.pack()).collect())
                        .unwrap_or_default();
                    let mut cursor = sim.c().storage.get_earliest_matched_blocks();
                    if let Some((_, _, list)) = cursor.take() {
                        waiting.extend(list.into_iter().map(|(h, _)| h));
                    }
                    if let Some((_, _, list)) = sim.c().storage.get_latest_matched_blocks() {
                        waiting.extend(list.into_iter().map(|(h, _)| h));
                    }
                    if let Some(h) = waiting.iter().find(|h| old_only.contains(h)) {
                        let n = sim.world.chains[0].number_of(h).unwrap_or(0);
                        bad.push(("waits-for-abandoned-block".into(), format!("the client still waits for block {} ({:#x}) of the abandoned branch", n, h)));
                    }
                    // a run that came to rest cleanly has no request left on record (an answer that
                    // arrives after the switch still answers its request)
                    if outcome.converged && sim.queue.is_empty() && sim.held.is_empty() && !bad.iter().any(|(k, _)| k == "stall" || k == "not-caught-up" || k == "waits-for-abandoned-block") {
                        bad.extend(oracle::outstanding_requests(sim));
                    }
                }
                let groups = oracle::group(bad);
                if !groups.is_empty() {
                    let mut v = vec![];
                    let (_s, traced) = explore::run(&sc, None, devs, 0, true, &mut v);
                    // what keeps a run from catching up: a stored matched-blocks record that lists a
                    // block of the abandoned branch (the recorded finding) - or nothing of the kind
                    let cause = crate::verif::props::c08::stall_cause(sim, 1);
                    for (class, items) in groups {
                        let moment = if devs.is_empty() { "after-full-sync" } else { "mid-sync" };
                        let class = if !cause.is_empty() && ["stall", "not-caught-up", "waits-for-abandoned-block"].contains(&class.as_str()) { format!("{}({})", class, cause) } else { class };
                        report.violation(
                            format!("{}/{}", class, moment),
                            format!("[{}] {}", name, items[0]),
                            json!({"scenario": name, "switch": explore::devs_json(devs), "all": items.iter().take(8).collect::<Vec<_>>(), "trace": traced.trace.iter().rev().take(70).rev().collect::<Vec<_>>()}),
                        );
                    }
                }
            };
            let filter = |_p: &[(usize, Dev)], _s: usize, _d: &Dev| true;
            explore::explore(&sc, 1, 400, &filter, &mut judge)
        };
        report.count("states", stats.distinct_final.len() as u64);
        report.count("transitions", stats.steps);
        report.count("runs", stats.runs);
        report.count("runs_not_judged_honest_peer_banned", skipped_banned);
        for (k, v) in &ban_reasons {
            report.count(&format!("not_judged_ban_reason/{}", k), *v);
        }
        report.count(if long_fork { "long_fork_scenarios" } else { "shallow_fork_scenarios" }, 1);
        if w == 0 {
            let mut v = vec![];
            let (_s, out) = explore::run(&sc, None, &[], 0, true, &mut v);
            report.sample(json!({"scenario": name, "trace_tail": out.trace.iter().rev().take(30).rev().collect::<Vec<_>>()}));
        }
    });
    if worker {
        return;
    }
    report.set("traces_validated_against_impl", json!(report.get("runs")));
    report.set("evaluations", json!(report.get("runs")));
    report.set("distinct_nontrivial", json!(report.get("states")));
    report.set("rule", json!("a run = full sync of the old branch (or the first k steps of it), the peer switches to the heavier branch, honest continuation to quiescence; one run per (last-N, depth, growth, script set, switch moment); states = distinct final fingerprints"));
    report.set("bounds", json!({"last_n": if thorough { "2,3" } else { "2" }, "depth": "1..N+2", "growth": if thorough { "1..N+2" } else { "1,N,N+2" }, "switch_moment": "after full sync + every step of the initial sync"}));
}

pub(crate) fn debug_case() {
    let env = Env::dummy();
    let item = Item { last_n: 2, depth: 1, growth: 4, set: 0, rewind: 0, slow: false, recommit: false, steps: 0, quiet: false };
    let (old, new, new_tip) = chains(&env, &item);
    let s = &env.scripts;
    let regs = vec![Reg { script: s.a.clone(), is_lock: true, start: 0 }];
    let sc = ForkScenario {
        env: &env, name: "dbg".into(), old, new, regs, cfg: ClientCfg { last_n: 2, cp_interval: 4, ..Default::default() },
        new_tip, switched: Cell::new(false), before_switch: RefCell::new(None), explore_switch_moment: true, switch_while_down: false, filter_batch: 6, rewind_before_switch: 0, slow_blocks: false, steps: 0, stepped: Cell::new(0),
    };
    let mut sim = sc.init(None);
    sim.record_trace = true;
    let mut idle = 0;
    for step in 0..60 {
        if step == 19 {
            explore::apply_dev(&sc, &mut sim, &Dev::Custom(0));
        } else if !explore::default_step(&mut sim, &mut idle) {
            break;
        }
        let t = std::mem::take(&mut sim.trace);
        for l in t { println!("[{}] {}", step, l); }
        if step >= 19 {
            println!("      bans={:?} tip={} minf={} mem_matched={} db_matched={:?} A={:?}", sim.bans(), sim.c().tip_number(), sim.c().storage.get_min_filtered_block_number(),
                sim.c().peers.matched_blocks().read().unwrap().len(), sim.c().storage.get_earliest_matched_blocks().map(|(a,b,c)| (a,b,c.len())), sim.c().storage.get_filter_scripts().iter().map(|x| x.block_number).collect::<Vec<_>>());
        }
    }
}

/// The fork scenario for other checks (C08): full sync of the old branch, then the switch.
pub(crate) fn scenario<'a>(env: &'a Env, last_n: u64, depth: u64, growth: u64, set: usize) -> (ForkScenario<'a>, Vec<Reg>) {
    scenario_with(env, last_n, depth, growth, set, false)
}

/// `quiet`: no script activity on the old branch after block 8, activity in every new block.
pub(crate) fn scenario_with<'a>(env: &'a Env, last_n: u64, depth: u64, growth: u64, set: usize, quiet: bool) -> (ForkScenario<'a>, Vec<Reg>) {
    let item = Item { last_n, depth, growth, set, rewind: 0, slow: false, recommit: std::env::var("C04_RECOMMIT").is_ok(), steps: 0, quiet };
    let (old, new, new_tip) = chains(env, &item);
    let s = &env.scripts;
    let regs: Vec<Reg> = match set {
        0 => vec![Reg { script: s.a.clone(), is_lock: true, start: 0 }],
        3 => vec![Reg { script: s.t.clone(), is_lock: false, start: 0 }, Reg { script: s.b.clone(), is_lock: true, start: 0 }],
        _ => vec![Reg { script: s.a.clone(), is_lock: true, start: 0 }, Reg { script: s.b.clone(), is_lock: true, start: 0 }],
    };
    (
        ForkScenario {
            env,
            name: format!("lastN{}/depth{}/growth{}/set{}{}", last_n, depth, growth, set, if quiet { "/quiet-old-branch" } else { "" }),
            old,
            new,
            regs: regs.clone(),
            cfg: ClientCfg { last_n, cp_interval: 4, ..Default::default() },
            new_tip,
            switched: Cell::new(false),
            before_switch: RefCell::new(None),
            explore_switch_moment: false,
            switch_while_down: false, filter_batch: 6, rewind_before_switch: 0, slow_blocks: false, steps: 0, stepped: Cell::new(0),
        },
        regs,
    )
}
