//! C02 — only data committed by a proven header is ever indexed or served as fetched.
//!
//! E-mut: in the scenarios where a block proof, block bodies or fetch proofs are pending (V0 and
//! V1 layouts) every single-site mutant of the honest SendBlocksProof / SendBlock /
//! SendTransactionsProof is delivered; after every delivery that changed anything the whole store
//! is checked against the world ("InvCommitted"): every stored transaction, cell / history entry,
//! header and number->hash record is what the proven chain contains at that place. Messages nobody
//! asked for (every honest answer of every other scenario, from the asked and from an unknown
//! peer) must not change the indexed key space at all.

use std::collections::BTreeMap;

use ckb_types::{packed, prelude::*};
use serde_json::json;

use crate::verif::driver::Sim;
use crate::verif::props::c10::{self, build_with, Params, Scn};
use crate::verif::props::sweep::{self, Ctx, Kind, Outcome, SweepOpts};
use crate::verif::props::Opts;
use crate::verif::report::{hex, Report};
use crate::verif::scen::{kind_of, Env};
use crate::verif::world::Chain;

/// Hash over every key/value outside the meta (224) and check point (208) ranges: what the
/// index / fetch RPCs are answered from.
pub(crate) fn index_view(sim: &Sim) -> String {
    let mut hasher = ckb_hash::new_blake2b();
    let mut n = 0u64;
    for (k, v) in sim.c().db_dump() {
        if k[0] >= 208 {
            continue;
        }
        // the genesis transactions never change and are large
        if k[0] == 0 && v.len() > 4096 {
            continue;
        }
        n += 1;
        hasher.update(&(k.len() as u32).to_le_bytes());
        hasher.update(&k);
        hasher.update(&(v.len() as u32).to_le_bytes());
        hasher.update(&v);
    }
    let mut out = [0u8; 32];
    hasher.finalize(&mut out);
    format!("{} records {}", n, hex(&out))
}

fn raw_script(s: &packed::Script) -> Vec<u8> {
    crate::storage::extract_raw_data(s)
}

/// Every record of the store is what `chain` contains at that place. Returns the broken records.
pub(crate) fn inv_committed(sim: &Sim, chain: &Chain) -> Vec<String> {
    let mut bad = vec![];
    let genesis = &chain.blocks[0];
    for (k, v) in sim.c().db_dump() {
        match k[0] {
            0 => {
                let tx_hash = packed::Byte32::from_slice(&k[1..33]).unwrap();
                let n = u64::from_be_bytes(v[0..8].try_into().unwrap());
                let idx = u32::from_be_bytes(v[8..12].try_into().unwrap());
                if genesis.transactions().iter().any(|t| t.hash() == tx_hash) {
                    continue;
                }
                match chain.tx_block.get(&tx_hash) {
                    Some(bn) if *bn == n => {
                        let stored = packed::Transaction::from_slice(&v[12..]);
                        let world = &chain.txs[&tx_hash];
                        match stored {
                            Ok(t) if t.calc_tx_hash() == tx_hash => {
                                if idx != u32::MAX {
                                    let at = chain.blocks[n as usize].transactions().get(idx as usize).map(|t| t.hash());
                                    if at != Some(tx_hash.clone()) {
                                        bad.push(format!("TxHash {:#x}: stored tx_index {} is not its index in block {}", tx_hash, idx, n));
                                    }
                                    if t.as_slice() != world.data().as_slice() {
                                        bad.push(format!("TxHash {:#x}: stored transaction differs from the chain's (witnesses)", tx_hash));
                                    }
                                }
                            }
                            _ => bad.push(format!("TxHash {:#x}: stored bytes are not that transaction", tx_hash)),
                        }
                    }
                    Some(bn) => bad.push(format!("TxHash {:#x}: stored block number {} but the chain has it in {}", tx_hash, n, bn)),
                    None => bad.push(format!("TxHash {:#x}: not a transaction of the proven chain (claimed block {})", tx_hash, n)),
                }
            }
            32 | 64 | 96 | 128 => {
                let is_cell = k[0] == 32 || k[0] == 64;
                let is_lock = k[0] == 32 || k[0] == 96;
                let tail = if is_cell { 16 } else { 17 };
                if k.len() < 1 + 33 + tail {
                    bad.push(format!("index key too short: {}", hex(&k)));
                    continue;
                }
                let body = &k[1..];
                let raw = &body[..body.len() - tail];
                let nums = &body[body.len() - tail..];
                let n = u64::from_be_bytes(nums[0..8].try_into().unwrap());
                let tx_index = u32::from_be_bytes(nums[8..12].try_into().unwrap()) as usize;
                let io_index = u32::from_be_bytes(nums[12..16].try_into().unwrap()) as usize;
                let is_input = !is_cell && nums[16] == 0;
                let what = format!("{} key block={} tx={} io={}{}", if is_cell { "cell" } else { "history" }, n, tx_index, io_index, if is_input { " input" } else { "" });
                let block = match chain.blocks.get(n as usize) {
                    Some(b) => b,
                    None => {
                        bad.push(format!("{}: block number beyond the chain", what));
                        continue;
                    }
                };
                let tx = match block.transactions().get(tx_index).cloned() {
                    Some(t) => t,
                    None => {
                        bad.push(format!("{}: the chain's block has no such transaction", what));
                        continue;
                    }
                };
                if v.len() != 32 || tx.hash().as_slice() != &v[..] {
                    bad.push(format!("{}: value is not the hash of that transaction", what));
                    continue;
                }
                let output = if is_input {
                    tx.inputs().get(io_index).and_then(|i| {
                        let op = i.previous_output();
                        chain.txs.get(&op.tx_hash()).and_then(|p| p.outputs().get(op.index().unpack()))
                    })
                } else {
                    tx.outputs().get(io_index)
                };
                match output {
                    Some(o) => {
                        let script = if is_lock { Some(o.lock()) } else { o.type_().to_opt() };
                        if script.map(|s| raw_script(&s)) != Some(raw.to_vec()) {
                            bad.push(format!("{}: the chain's cell does not carry this script", what));
                        }
                    }
                    None => bad.push(format!("{}: the chain has no such cell", what)),
                }
            }
            160 => {
                let hash = packed::Byte32::from_slice(&k[1..33]).unwrap();
                match chain.number_of(&hash) {
                    Some(n) => {
                        let b = &chain.blocks[n as usize];
                        if v.len() < 208 || &v[..208] != b.header().data().as_slice() {
                            bad.push(format!("BlockHash {:#x}: stored header bytes differ from block {}", hash, n));
                        } else if v.len() > 208 {
                            let ext = b.extension().map(|e| e.as_slice().to_vec()).unwrap_or_default();
                            if v[208..] != ext[..] {
                                bad.push(format!("BlockHash {:#x}: stored extension differs from block {}", hash, n));
                            }
                        }
                    }
                    None => bad.push(format!("BlockHash {:#x}: not a header of the proven chain", hash)),
                }
            }
            192 => {
                let n = u64::from_be_bytes(k[1..9].try_into().unwrap());
                let ok = chain.blocks.get(n as usize).map(|b| b.hash().as_slice() == &v[..]).unwrap_or(false);
                if !ok {
                    bad.push(format!("BlockNumber {}: stored hash is not the proven chain's block", n));
                }
            }
            _ => {}
        }
    }
    bad
}

/// Consistent forgeries of a pending `SendTransactionsProof` (V0 and V1): the header set (and so
/// the MMR proof) stays as it is, the transactions inside the filtered blocks are re-assigned:
/// a requested transaction that no block contains takes the place of a committed one (keeping
/// that one's Merkle path), transactions move between filtered blocks, a filtered block claims
/// an additional requested transaction.
fn tx_proof_forgeries(w: &c10::Worlds, home: &crate::verif::driver::InFlight) -> Vec<crate::verif::mutate::Mutant> {
    use crate::verif::mutate::Mutant;
    let mut out = vec![];
    if home.proto != crate::verif::net::Proto::LightClient {
        return out;
    }
    let msg = match packed::LightClientMessage::from_compatible_slice(&home.data) {
        Ok(m) => m,
        Err(_) => return out,
    };
    let phantom = c10::phantom_tx(w).data();
    let phantom_hash = phantom.calc_tx_hash();
    // (filtered blocks, missing hashes, rebuild)
    type Rebuild = Box<dyn Fn(Vec<packed::FilteredBlock>, Vec<packed::Byte32>) -> ckb_types::bytes::Bytes>;
    let (fbs, missing, rebuild): (Vec<packed::FilteredBlock>, Vec<packed::Byte32>, Rebuild) = match msg.to_enum() {
        packed::LightClientMessageUnion::SendTransactionsProof(m) if m.count_extra_fields() >= 2 => {
            let m2 = packed::SendTransactionsProofV1::new_unchecked(m.as_bytes());
            (
                m.filtered_blocks().into_iter().collect(),
                m.missing_tx_hashes().into_iter().collect(),
                Box::new(move |f, miss| {
                    let c = m2
                        .clone()
                        .as_builder()
                        .filtered_blocks(packed::FilteredBlockVec::new_builder().set(f).build())
                        .missing_tx_hashes(miss.pack())
                        .build();
                    let c = packed::SendTransactionsProof::new_unchecked(c.as_bytes());
                    packed::LightClientMessage::new_builder().set(c).build().as_bytes()
                }),
            )
        }
        packed::LightClientMessageUnion::SendTransactionsProof(m) => {
            let m2 = m.clone();
            (
                m.filtered_blocks().into_iter().collect(),
                m.missing_tx_hashes().into_iter().collect(),
                Box::new(move |f, miss| {
                    let c = m2
                        .clone()
                        .as_builder()
                        .filtered_blocks(packed::FilteredBlockVec::new_builder().set(f).build())
                        .missing_tx_hashes(miss.pack())
                        .build();
                    packed::LightClientMessage::new_builder().set(c).build().as_bytes()
                }),
            )
        }
        _ => return out,
    };
    let with_txs = |fb: &packed::FilteredBlock, txs: Vec<packed::Transaction>| -> packed::FilteredBlock {
        fb.clone()
            .as_builder()
            .transactions(packed::TransactionVec::new_builder().set(txs).build())
            .build()
    };
    let without = |miss: &[packed::Byte32], h: &packed::Byte32| -> Vec<packed::Byte32> { miss.iter().filter(|x| *x != h).cloned().collect() };
    for i in 0..fbs.len() {
        let txs: Vec<packed::Transaction> = fbs[i].transactions().into_iter().collect();
        // the phantom replaces each committed transaction of this filtered block
        for t in 0..txs.len() {
            let mut v = txs.clone();
            let displaced = v[t].calc_tx_hash();
            v[t] = phantom.clone();
            let mut f = fbs.clone();
            f[i] = with_txs(&fbs[i], v);
            let mut miss = without(&missing, &phantom_hash);
            out.push(Mutant { label: format!("forge:phantom-replaces-tx(block#{})", i), data: rebuild(f.clone(), miss.clone()) });
            miss.push(displaced);
            out.push(Mutant { label: format!("forge:phantom-replaces-tx+displaced-missing(block#{})", i), data: rebuild(f, miss) });
        }
        // the phantom is claimed in addition
        for pos in 0..=txs.len() {
            let mut v = txs.clone();
            v.insert(pos, phantom.clone());
            let mut f = fbs.clone();
            f[i] = with_txs(&fbs[i], v);
            out.push(Mutant { label: format!("forge:phantom-added(block#{})", i), data: rebuild(f, without(&missing, &phantom_hash)) });
        }
        // transactions of another filtered block are claimed by this one
        for j in 0..fbs.len() {
            if i == j {
                continue;
            }
            let other: Vec<packed::Transaction> = fbs[j].transactions().into_iter().collect();
            let mut f = fbs.clone();
            f[i] = with_txs(&fbs[i], other.clone());
            f[j] = with_txs(&fbs[j], txs.clone());
            out.push(Mutant { label: format!("forge:transactions-swapped(block#{},block#{})", i, j), data: rebuild(f, missing.clone()) });
            let mut f = fbs.clone();
            let mut both = txs.clone();
            both.extend(other);
            f[i] = with_txs(&fbs[i], both);
            f.remove(j);
            out.push(Mutant { label: format!("forge:transactions-merged(block#{}<-block#{})", i, j), data: rebuild(f, missing.clone()) });
        }
    }
    out
}

/// Forgeries against the binding of an answer to the proven last header: the user asked for a
/// header / a transaction that only a *foreign* chain (same genesis, parted before the proven
/// tip) contains. The forger answers with the foreign chain's headers and MMR proof and the
/// exact proven last header, whose `parent_chain_root` (optionally also extension) it replaced
/// by the foreign chain's. Nothing of the foreign chain may be stored.
fn foreign_root_pass(env: &Env, report: &mut Report, spec: &str, v1: bool) {
    use crate::verif::driver::InFlight;
    use crate::verif::net::Proto;
    use crate::verif::world::{ProofVersion, View};
    use crate::service::{ChainRpc, TransactionRpc};
    use ckb_types::H256;
    let params = Params { fork_at: 5, fork_tip: 16, proof_v1: v1, ..Params::default() };
    let w = c10::worlds_with(env, &params);
    let h = params.h1;
    let version = if v1 { ProofVersion::V1 } else { ProofVersion::V0 };
    let foreign_header = w.fork.blocks[8].hash();
    // a transaction that only the foreign chain contains (cellbases of equal number and miner are
    // the same transaction on both chains)
    let foreign_tx = match w.fork.blocks[(params.fork_at as usize + 1)..(h as usize)]
        .iter()
        .flat_map(|b| b.transactions())
        .map(|t| t.hash())
        .find(|t| !w.main.tx_block.contains_key(t))
    {
        Some(t) => t,
        None => {
            report.violation("vacuous/no-foreign-transaction".to_owned(), "the foreign chain has no transaction of its own below the proven tip".to_owned(), json!({}));
            return;
        }
    };
    let mut old: Option<Sim> = None;
    // (what is asked, variant of the forged last header)
    for ask in ["header", "transaction"] {
        for variant in ["honest-answer", "foreign-root", "foreign-root+extension", "foreign-last-header"] {
            let (mut sim, _) = match c10::try_build_with(env, &w, &params, Scn::Ready, old.take()) {
                Ok(r) => r,
                Err(s) => {
                    old = Some(s);
                    continue;
                }
            };
            let fh: H256 = foreign_header.unpack();
            let ft: H256 = foreign_tx.unpack();
            if ask == "header" {
                let _ = sim.c().rpc_chain().fetch_header(fh.clone());
            } else {
                let _ = sim.c().rpc_tx().fetch_transaction(ft.clone());
            }
            sim.cm().tick_lc(1);
            sim.pump_out();
            // the request the client sent
            let req = sim.sent_log.iter().rev().find_map(|s| {
                if s.proto != Proto::LightClient {
                    return None;
                }
                let m = packed::LightClientMessage::from_slice(&s.data).ok()?;
                match m.to_enum() {
                    packed::LightClientMessageUnion::GetBlocksProof(_) if ask == "header" => Some(m),
                    packed::LightClientMessageUnion::GetTransactionsProof(_) if ask == "transaction" => Some(m),
                    _ => None,
                }
            });
            let req = match req {
                Some(r) => r,
                None => {
                    report.count("foreign_root/request_not_sent", 1);
                    old = Some(sim);
                    continue;
                }
            };
            let fork_view = View::new(&w.fork, h);
            let fork_last = w.fork.blocks[h as usize].hash();
            let main_vh = w.main.vh(h);
            let fork_vh = w.fork.vh(h);
            let last_header = match variant {
                "foreign-root" => main_vh.clone().as_builder().parent_chain_root(fork_vh.parent_chain_root()).build(),
                "foreign-root+extension" => main_vh.clone().as_builder().parent_chain_root(fork_vh.parent_chain_root()).extension(fork_vh.extension()).build(),
                _ => fork_vh.clone(),
            };
            let data = if variant == "honest-answer" {
                None
            } else {
                Some(match req.to_enum() {
                    packed::LightClientMessageUnion::GetBlocksProof(r) => {
                        let r2 = r.as_builder().last_hash(fork_last.clone()).build();
                        let resp = fork_view.send_blocks_proof(&r2, version);
                        match resp.to_enum() {
                            packed::LightClientMessageUnion::SendBlocksProof(m) if m.count_extra_fields() >= 2 => {
                                let m1 = packed::SendBlocksProofV1::new_unchecked(m.as_bytes()).as_builder().last_header(last_header).build();
                                packed::LightClientMessage::new_builder().set(packed::SendBlocksProof::new_unchecked(m1.as_bytes())).build().as_bytes()
                            }
                            packed::LightClientMessageUnion::SendBlocksProof(m) => packed::LightClientMessage::new_builder().set(m.as_builder().last_header(last_header).build()).build().as_bytes(),
                            _ => unreachable!(),
                        }
                    }
                    packed::LightClientMessageUnion::GetTransactionsProof(r) => {
                        let r2 = r.as_builder().last_hash(fork_last.clone()).build();
                        let resp = fork_view.send_transactions_proof(&r2, version);
                        match resp.to_enum() {
                            packed::LightClientMessageUnion::SendTransactionsProof(m) if m.count_extra_fields() >= 2 => {
                                let m1 = packed::SendTransactionsProofV1::new_unchecked(m.as_bytes()).as_builder().last_header(last_header).build();
                                packed::LightClientMessage::new_builder().set(packed::SendTransactionsProof::new_unchecked(m1.as_bytes())).build().as_bytes()
                            }
                            packed::LightClientMessageUnion::SendTransactionsProof(m) => packed::LightClientMessage::new_builder().set(m.as_builder().last_header(last_header).build()).build().as_bytes(),
                            _ => unreachable!(),
                        }
                    }
                    _ => unreachable!(),
                })
            };
            let r = crate::verif::props::panics::catch(|| match data {
                Some(d) => {
                    sim.queue.clear();
                    sim.deliver_msg(InFlight { proto: Proto::LightClient, peer: 1, data: d, note: format!("forged answer ({})", variant) });
                }
                None => {
                    let _ = sim.deliver_all_fifo(10);
                }
            });
            report.count("transitions", 1);
            report.count(&format!("foreign_root/{}", variant), 1);
            if let Err(p) = r {
                report.violation(format!("abort/{}", p.site()), format!("{} [foreign chain root, {} / {}]", p.describe(), ask, variant), json!({"scenario": "foreign-root", "ask": ask, "variant": variant, "spec": spec}));
                continue;
            }
            let mut bad = inv_committed(&sim, &w.main);
            if ask == "header" {
                if let Ok(st) = sim.c().rpc_chain().fetch_header(fh.clone()) {
                    if matches!(st, crate::service::FetchStatus::Fetched { .. }) {
                        bad.push("fetch_header serves a header of the foreign chain as fetched".to_owned());
                    }
                }
            } else if let Ok(st) = sim.c().rpc_tx().fetch_transaction(ft.clone()) {
                if matches!(st, crate::service::FetchStatus::Fetched { .. }) {
                    bad.push("fetch_transaction serves a transaction of the foreign chain as fetched".to_owned());
                }
            }
            if !bad.is_empty() {
                report.violation(
                    format!("uncommitted-data-stored/foreign-chain-root/{}/{}", ask, variant),
                    format!("an answer proving a {} of a foreign chain against the proven last header with a replaced chain root ({}) was accepted: {}", ask, variant, bad.join("; ")),
                    json!({"scenario": "foreign-root", "ask": ask, "variant": variant, "spec": spec, "v1": v1, "bad": bad}),
                );
            }
            old = Some(sim);
        }
    }
}

/// A peer that answers with the right (proven) header and another body is banned - and must leave
/// nothing behind. Two honest-looking peers serve a sync in which several matched blocks are
/// downloaded at once; the k-th SendBlock is replaced by a forgery (same header, a body with one
/// more / one other / one transaction less, or the body of another matched block); the sender is
/// disconnected if it gets banned and the sync runs on to quiescence with the remaining peer.
/// Afterwards the store may hold only what the proven chain contains, the index must be complete
/// (reference index), and no forged transaction may be reported as committed.
fn banned_then_continue_pass(env: &Env, report: &mut Report, spec: &str, slow_blocks: bool, after_honest: u8) {
    use crate::service::TransactionRpc;
    use crate::verif::driver::{InFlight, World};
    use crate::verif::oracle;
    use crate::verif::props::c03;
    use crate::verif::scen;
    let ws = c03::worlds(env);
    let (wname, chain) = &ws[0];
    let sets = c03::script_sets(env, chain.tip_number());
    let (sname, regs) = &sets[1];
    let cfg = crate::verif::client::ClientCfg { last_n: 3, max_outbound: 2, cp_interval: 4, ..Default::default() };
    let new_sim = |old: Option<Sim>| -> Sim {
        let mut world = World::new(vec![chain.clone()], cfg.cp_interval);
        world.add_peer(1, 0, chain.tip_number());
        world.add_peer(2, 0, chain.tip_number());
        world.filter_batch = 1000;
        world.slow_blocks = slow_blocks;
        crate::verif::client::set_now(crate::verif::world::BASE_TS + 1_000_000);
        let mut sim = match old {
            Some(o) => Sim::recycle(o, cfg.clone(), world),
            None => scen::new_sim(env, cfg.clone(), world),
        };
        crate::verif_hooks::rng_reset(202);
        let list: Vec<_> = regs.iter().map(|r| (r.script.clone(), if r.is_lock { crate::storage::ScriptType::Lock } else { crate::storage::ScriptType::Type }, r.start)).collect();
        scen::register(&sim, &list);
        sim.connect(1);
        sim.connect(2);
        sim
    };
    // runs the honest history until the k-th SendBlock is at the front of the queue
    let run_until = |sim: &mut Sim, k: usize| -> bool {
        let mut seen = 0usize;
        let mut idle = 0;
        for _ in 0..3000 {
            if sim.queue.is_empty() {
                sim.advance(10);
                sim.tick_all();
                idle += 1;
                if idle > 6 {
                    return false;
                }
                continue;
            }
            idle = 0;
            if kind_of(&sim.queue[0]) == "SendBlock" {
                if seen == k {
                    return true;
                }
                seen += 1;
            }
            sim.deliver(0);
        }
        false
    };
    let mut old: Option<Sim> = None;
    let mut k = 0usize;
    loop {
        let mut probe = new_sim(old.take());
        probe.record_trace = std::env::var("VERIF_TRACE").is_ok();
        if !run_until(&mut probe, k) {
            if k == 0 {
                for l in &probe.trace {
                    eprintln!("  {}", l);
                }
                eprintln!("bans {:?}", probe.bans());
            }
            old = Some(probe);
            break;
        }
        let honest = probe.queue[0].clone();
        old = Some(probe);
        let block = match packed::SyncMessageReader::from_compatible_slice(&honest.data).map(|m| m.to_entity().to_enum()) {
            Ok(packed::SyncMessageUnion::SendBlock(m)) => m.block(),
            _ => break,
        };
        let number: u64 = block.header().raw().number().unpack();
        let txs: Vec<packed::Transaction> = block.transactions().into_iter().collect();
        let forged_tx = crate::verif::txlib::build_tx(
            &[],
            &[packed::OutPoint::new(txs[0].calc_tx_hash(), 0)],
            &[crate::verif::txlib::OutSpec::lock(&env.scripts.a, 55_0000_0000)],
            0xb0d1 + number,
        );
        let other = chain.blocks.iter().skip(1).find(|b| b.number() != number && b.transactions().len() > 1).map(|b| b.data().transactions());
        let mut variants: Vec<(&str, Vec<packed::Transaction>)> = vec![];
        let mut plus = txs.clone();
        plus.push(forged_tx.data());
        variants.push(("one-more-transaction", plus));
        if txs.len() > 1 {
            let mut repl = txs.clone();
            let last = repl.len() - 1;
            repl[last] = forged_tx.data();
            variants.push(("last-transaction-replaced", repl));
            variants.push(("last-transaction-dropped", txs[..txs.len() - 1].to_vec()));
        }
        if let Some(o) = other {
            variants.push(("body-of-another-block", o.into_iter().collect()));
        }
        for (label, body) in variants {
            let mut sim = new_sim(old.take());
            if !run_until(&mut sim, k) {
                old = Some(sim);
                continue;
            }
            let home = sim.queue.pop_front().unwrap();
            // after_honest 1 / 2: the honest body arrives first and the forgery is a SECOND SendBlock
            // for the same header (from the same / the other peer) while the record is incomplete
            let forger = if after_honest == 2 { 3 - home.peer } else { home.peer };
            if after_honest > 0 {
                sim.deliver_msg(home.clone());
            }
            let forged_block = block.clone().as_builder().transactions(body.pack()).build();
            let msg = packed::SyncMessage::new_builder().set(packed::SendBlock::new_builder().block(forged_block).build()).build();
            let r = crate::verif::props::panics::catch(|| {
                sim.deliver_msg(InFlight { proto: crate::verif::net::Proto::Sync, peer: forger, data: msg.as_bytes(), note: format!("SendBlock({})[{}]", number, label) });
                // the network layer drops a banned peer
                let banned: Vec<usize> = sim.bans().iter().map(|(p, _)| p.value()).collect();
                for p in &banned {
                    if sim.world.peer(*p).connected {
                        sim.disconnect(*p);
                    }
                }
                if banned.is_empty() {
                    // not refused: the honest twin stays away, the peer goes on serving
                }
                sim.converge(120)
            });
            report.count("transitions", 1);
            report.count("banned_then_continue/runs", 1);
            let converged = match r {
                Err(p) => {
                    report.violation(format!("abort/{}", p.site()), format!("{} [forged body {} for block {}, then honest continuation]", p.describe(), label, number), json!({"scenario": "banned-then-continue", "variant": label, "block": number, "spec": spec}));
                    continue;
                }
                Ok((_, _, c)) => c,
            };
            if sim.bans().is_empty() {
                report.count("banned_then_continue/forgery_not_banned", 1);
            }
            let mut bad: Vec<(String, String)> = inv_committed(&sim, chain).into_iter().map(|b| ("uncommitted-data-stored".to_owned(), b)).collect();
            bad.extend(oracle::judge_index(sim.c(), chain, regs, converged));
            if !converged {
                bad.push(("stall".into(), "no quiescence after the forged body".into()));
            }
            if let Ok(t) = sim.c().rpc_tx().get_transaction(forged_tx.hash().unpack()) {
                let v = serde_json::to_value(&t).unwrap_or_default();
                if v["status"] == "committed" {
                    bad.push(("forged-transaction-committed".into(), format!("get_transaction reports the forged transaction {:#x} as committed", forged_tx.hash())));
                }
            }
            for (class, items) in oracle::group(bad) {
                report.violation(
                    format!("after-forged-body{}/{}/{}", ["", "-following-the-honest-one", "-following-the-honest-one"][after_honest as usize], class, label),
                    format!("[{}/{}{}] SendBlock({}) with the proven header and a forged body ({}) from peer {}{}, sender dropped if banned, honest continuation: {}", wname, sname, if slow_blocks { "/slow-blocks" } else { "" }, number, label, forger, ["", " right after the honest body from the same peer", " right after the honest body from the other peer"][after_honest as usize], items[0]),
                    json!({"scenario": "banned-then-continue", "variant": label, "block": number, "kth_send_block": k, "spec": spec, "slow_blocks": slow_blocks, "after_honest": after_honest, "all": items.iter().take(6).collect::<Vec<_>>()}),
                );
            }
            old = Some(sim);
        }
        k += 1;
        if k > 40 {
            break;
        }
    }
    report.count("banned_then_continue/send_block_positions", k as u64);
    if k == 0 {
        report.violation("vacuous/banned-then-continue".to_owned(), "no SendBlock in the history".to_owned(), json!({}));
    }
}

const HOME_SCNS: [Scn; 3] = [Scn::MatchedBlocksProof, Scn::MatchedBlocks, Scn::FetchProofs];

pub(crate) fn run(opts: &Opts, report: &mut Report) {
    let thorough = opts.thorough();
    let mut grid: Vec<(&'static str, Params)> = vec![
        ("mini_dummy.toml", Params::default()),
        ("mini_dummy.toml", Params { proof_v1: true, ..Params::default() }),
    ];
    if thorough {
        grid.push(("mini_eaglesong.toml", Params { proof_v1: true, ..Params::default() }));
        grid.push(("mini_dummy.toml", Params { last_n: 3, h1: 20, h_sampled: 45, h_short: 22, fork_at: 18, fork_tip: 40, main_len: 45, epoch_len: 5, seed: 2, proof_v1: true, filter_batch: 9, ..Params::default() }));
    }
    let scns: Vec<Scn> = c10::ALL_SCN.to_vec();
    const CHUNKS: usize = 3;
    let sweep_items = grid.len() * scns.len() * CHUNKS;
    // + the foreign-chain-root forgeries (V0, V1; thorough: also Eaglesong)
    let foreign: Vec<(&'static str, bool)> = if thorough { vec![("mini_dummy.toml", false), ("mini_dummy.toml", true), ("mini_eaglesong.toml", false), ("mini_eaglesong.toml", true)] } else { vec![("mini_dummy.toml", false), ("mini_dummy.toml", true)] };
    // + forged bodies replacing / following the honest one: (slow blocks, after_honest)
    let btc: [(bool, u8); 6] = [(false, 0), (true, 0), (false, 1), (true, 1), (false, 2), (true, 2)];
    let items = sweep_items + foreign.len() + btc.len();
    let worker = crate::verif::props::shard::run("C02", opts, report, items, 16, |item, report| {
        if item >= sweep_items + foreign.len() {
            let env = Env::dummy();
            let (slow, after) = btc[item - sweep_items - foreign.len()];
            banned_then_continue_pass(&env, report, "mini_dummy.toml", slow, after);
            return;
        }
        if item >= sweep_items {
            let (spec, v1) = foreign[item - sweep_items];
            let env = Env::new(spec);
            foreign_root_pass(&env, report, spec, v1);
            return;
        }
        let chunk = item % CHUNKS;
        let item = item / CHUNKS;
        let (spec, params) = &grid[item / scns.len()];
        let scn = scns[item % scns.len()];
        let is_home = HOME_SCNS.contains(&scn);
        if chunk != 0 && !is_home {
            return;
        }
        let env = Env::new(spec);
        let w = c10::worlds_with(&env, params);
        let mut cross: Vec<sweep::CrossMsg> = vec![];
        let mut own_homes: Vec<Vec<u8>> = vec![];
        for s in &scns {
            let (sim, n) = build_with(&env, &w, params, *s, None);
            for home in sim.queue.iter().take(n) {
                if *s == scn {
                    own_homes.push(home.data.to_vec());
                }
                let k = kind_of(home);
                if k == "SendBlock" || k == "SendBlocksProof" || k == "SendTransactionsProof" {
                    cross.push((home.proto.clone(), format!("{:?}/{}", s, k), home.data.clone()));
                }
            }
            // all remaining queued answers of that scenario too (e.g. the second SendBlock)
            for m in sim.queue.iter().skip(n) {
                let k = kind_of(m);
                if k == "SendBlock" {
                    cross.push((m.proto.clone(), format!("{:?}/queued-{}", s, m.note), m.data.clone()));
                }
            }
        }
        // every block of the main and fork chains as an unsolicited SendBlock
        if chunk == 0 {
            for (ci, chain) in [&w.main, &w.fork].iter().enumerate() {
                for b in chain.blocks.iter().skip(1) {
                    let msg = packed::SyncMessage::new_builder()
                        .set(packed::SendBlock::new_builder().block(b.data()).build())
                        .build();
                    cross.push((crate::verif::net::Proto::Sync, format!("unsolicited/chain{}/SendBlock({})", ci, b.number()), msg.as_bytes()));
                }
            }
        }
        let sweep_opts = SweepOpts {
            thorough,
            byte_windows: is_home,
            truncations: is_home,
            bit_flips: is_home && thorough,
            structural: is_home,
            reseal: false,
            tick_after_change: false,
            honest_control: false,
            follow_up: true,
            view_only_on_change: true,
            chunk: (chunk, CHUNKS),
        };
        let mut checked_states = 0u64;
        let mut by_kind: BTreeMap<String, u64> = BTreeMap::new();
        let main = &w.main;
        let stats = {
            // the judge needs the store after the delivery: the sweep's view function computes
            // the invariant eagerly and appends it to the view string
            let view = |sim: &Sim| -> String {
                let bad = inv_committed(sim, main);
                format!("{}\n#BAD#{}", index_view(sim), bad.join("\n"))
            };
            let mut judge = |ctx: &Ctx, out: &Outcome| {
                if let Some(p) = &out.panic {
                    report.violation(
                        format!("abort/{}", p.site()),
                        format!("{} [scenario {:?}, mutant {}]", p.describe(), ctx.scn, ctx.label),
                        json!({"scenario": format!("{:?}", ctx.scn), "mutant": ctx.label, "message_hex": hex(&ctx.data[..ctx.data.len().min(4096)])}),
                    );
                    return;
                }
                checked_states += 1;
                let bad_after = out.view_after.split("#BAD#").nth(1).unwrap_or("").trim().to_owned();
                let idx_before = out.view_before.split("#BAD#").next().unwrap_or("");
                let idx_after = out.view_after.split("#BAD#").next().unwrap_or("");
                if ctx.kind == Kind::HomeMutant {
                    *by_kind.entry(ctx.home_kind.clone()).or_insert(0) += 1;
                }
                if !bad_after.is_empty() {
                    let first = bad_after.lines().next().unwrap_or("");
                    let class = first.split(':').next().unwrap_or("").split(' ').next().unwrap_or("");
                    let origin = match ctx.kind {
                        Kind::HomeMutant => format!("{}-mutant", ctx.home_kind),
                        _ => ctx.label.split('/').nth(1).unwrap_or("cross").split('(').next().unwrap_or("").to_owned(),
                    };
                    report.violation(
                        format!("uncommitted-data-stored/{}/{}", origin, class),
                        format!("after {} ({}) in scenario {:?} the store holds data the proven chain does not contain: {}", origin, ctx.label, ctx.scn, first),
                        json!({"scenario": format!("{:?}", ctx.scn), "params": format!("{:?}", params), "spec": spec, "message": ctx.label, "peer": ctx.peer, "message_hex": hex(&ctx.data[..ctx.data.len().min(8192)]), "broken_records": bad_after.lines().take(10).collect::<Vec<_>>()}),
                    );
                    return;
                }
                if ctx.kind == Kind::Cross && idx_before != idx_after {
                    let own = ctx.peer == 1 && own_homes.iter().any(|h| h.as_slice() == &ctx.data[..]);
                    if !own {
                        report.violation(
                            format!("unsolicited-message-changed-index/{:?}/{}", ctx.scn, ctx.label.split('/').nth(1).unwrap_or("").split('(').next().unwrap_or("")),
                            format!("{} from peer {} (nobody asked for it in scenario {:?}) changed the indexed key space", ctx.label, ctx.peer, ctx.scn),
                            json!({"scenario": format!("{:?}", ctx.scn), "params": format!("{:?}", params), "spec": spec, "message": ctx.label, "peer": ctx.peer, "before": idx_before, "after": idx_after}),
                        );
                    }
                }
            };
            let wref = &w;
            sweep::sweep_scenario(&env, &w, params, scn, &sweep_opts, &|home| tx_proof_forgeries(wref, home), &cross, &view, &mut judge)
        };
        // ---- forged matched blocks: a BlockFilters answer with authentic filters whose block
        // hashes are those of forged, self-consistent blocks (same height and parent, one more
        // transaction paying a registered script), followed at once by the bodies of those
        // blocks — before any proof could mark them proven. Nothing of them may be indexed.
        if chunk == 0 && scn == Scn::Filters {
            let (mut sim, _) = build_with(&env, &w, params, scn, None);
            if let Some(pos) = sim.queue.iter().position(|m| kind_of(m) == "BlockFilters") {
                let honest = sim.queue.remove(pos).unwrap();
                if let Ok(packed::BlockFilterMessageUnion::BlockFilters(m)) = packed::BlockFilterMessage::from_slice(&honest.data).map(|x| x.to_enum()) {
                    let start: u64 = m.start_number().unpack();
                    let n = m.filters().len();
                    let mut forged_blocks = vec![];
                    for i in 0..n {
                        let real = &w.main.blocks[(start as usize) + i];
                        let extra = crate::verif::txlib::build_tx(
                            &[],
                            &[packed::OutPoint::new(real.transactions()[0].hash(), 0)],
                            &[crate::verif::txlib::OutSpec::lock(&env.scripts.a, 77_0000_0000)],
                            0xf0 + i as u64,
                        );
                        let forged = real.as_advanced_builder().transaction(extra).build();
                        forged_blocks.push(forged);
                    }
                    let hashes: Vec<packed::Byte32> = forged_blocks.iter().map(|b| b.hash()).collect();
                    let msg = packed::BlockFilterMessage::new_builder().set(m.as_builder().block_hashes(hashes.pack()).build()).build();
                    let before = index_view(&sim);
                    let r = crate::verif::props::panics::catch(|| {
                        sim.deliver_msg(crate::verif::driver::InFlight { proto: honest.proto.clone(), peer: honest.peer, data: msg.as_bytes(), note: "BlockFilters[forged block hashes]".into() });
                        for b in &forged_blocks {
                            let sb = packed::SyncMessage::new_builder().set(packed::SendBlock::new_builder().block(b.data()).build()).build();
                            sim.deliver_msg(crate::verif::driver::InFlight { proto: crate::verif::net::Proto::Sync, peer: honest.peer, data: sb.as_bytes(), note: "SendBlock[forged]".into() });
                        }
                    });
                    report.count("forged_matched_block_runs", 1);
                    match r {
                        Err(p) => report.violation(format!("abort/{}", p.site()), format!("{} [forged matched blocks]", p.describe()), json!({"scenario": "Filters", "forgery": "forged matched blocks"})),
                        Ok(()) => {
                            let bad = inv_committed(&sim, &w.main);
                            let after = index_view(&sim);
                            if !bad.is_empty() || after != before {
                                report.violation(
                                    "uncommitted-data-stored/forged-matched-block/unproved-body-indexed".to_owned(),
                                    format!(
                                        "BlockFilters (start {}) with authentic filters but the hashes of {} forged self-consistent blocks, followed by their bodies before any proof: the index changed ({})",
                                        start,
                                        n,
                                        bad.first().cloned().unwrap_or_else(|| "new records".to_owned())
                                    ),
                                    json!({"scenario": "Filters", "params": format!("{:?}", params), "spec": spec, "broken_records": bad.iter().take(8).collect::<Vec<_>>(), "before": before, "after": after}),
                                );
                            }
                        }
                    }
                }
            }
        }
        // ---- a forged matched block that the peer ANNOUNCED before: SendLastState with the header of
        // a forged twin of block k (self-consistent, same parent and chain root, lower total
        // difficulty than the proven tip, so no proof is requested), then the BlockFilters answer
        // with authentic filters and the twin's hash at position k, then the twin's body. An
        // announced last state is not a proven one: nothing of the twin may be indexed.
        if chunk == 0 && scn == Scn::Filters {
            let (probe, _) = build_with(&env, &w, params, scn, None);
            let n_filters = probe
                .queue
                .iter()
                .find(|m| kind_of(m) == "BlockFilters")
                .and_then(|m| packed::BlockFilterMessage::from_slice(&m.data).ok())
                .map(|m| match m.to_enum() {
                    packed::BlockFilterMessageUnion::BlockFilters(m) => m.filters().len(),
                    _ => 0,
                })
                .unwrap_or(0);
            drop(probe);
            for i in 0..n_filters {
                let (mut sim, _) = build_with(&env, &w, params, scn, None);
                let pos = match sim.queue.iter().position(|m| kind_of(m) == "BlockFilters") {
                    Some(p) => p,
                    None => break,
                };
                let honest = sim.queue.remove(pos).unwrap();
                let m = match packed::BlockFilterMessage::from_slice(&honest.data).map(|x| x.to_enum()) {
                    Ok(packed::BlockFilterMessageUnion::BlockFilters(m)) => m,
                    _ => break,
                };
                let start: u64 = m.start_number().unpack();
                let k = start + i as u64;
                let real = &w.main.blocks[k as usize];
                let extra = crate::verif::txlib::build_tx(
                    &[],
                    &[packed::OutPoint::new(real.transactions()[0].hash(), 0)],
                    &[crate::verif::txlib::OutSpec::lock(&env.scripts.a, 77_0000_0000)],
                    0xe0 + i as u64,
                );
                let forged = real.as_advanced_builder().transaction(extra).build();
                let vh = w.main.vh(k).as_builder().header(forged.data().header()).build();
                let announce = packed::LightClientMessage::new_builder().set(packed::SendLastState::new_builder().last_header(vh).build()).build();
                let mut hashes: Vec<packed::Byte32> = m.block_hashes().into_iter().collect();
                hashes[i] = forged.hash();
                let msg = packed::BlockFilterMessage::new_builder().set(m.clone().as_builder().block_hashes(hashes.pack()).build()).build();
                let sb = packed::SyncMessage::new_builder().set(packed::SendBlock::new_builder().block(forged.data()).build()).build();
                let r = crate::verif::props::panics::catch(|| {
                    sim.deliver_msg(crate::verif::driver::InFlight { proto: crate::verif::net::Proto::LightClient, peer: honest.peer, data: announce.as_bytes(), note: format!("SendLastState[forged twin of {}]", k) });
                    sim.deliver_msg(crate::verif::driver::InFlight { proto: honest.proto.clone(), peer: honest.peer, data: msg.as_bytes(), note: "BlockFilters[hash of the announced twin]".into() });
                    sim.deliver_msg(crate::verif::driver::InFlight { proto: crate::verif::net::Proto::Sync, peer: honest.peer, data: sb.as_bytes(), note: "SendBlock[forged]".into() });
                    // whatever the client asked for meanwhile is answered honestly; the body once more
                    sim.deliver_all_fifo(40);
                    sim.deliver_msg(crate::verif::driver::InFlight { proto: crate::verif::net::Proto::Sync, peer: honest.peer, data: sb.as_bytes(), note: "SendBlock[forged]".into() });
                });
                report.count("forged_matched_block_runs", 1);
                report.count("announced_forged_twin_runs", 1);
                match r {
                    Err(p) => report.violation(format!("abort/{}", p.site()), format!("{} [announced forged twin]", p.describe()), json!({"scenario": "Filters", "forgery": "announced forged twin", "position": i})),
                    Ok(()) => {
                        let bad = inv_committed(&sim, &w.main);
                        if !bad.is_empty() {
                            report.violation(
                                "uncommitted-data-stored/forged-matched-block/announced-last-state-treated-as-proven".to_owned(),
                                format!("SendLastState with the header of a forged twin of block {} (not proven), BlockFilters (start {}) with authentic filters and the twin's hash, then its body: {}", k, start, bad[0]),
                                json!({"scenario": "Filters", "params": format!("{:?}", params), "spec": spec, "position": i, "broken_records": bad.iter().take(8).collect::<Vec<_>>()}),
                            );
                        }
                    }
                }
            }
        }
        // ---- the same with ONE forged block among real ones: the honest peer then proves the real
        // blocks and reports the forged hash as missing in the same answer; the forged body
        // follows. A hash that was reported missing is not proven by the rest of the answer.
        if chunk == 0 && scn == Scn::Filters {
            let (probe, _) = build_with(&env, &w, params, scn, None);
            let n_filters = probe
                .queue
                .iter()
                .find(|m| kind_of(m) == "BlockFilters")
                .and_then(|m| packed::BlockFilterMessage::from_slice(&m.data).ok())
                .map(|m| match m.to_enum() {
                    packed::BlockFilterMessageUnion::BlockFilters(m) => m.filters().len(),
                    _ => 0,
                })
                .unwrap_or(0);
            let mut old_sim = Some(probe);
            for i in 0..n_filters {
                let (mut sim, _) = build_with(&env, &w, params, scn, old_sim.take());
                let pos = match sim.queue.iter().position(|m| kind_of(m) == "BlockFilters") {
                    Some(p) => p,
                    None => break,
                };
                let honest = sim.queue.remove(pos).unwrap();
                let m = match packed::BlockFilterMessage::from_slice(&honest.data).map(|x| x.to_enum()) {
                    Ok(packed::BlockFilterMessageUnion::BlockFilters(m)) => m,
                    _ => break,
                };
                let start: u64 = m.start_number().unpack();
                let real = &w.main.blocks[(start as usize) + i];
                let extra = crate::verif::txlib::build_tx(
                    &[],
                    &[packed::OutPoint::new(real.transactions()[0].hash(), 0)],
                    &[crate::verif::txlib::OutSpec::lock(&env.scripts.a, 66_0000_0000)],
                    0xe0 + i as u64,
                );
                let forged = real.as_advanced_builder().transaction(extra.clone()).build();
                let mut hashes: Vec<packed::Byte32> = m.block_hashes().into_iter().collect();
                if i >= hashes.len() {
                    break;
                }
                hashes[i] = forged.hash();
                let msg = packed::BlockFilterMessage::new_builder().set(m.clone().as_builder().block_hashes(hashes.pack()).build()).build();
                let r = crate::verif::props::panics::catch(|| {
                    sim.deliver_msg(crate::verif::driver::InFlight { proto: honest.proto.clone(), peer: honest.peer, data: msg.as_bytes(), note: format!("BlockFilters[hash of #{} forged]", start + i as u64) });
                    // the honest answers to what the client asked (proofs: the forged hash is missing)
                    for _ in 0..6 {
                        match sim.queue.iter().position(|q| q.proto == crate::verif::net::Proto::LightClient) {
                            Some(p) => sim.deliver(p),
                            None => break,
                        }
                    }
                    let sb = packed::SyncMessage::new_builder().set(packed::SendBlock::new_builder().block(forged.data()).build()).build();
                    sim.deliver_msg(crate::verif::driver::InFlight { proto: crate::verif::net::Proto::Sync, peer: honest.peer, data: sb.as_bytes(), note: "SendBlock[forged]".into() });
                    sim.converge(60);
                });
                report.count("forged_matched_block_runs", 1);
                report.count("transitions", 1);
                match r {
                    Err(p) => report.violation(format!("abort/{}", p.site()), format!("{} [one forged matched block among real ones]", p.describe()), json!({"scenario": "Filters", "forgery": "one forged matched block", "position": i})),
                    Ok(()) => {
                        let mut bad = inv_committed(&sim, &w.main);
                        {
                            use crate::service::TransactionRpc;
                            if let Ok(t) = sim.c().rpc_tx().get_transaction(extra.hash().unpack()) {
                                if serde_json::to_value(&t).map(|v| v["status"] == "committed").unwrap_or(false) {
                                    bad.push("get_transaction reports the forged transaction as committed".to_owned());
                                }
                            }
                        }
                        if !bad.is_empty() {
                            report.violation(
                                "uncommitted-data-stored/forged-matched-block/missing-hash-treated-as-proven".to_owned(),
                                format!("BlockFilters (start {}) with the hash of block {} replaced by a forged twin; the honest blocks proof proves the others and reports the twin missing; its body follows: {}", start, start + i as u64, bad[0]),
                                json!({"scenario": "Filters", "params": format!("{:?}", params), "spec": spec, "position": i, "broken_records": bad.iter().take(8).collect::<Vec<_>>()}),
                            );
                        }
                    }
                }
                old_sim = Some(sim);
            }
        }
        // vacuity guard + honest control: finish the history honestly; the index must be
        // non-empty and committed
        if chunk == 0 && is_home {
            let (mut sim, _) = build_with(&env, &w, params, scn, None);
            let r = sim.converge(80);
            let bad = inv_committed(&sim, &w.main);
            let records = index_view(&sim);
            report.count("honest_runs", 1);
            if !r.2 || !bad.is_empty() || !sim.bans().is_empty() {
                report.violation(
                    format!("honest-run-broken/{:?}", scn),
                    format!("honest continuation: converged={} bans={:?} broken={:?}", r.2, sim.bans(), bad.iter().take(3).collect::<Vec<_>>()),
                    json!({"scenario": format!("{:?}", scn), "spec": spec}),
                );
            }
            report.sample(json!({"scenario": format!("{:?}", scn), "spec": spec, "proof_v1": params.proof_v1, "store_after_honest_run": records}));
        }
        report.count("states", if chunk == 0 { 1 } else { 0 });
        report.count("transitions", stats.deliveries);
        report.count("rebuilds", stats.rebuilds);
        report.count("follow_up_runs_to_quiescence", stats.follow_ups);
        report.count("deliveries_changing_any_state", stats.state_changes);
        report.count("deliveries_changing_index", stats.view_changes);
        report.count("stores_checked_against_world", checked_states);
        for (k, v) in by_kind {
            report.count(&format!("mutants/{}", k), v);
        }
    });
    if worker {
        return;
    }
    let t = report.get("transitions");
    report.set("traces_validated_against_impl", json!(t));
    report.set("evaluations", json!(t));
    report.set("distinct_nontrivial", json!(report.get("mutants/SendBlock") + report.get("mutants/SendBlocksProof") + report.get("mutants/SendTransactionsProof")));
    report.set("rule", json!("states = (world parameters incl. V0/V1 layout, PoW engine, receiver scenario); transitions = deliveries to the real handlers, each followed by the InvCommitted scan of the whole store against the world; distinct_nontrivial = single-site mutants of pending honest SendBlock / SendBlocksProof / SendTransactionsProof"));
    report.assume("witnesses of *fetched* transactions are compared by transaction hash only (the protocol hands the client only witnesses_root)");
    report.assume("single-site mutations; hash collisions excluded");
}
