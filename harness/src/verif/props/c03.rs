//! C03 — script index equals the chain: no phantom or spent cells, no missing activity.
//!
//! E-seq: for each (world, script set with start numbers) every run of the honest sync history
//! with at most 1 (thorough 2) deviations — a shorter filter batch, another delivery order, a
//! user fetch_transaction / fetch_header call, a partial set_scripts that changes nothing, a
//! restart, an early timer round — is executed on the real client and, after it caught up, judged
//! by the reference index.

use std::sync::Arc;

use ckb_types::{packed, prelude::*};
use serde_json::json;

use crate::storage::ScriptType;
use crate::verif::client::ClientCfg;
use crate::verif::driver::{Sim, World};
use crate::verif::explore::{self, Dev, RunOutcome, Scenario};
use crate::verif::oracle::{self, Reg};
use crate::verif::props::Opts;
use crate::verif::report::Report;
use crate::verif::scen::{self, Act, Env};
use crate::verif::world::Chain;

pub(crate) struct IndexScenario<'a> {
    pub env: &'a Env,
    pub name: String,
    pub chain: Chain,
    pub regs: Vec<Reg>,
    pub cfg: ClientCfg,
    pub filter_batch: u64,
    pub fetch_txs: Vec<packed::Byte32>,
    pub fetch_headers: Vec<u64>,
    /// start number of the first script after the user raised it (Dev::SetScripts(_, 1))
    pub raised: std::cell::RefCell<Option<u64>>,
}

impl<'a> IndexScenario<'a> {
    pub(crate) fn effective_regs(&self) -> Vec<Reg> {
        let mut regs = self.regs.clone();
        if let Some(n) = *self.raised.borrow() {
            regs[0].start = n;
        }
        regs
    }
}

impl<'a> Scenario for IndexScenario<'a> {
    fn init(&self, old: Option<Sim>) -> Sim {
        let mut world = World::new(vec![self.chain.clone()], self.cfg.cp_interval);
        world.add_peer(1, 0, self.chain.tip_number());
        // (a filter batch of 10_000 + b means: batch b and block bodies slower than everything
        // else, so that several matched-blocks records are pending at the same time)
        world.filter_batch = self.filter_batch % 10_000;
        world.slow_blocks = self.filter_batch >= 10_000;
        crate::verif::client::set_now(crate::verif::world::BASE_TS + 1_000_000);
        let mut sim = match old {
            Some(old) => Sim::recycle(old, self.cfg.clone(), world),
            None => scen::new_sim(self.env, self.cfg.clone(), world),
        };
        crate::verif_hooks::rng_reset(7);
        *self.raised.borrow_mut() = None;
        let list: Vec<(packed::Script, ScriptType, u64)> = self
            .regs
            .iter()
            .map(|r| {
                (
                    r.script.clone(),
                    if r.is_lock { ScriptType::Lock } else { ScriptType::Type },
                    r.start,
                )
            })
            .collect();
        scen::register(&sim, &list);
        sim.connect(1);
        sim
    }

    fn user_devs(&self, sim: &Sim) -> Vec<Dev> {
        let mut v = vec![];
        for (i, h) in self.fetch_txs.iter().enumerate() {
            // only while the client has not been asked yet
            if sim.c().peers.get_tx_fetch_info(h).is_none() {
                v.push(Dev::FetchTx(i));
            }
        }
        for n in &self.fetch_headers {
            let h = self.chain.blocks[*n as usize].hash();
            if sim.c().peers.get_header_fetch_info(&h).is_none() {
                v.push(Dev::FetchHeader(*n));
            }
        }
        // a partial set_scripts that re-states a script's current record must not lose anything
        v.push(Dev::SetScripts(1, 0));
        // ... and one that raises the first script's start number over data indexed so far
        v.push(Dev::SetScripts(1, 1));
        v
    }

    fn apply_custom(&self, sim: &mut Sim, dev: &Dev) {
        match dev {
            Dev::FetchTx(i) => explore::user_fetch_tx(sim, self.fetch_txs[*i].clone()),
            Dev::FetchHeader(n) => {
                explore::user_fetch_header(sim, self.chain.blocks[*n as usize].hash())
            }
            Dev::SetScripts(cmd, which) => {
                // re-register the first script with the block number the client currently reports
                // (which = 0) or with a number three blocks below the peer's tip (which = 1);
                // which = 2: the LAST script with its current number (a `delete` of it keeps the
                // scripts whose matched blocks may be pending)
                let r = if *which == 2 { self.regs.last().expect("regs") } else { &self.regs[0] };
                let current = oracle::rpc_scripts(sim.c())
                    .into_iter()
                    .find(|(s, l, _)| s == &r.script && *l == r.is_lock)
                    .map(|(_, _, n)| n)
                    .unwrap_or(r.start);
                let number = if *which == 0 {
                    current
                } else {
                    current.max(self.chain.tip_number().saturating_sub(3))
                };
                if *which == 1 {
                    *self.raised.borrow_mut() = Some(number);
                }
                explore::user_set_scripts(sim, *cmd, &[(r.script.clone(), r.is_lock, number)]);
            }
            _ => {}
        }
    }
}

pub(crate) fn worlds(env: &Env) -> Vec<(String, Chain)> {
    let mut out = vec![];
    let mk = |len: u64, acts: &[(u64, Act)]| {
        let mut c = Chain::new(Arc::clone(&env.consensus), scen::wavy_plan(5));
        scen::extend_chain(&mut c, &env.scripts, len, acts);
        c
    };
    out.push(("W1-std13".to_owned(), mk(13, &scen::std_acts())));
    out.push((
        "W2-chains13".to_owned(),
        mk(
            13,
            &[
                (1, Act::Mine('A')),
                (2, Act::Move('A', 'A')),
                (3, Act::Mine('A')),
                (6, Act::Move('A', 'A')),
                (8, Act::Move('A', 'A')),
                (8, Act::Move('A', 'A')),
                (9, Act::Mine('B')),
                (11, Act::Typed('A')),
                (12, Act::Move('B', 'A')),
            ],
        ),
    ));
    out.push((
        "W4-prestart13".to_owned(),
        mk(
            13,
            &[
                (1, Act::Mine('B')),
                (3, Act::Move('B', 'A')),
                (6, Act::Move('A', 'A')),
                (8, Act::Mine('A')),
                (10, Act::Move('A', 'B')),
            ],
        ),
    ));
    out.push((
        "W3-short6".to_owned(),
        mk(
            6,
            &[
                (1, Act::Mine('A')),
                (3, Act::Move('A', 'B')),
                (4, Act::Mine('B')),
                (5, Act::Move('B', 'A')),
            ],
        ),
    ));
    out
}

pub(crate) fn script_sets(env: &Env, tip: u64) -> Vec<(String, Vec<Reg>)> {
    let s = &env.scripts;
    let reg = |c: char, start: u64| Reg {
        script: s.by_name(c),
        is_lock: c != 'T',
        start,
    };
    vec![
        ("A@0".to_owned(), vec![reg('A', 0)]),
        ("A@0,B@0,T@0".to_owned(), vec![reg('A', 0), reg('B', 0), reg('T', 0)]),
        ("A@4".to_owned(), vec![reg('A', 4)]),
        ("B@0,A@tip-1".to_owned(), vec![reg('B', 0), reg('A', tip.saturating_sub(1))]),
        // start numbers in the middle of a filter batch (batches are cut at check points 4, 8, ...)
        ("A@6,B@0".to_owned(), vec![reg('A', 6.min(tip.saturating_sub(2))), reg('B', 0)]),
        ("T@0,A@2".to_owned(), vec![reg('T', 0), reg('A', 2)]),
    ]
}

/// transactions worth fetching: one that creates a cell of the first script and is spent later,
/// one that has nothing to do with any script
pub(crate) fn interesting_txs(chain: &Chain, regs: &[Reg]) -> Vec<packed::Byte32> {
    let mut v = vec![];
    if let Some(r) = regs.first() {
        let cells = oracle::cells_of(chain, &r.script, r.is_lock, chain.tip_number());
        if let Some(c) = cells.iter().find(|c| c.spent_at.is_some() && c.created > 0) {
            v.push(c.out_point.tx_hash());
        }
        if let Some(c) = cells.iter().find(|c| c.spent_at.is_none() && c.created > 0) {
            if !v.contains(&c.out_point.tx_hash()) {
                v.push(c.out_point.tx_hash());
            }
        }
    }
    // a transaction one of whose outputs is spent by a later transaction of the same block
    'outer: for b in chain.blocks.iter().skip(1) {
        let txs = b.transactions();
        for (i, tx) in txs.iter().enumerate() {
            for later in txs.iter().skip(i + 1) {
                if later.inputs().into_iter().any(|inp| inp.previous_output().tx_hash() == tx.hash()) {
                    if !v.contains(&tx.hash()) {
                        v.push(tx.hash());
                    }
                    break 'outer;
                }
            }
        }
    }
    v.push(chain.blocks[1].transactions()[0].hash());
    v.dedup();
    v
}

pub(crate) fn judge_run(
    sim: &Sim,
    outcome: &RunOutcome,
    regs: &[Reg],
    extra: &[(String, String, usize)],
) -> Vec<(String, String)> {
    let mut bad: Vec<(String, String)> = vec![];
    if let Some(p) = &outcome.panic {
        bad.push((format!("abort/{}", p.site()), p.describe()));
        return bad;
    }
    for (k, d, step) in extra {
        bad.push((k.clone(), format!("{} (after step {})", d, step)));
    }
    // a ban / disconnect of the honest peer is C05's subject; here it only means that completeness
    // cannot be judged for this run
    let banned = !sim.bans().is_empty() || !sim.c().out.disconnects().is_empty();
    if banned {
        let chain = &sim.world.chains[sim.world.peer(1).chain];
        bad.extend(oracle::judge_index(sim.c(), chain, regs, false));
        bad.extend(oracle::judge_store(sim, chain));
        return bad;
    }
    if !outcome.converged {
        bad.push(("stall".into(), format!("the honest history did not reach quiescence within {} steps", outcome.steps)));
    }
    let chain = &sim.world.chains[sim.world.peer(1).chain];
    let tip_ok = sim.c().tip_number() == sim.world.peer(1).height;
    if !tip_ok {
        bad.push(("tip-not-reached".into(), format!("client tip {} but the peer is at {}", sim.c().tip_number(), sim.world.peer(1).height)));
    }
    bad.extend(oracle::judge_index(sim.c(), chain, regs, outcome.converged && tip_ok));
    bad.extend(oracle::judge_store(sim, chain));
    bad
}

const HIGH_WORLD: usize = usize::MAX;

pub(crate) fn run(opts: &Opts, report: &mut Report) {
    let thorough = opts.thorough();
    let env0 = Env::dummy();
    let ws = worlds(&env0);
    let mut items: Vec<(usize, usize, u64)> = vec![];
    for (wi, (_, chain)) in ws.iter().enumerate() {
        for si in 0..script_sets(&env0, chain.tip_number()).len() {
            for batch in if thorough { vec![3u64, 1000, 10_002] } else { vec![5u64] } {
                items.push((wi, si, batch));
            }
        }
    }
    // block numbers beyond one byte (records and index keys are ordered by their encoded block
    // number): a 270-block chain with the scripts registered from block 248, filter batches of 4
    // and slow block bodies, so that several matched-blocks records around block 256 are pending
    // (check point interval 20 for this world: one interval spans block 256, so records on both
    // sides of it are pending at the same time)
    items.push((HIGH_WORLD, 0, 10_002));
    if thorough {
        items.push((HIGH_WORLD, 0, 10_003));
        items.push((HIGH_WORLD, 0, 5));
    }
    drop(env0);
    let n_items = items.len();
    let worker = crate::verif::props::shard::run("C03", opts, report, n_items, 16, |item, report| {
        let env = Env::dummy();
        let (wi, si, batch) = items[item];
        let mut ws = worlds(&env);
        let mut sets_override: Option<Vec<(String, Vec<Reg>)>> = None;
        if wi == HIGH_WORLD {
            let mut c = Chain::new(Arc::clone(&env.consensus), scen::wavy_plan(60));
            let acts = vec![
                (250, Act::Mine('A')),
                (252, Act::Mine('A')),
                (254, Act::Move('A', 'B')),
                (255, Act::Mine('B')),
                (257, Act::Move('A', 'A')),
                (261, Act::Move('B', 'A')),
                (263, Act::Mine('A')),
                (266, Act::Move('A', 'B')),
            ];
            scen::extend_chain(&mut c, &env.scripts, 270, &acts);
            ws.push(("W-high270".to_owned(), c));
            let reg = |ch: char, start: u64| Reg { script: env.scripts.by_name(ch), is_lock: true, start };
            sets_override = Some(vec![("A@248,B@248".to_owned(), vec![reg('A', 248), reg('B', 248)])]);
        }
        let (wname, chain) = &ws[wi.min(ws.len() - 1)];
        let sets = sets_override.unwrap_or_else(|| script_sets(&env, chain.tip_number()));
        let (sname, regs) = &sets[si];
        let sc = IndexScenario {
            env: &env,
            name: format!("{}/{}/batch{}", wname, sname, batch),
            chain: chain.clone(),
            regs: regs.clone(),
            cfg: ClientCfg {
                last_n: 3,
                cp_interval: if wi == HIGH_WORLD { 20 } else { 4 },
                ..Default::default()
            },
            filter_batch: batch,
            fetch_txs: interesting_txs(chain, regs),
            fetch_headers: vec![2],
            raised: std::cell::RefCell::new(None),
        };
        if std::env::var("C03_TRACE").is_ok() {
            let mut v = vec![];
            let (_s, out) = explore::run(&sc, None, &[], 0, true, &mut v);
            for l in &out.trace {
                eprintln!("  {}", l);
            }
        }
        // (two deviations for the batch-3 histories; the others stay at one: the pair space of all
        // 72 histories did not finish under the run cap)
        let bound = if thorough && batch == 3 { 2 } else { 1 };
        let max_runs = if thorough { 8000 } else { 1500 };
        let name = sc.name.clone();
        let regs2 = regs.clone();
        let mut nonempty = 0u64;
        // classes that already show in the default run are not attributed to a deviation
        let mut base_classes: Vec<String> = vec![];
        let stats = {
            let mut judge = |sim: &Sim, outcome: &RunOutcome, devs: &[(usize, Dev)], extra: &[(String, String, usize)]| {
                let regs2 = sc.effective_regs();
                let bad = judge_run(sim, outcome, &regs2, extra);
                let has_cells = regs2.iter().any(|r| oracle::rpc_cells(sim.c(), &r.script, r.is_lock).map(|v| !v.is_empty()).unwrap_or(false));
                if has_cells {
                    nonempty += 1;
                }
                let groups = oracle::group(bad);
                if !groups.is_empty() {
                    // replay the run with tracing for the report
                    let mut v = vec![];
                    let (_s, traced) = explore::run(&sc, None, devs, 0, true, &mut v);
                    for (class, items) in groups {
                        if devs.is_empty() {
                            base_classes.push(class.clone());
                        }
                        let dev_kinds: Vec<String> = if base_classes.contains(&class) {
                            vec![]
                        } else {
                            devs.iter().map(|(_, d)| format!("{:?}", d).split('(').next().unwrap_or("").to_owned()).collect()
                        };
                        // stale cells after raising a start number over indexed data have one root
                        // cause, whatever other deviation the run contains
                        let sig = if class == "spent-cell-served" && devs.iter().any(|(_, d)| matches!(d, Dev::SetScripts(..))) {
                            "spent-cell-served/SetScripts".to_owned()
                        } else {
                            format!("{}/{}", class, dev_kinds.join("+"))
                        };
                        report.violation(
                            sig,
                            format!("[{}] {}", name, items[0]),
                            json!({"scenario": name, "deviations": explore::devs_json(devs), "all": items.iter().take(8).collect::<Vec<_>>(), "trace": traced.trace}),
                        );
                    }
                }
            };
            // in the second level only combine with deviations of a different kind or later user
            // calls (keeps the pair space focused); everything is allowed at level one
            let filter = |_prev: &[(usize, Dev)], _step: usize, _d: &Dev| true;
            explore::explore(&sc, bound, max_runs, &filter, &mut judge)
        };
        report.count("states", stats.distinct_final.len() as u64);
        report.count("transitions", stats.steps);
        report.count("runs", stats.runs);
        report.count("runs_with_indexed_cells", nonempty);
        for (b, n) in &stats.by_bound {
            report.count(&format!("runs_with_{}_deviations", b), *n);
        }
        if stats.capped {
            report.cap(&format!("{}: run cap {} reached at bound {}", sc.name, max_runs, bound));
        }
        if item == 0 {
            // one default run with its trace as the sample
            let mut v = vec![];
            let (_sim, out) = explore::run(&sc, None, &[(6, Dev::TickRound)], 0, true, &mut v);
            report.sample(json!({"scenario": sc.name, "deviations": [{"step": 6, "deviation": "TickRound"}], "trace": out.trace.iter().take(40).collect::<Vec<_>>()}));
        }
    });
    if worker {
        return;
    }
    report.set("traces_validated_against_impl", json!(report.get("runs")));
    report.set("evaluations", json!(report.get("runs")));
    report.set("distinct_nontrivial", json!(report.get("runs_with_indexed_cells")));
    report.set("rule", json!("a run = the honest sync history of one (world, script set, batch size) with <= bound deviations inserted, executed from scratch on the real client; states = distinct final (store, peers) fingerprints; transitions = executed steps (deliveries, timer rounds, user calls, restarts); every run is judged after quiescence by the reference index"));
    report.set("bounds", json!({"deviations": if thorough { 2 } else { 1 }, "worlds": 4, "script_sets": 6, "deviation_alphabet": ["DeliverIndex", "TruncateBatch", "TickRound", "Restart", "FetchTx", "FetchHeader", "SetScripts(partial, unchanged)"]}));
    report.assume("honest peers only; the world grows by one empty block on a restart so that the peer can be proven again");
}
