//! Panic capture: the process-wide panic hook records location, message and the innermost frame
//! of the code under test per thread; `catch` runs a closure and converts a panic into `Err`.

use std::cell::RefCell;
use std::panic::{catch_unwind, AssertUnwindSafe, PanicInfo};
use std::sync::atomic::Ordering;

#[derive(Clone, Debug)]
pub(crate) struct PanicRec {
    /// file:line as reported by the panic
    pub loc: String,
    pub msg: String,
    /// innermost function of the code under test on the stack (module path, no line number)
    pub func: String,
}

impl PanicRec {
    /// Stable identification of the failing site: function + message class (no line numbers,
    /// no values).
    pub(crate) fn site(&self) -> String {
        // digit runs -> '#', cut at the first comma: no values in the signature
        let mut head = String::new();
        let mut in_digits = false;
        for c in self.msg.chars() {
            if c.is_ascii_digit() {
                if !in_digits {
                    head.push('#');
                }
                in_digits = true;
            } else {
                in_digits = false;
                if c == ',' || c == '\n' {
                    break;
                }
                head.push(c);
            }
            if head.len() >= 70 {
                break;
            }
        }
        format!("{}/{}", self.func, head)
    }
    pub(crate) fn describe(&self) -> String {
        format!(
            "panic at {} in {}: {}",
            short_loc(&self.loc),
            self.func,
            self.msg.chars().take(200).collect::<String>()
        )
    }
}

thread_local! {
    static LAST: RefCell<Option<PanicRec>> = RefCell::new(None);
}

pub(crate) fn record(info: &PanicInfo) {
    let loc = info
        .location()
        .map(|l| format!("{}:{}", l.file(), l.line()))
        .unwrap_or_else(|| "?".to_owned());
    let msg = if let Some(s) = info.payload().downcast_ref::<&str>() {
        (*s).to_owned()
    } else if let Some(s) = info.payload().downcast_ref::<String>() {
        s.clone()
    } else {
        "<non-string panic payload>".to_owned()
    };
    let bt = std::backtrace::Backtrace::force_capture().to_string();
    let func = bt
        .lines()
        .map(|l| l.trim())
        .filter_map(|l| l.split_once(": ").map(|(_, f)| f))
        .find(|f| f.starts_with("lcverif::") && !f.starts_with("lcverif::verif"))
        .map(|f| {
            let f = f.trim_start_matches("lcverif::");
            // closures: `a::b::{{closure}}` -> `a::b`
            f.replace("::{{closure}}", "")
        })
        .unwrap_or_else(|| "?".to_owned());
    LAST.with(|l| *l.borrow_mut() = Some(PanicRec { loc, msg, func }));
}

pub(crate) fn take() -> Option<PanicRec> {
    LAST.with(|l| l.borrow_mut().take())
}

/// Runs `f`; a panic becomes `Err(PanicRec)`. Panic output is silenced meanwhile.
pub(crate) fn catch<R>(f: impl FnOnce() -> R) -> Result<R, PanicRec> {
    let prev = crate::verif::QUIET_PANICS.swap(true, Ordering::SeqCst);
    let _ = take();
    let r = catch_unwind(AssertUnwindSafe(f));
    crate::verif::QUIET_PANICS.store(prev, Ordering::SeqCst);
    match r {
        Ok(v) => Ok(v),
        Err(_) => Err(take().unwrap_or_else(|| PanicRec {
            loc: "?".to_owned(),
            msg: "?".to_owned(),
            func: "?".to_owned(),
        })),
    }
}

/// `/repo/src/a/b.rs:12` -> `a/b.rs:12`
pub(crate) fn short_loc(loc: &str) -> String {
    if let Some(i) = loc.find("/registry/src/") {
        let rest = &loc[i + "/registry/src/".len()..];
        return match rest.find('/') {
            Some(j) => rest[j + 1..].to_owned(),
            None => rest.to_owned(),
        };
    }
    match loc.find("/src/") {
        Some(i) => loc[i + 5..].to_owned(),
        None => loc.to_owned(),
    }
}
