//! Generic mutation sweep over the scenarios of `c10`: every mutant of the pending honest answer
//! (and a cross alphabet) is delivered to the real handlers; a caller-supplied *view* function is
//! evaluated before and after every delivery and a caller-supplied judge decides.

use ckb_network::{bytes::Bytes, PeerIndex};
use ckb_types::{packed, prelude::*};

use crate::verif::driver::{InFlight, Sim};
use crate::verif::mutate::{self, Mutant};
use crate::verif::net::Proto;
use crate::verif::props::c10::{build_with, Params, Scn, Worlds};
use crate::verif::props::panics::{self, PanicRec};
use crate::verif::scen::{kind_of, Env};

#[derive(Clone, Debug, PartialEq, Eq)]
pub(crate) enum Kind {
    /// mutant of the home message, delivered in the home state
    HomeMutant,
    /// the honest home message itself, delivered in the home state (control: must be accepted)
    HonestControl,
    /// a message of the cross alphabet
    Cross,
}

pub(crate) struct Ctx<'a> {
    pub scn: Scn,
    pub kind: Kind,
    pub home_kind: String,
    pub label: &'a str,
    pub proto: &'a Proto,
    pub peer: usize,
    pub data: &'a Bytes,
    /// for home mutants: the honest message
    pub honest: Option<&'a Bytes>,
}

pub(crate) struct Outcome {
    pub panic: Option<PanicRec>,
    pub view_before: String,
    pub view_after: String,
    pub bans: Vec<String>,
}

pub(crate) struct SweepOpts {
    pub thorough: bool,
    pub byte_windows: bool,
    pub truncations: bool,
    pub bit_flips: bool,
    pub structural: bool,
    pub reseal: bool,
    /// run a timer round after every delivery that changed the state (inside the observed step)
    pub tick_after_change: bool,
    pub honest_control: bool,
    /// after a delivery that changed the state without a ban: drop the honest twin of the mutant
    /// from the queue and run the honest history on to quiescence before the view is taken
    pub follow_up: bool,
    /// the view can only change when the client's light print (peers + meta records) changed:
    /// skip recomputing it otherwise
    pub view_only_on_change: bool,
    /// only home mutants with index % chunk.1 == chunk.0 (work splitting)
    pub chunk: (usize, usize),
}

#[derive(Default, Debug)]
pub(crate) struct Stats {
    pub deliveries: u64,
    pub rebuilds: u64,
    pub view_changes: u64,
    pub state_changes: u64,
    pub panics: u64,
    pub homes: u64,
    pub follow_ups: u64,
}

pub(crate) type CrossMsg = (Proto, String, Bytes);

#[allow(clippy::too_many_arguments)]
pub(crate) fn sweep_scenario(
    env: &Env,
    w: &Worlds,
    params: &Params,
    scn: Scn,
    opts: &SweepOpts,
    extra_mutants: &dyn Fn(&InFlight) -> Vec<Mutant>,
    cross: &[CrossMsg],
    view: &dyn Fn(&Sim) -> String,
    judge: &mut dyn FnMut(&Ctx, &Outcome),
) -> Stats {
    let mut stats = Stats::default();
    let (mut sim, n_home) = build_with(env, w, params, scn, None);
    let homes: Vec<InFlight> = sim.queue.iter().take(n_home).cloned().collect();
    let mut light_before = sim.c().light_print();
    let mut view_before = view(&sim);

    let mut deliver = |sim: &mut Sim,
                       light_before: &str,
                       view_before: &str,
                       ctx: &Ctx,
                       stats: &mut Stats,
                       judge: &mut dyn FnMut(&Ctx, &Outcome)|
     -> (bool, bool) {
        stats.deliveries += 1;
        crate::verif::props::shard::journal(ctx.label);
        let p = PeerIndex::new(ctx.peer);
        let data = ctx.data.clone();
        let r = panics::catch(|| {
            let c = sim.cm();
            match ctx.proto {
                Proto::LightClient => c.recv_lc(p, data.clone()),
                Proto::Filter => c.recv_filter(p, data.clone()),
                Proto::Sync => c.recv_sync(p, data.clone()),
                Proto::Relay => c.recv_relay(p, data.clone()),
            }
        });
        let mut panic = r.err();
        let mut rebuild = panic.is_some();
        let mut view_after = String::new();
        let mut bans = vec![];
        if panic.is_none() {
            let _ = sim.c().out.take_sent();
            bans = sim.c().out.take_bans().into_iter().map(|(_, r)| r).collect();
            let light_after = sim.c().light_print();
            if light_after != light_before {
                stats.state_changes += 1;
                rebuild = true;
                if opts.tick_after_change {
                    let r2 = panics::catch(|| {
                        sim.advance(10);
                        sim.tick_all();
                    });
                    panic = r2.err();
                }
                if opts.follow_up && ctx.kind == Kind::HomeMutant && bans.is_empty() && panic.is_none() {
                    if let Some(h) = ctx.honest {
                        if let Some(pos) = sim.queue.iter().position(|m| &m.data == h) {
                            sim.queue.remove(pos);
                        }
                    }
                    stats.follow_ups += 1;
                    let r3 = panics::catch(|| {
                        sim.converge(40);
                    });
                    panic = r3.err();
                    let _ = sim.c().out.take_bans();
                }
            }
            if panic.is_none() {
                view_after = if opts.view_only_on_change && !rebuild {
                    view_before.to_owned()
                } else {
                    view(sim)
                };
                if view_after != view_before {
                    stats.view_changes += 1;
                }
            }
        }
        let panicked = panic.is_some();
        if panicked {
            stats.panics += 1;
        }
        let outcome = Outcome {
            panic,
            view_before: view_before.to_owned(),
            view_after,
            bans,
        };
        judge(ctx, &outcome);
        (rebuild, panicked)
    };

    macro_rules! go {
        ($ctx:expr) => {{
            let (rebuild, panicked) = deliver(&mut sim, &light_before, &view_before, $ctx, &mut stats, judge);
            if rebuild {
                stats.rebuilds += 1;
                let (s, _) = build_with(env, w, params, scn, if panicked { None } else { Some(sim) });
                sim = s;
                light_before = sim.c().light_print();
                view_before = view(&sim);
            }
        }};
    }

    for home in &homes {
        stats.homes += 1;
        let home_kind = kind_of(home);
        let mut muts: Vec<Mutant> = vec![];
        if opts.byte_windows {
            mutate::byte_windows(&home.data, opts.thorough, |m| {
                if opts.thorough
                    || m.label.ends_with("v=0)")
                    || ((m.label.contains("w=8") || m.label.contains("w=32")) && m.label.ends_with("v=1)"))
                {
                    muts.push(m)
                }
            });
        }
        if opts.truncations {
            mutate::truncations(&home.data, |m| muts.push(m));
        }
        if opts.bit_flips {
            mutate::bit_flips(&home.data, |m| muts.push(m));
        }
        if opts.structural {
            muts.extend(mutate::structural(&home.proto, &home.data));
        }
        muts.extend(extra_mutants(home));
        for (mi, m) in muts.into_iter().enumerate() {
            if m.data == home.data || mi % opts.chunk.1 != opts.chunk.0 {
                continue;
            }
            let ctx = Ctx {
                scn,
                kind: Kind::HomeMutant,
                home_kind: home_kind.clone(),
                label: &m.label,
                proto: &home.proto,
                peer: home.peer,
                data: &m.data,
                honest: Some(&home.data),
            };
            go!(&ctx);
            if opts.reseal && home.proto == Proto::LightClient {
                if let Some(resealed) = mutate::reseal_lc(&env.consensus, &m.data) {
                    if resealed != m.data && resealed != home.data {
                        let label = format!("{}+resealed", m.label);
                        let ctx = Ctx {
                            scn,
                            kind: Kind::HomeMutant,
                            home_kind: home_kind.clone(),
                            label: &label,
                            proto: &home.proto,
                            peer: home.peer,
                            data: &resealed,
                            honest: Some(&home.data),
                        };
                        go!(&ctx);
                    }
                }
            }
        }
    }
    for (proto, label, data) in cross {
        if opts.chunk.0 != 0 {
            break;
        }
        for peer in [1usize, 7] {
            let ctx = Ctx {
                scn,
                kind: Kind::Cross,
                home_kind: String::new(),
                label,
                proto,
                peer,
                data,
                honest: None,
            };
            go!(&ctx);
        }
    }
    if opts.honest_control && opts.chunk.0 == 0 {
        for home in &homes {
            let home_kind = kind_of(home);
            let ctx = Ctx {
                scn,
                kind: Kind::HonestControl,
                home_kind,
                label: "honest",
                proto: &home.proto,
                peer: home.peer,
                data: &home.data,
                honest: None,
            };
            go!(&ctx);
        }
    }
    stats
}

/// Byte offset -> field path for the messages whose mutants are classified by section.
pub(crate) fn field_map(proto: &Proto, data: &[u8]) -> Vec<(usize, usize, String)> {
    let mut out: Vec<(usize, usize, String)> = vec![];
    let base = data.as_ptr() as usize;
    let mut add = |slice: &[u8], name: String| {
        let off = slice.as_ptr() as usize - base;
        out.push((off, off + slice.len(), name));
    };
    fn vh_fields(add: &mut dyn FnMut(&[u8], String), vh: packed::VerifiableHeaderReader, prefix: &str) {
        let raw = vh.header().raw();
        add(raw.version().as_slice(), format!("{}.header.version", prefix));
        add(raw.compact_target().as_slice(), format!("{}.header.compact_target", prefix));
        add(raw.timestamp().as_slice(), format!("{}.header.timestamp", prefix));
        add(raw.number().as_slice(), format!("{}.header.number", prefix));
        add(raw.epoch().as_slice(), format!("{}.header.epoch", prefix));
        add(raw.parent_hash().as_slice(), format!("{}.header.parent_hash", prefix));
        add(raw.transactions_root().as_slice(), format!("{}.header.transactions_root", prefix));
        add(raw.proposals_hash().as_slice(), format!("{}.header.proposals_hash", prefix));
        add(raw.extra_hash().as_slice(), format!("{}.header.extra_hash", prefix));
        add(raw.dao().as_slice(), format!("{}.header.dao", prefix));
        add(vh.header().nonce().as_slice(), format!("{}.header.nonce", prefix));
        add(vh.uncles_hash().as_slice(), format!("{}.uncles_hash", prefix));
        add(vh.extension().as_slice(), format!("{}.extension", prefix));
        digest_fields(add, vh.parent_chain_root(), &format!("{}.parent_chain_root", prefix));
    }
    fn digest_fields(add: &mut dyn FnMut(&[u8], String), d: packed::HeaderDigestReader, prefix: &str) {
        add(d.children_hash().as_slice(), format!("{}.children_hash", prefix));
        add(d.total_difficulty().as_slice(), format!("{}.total_difficulty", prefix));
        add(d.start_number().as_slice(), format!("{}.start_number", prefix));
        add(d.end_number().as_slice(), format!("{}.end_number", prefix));
        add(d.start_epoch().as_slice(), format!("{}.start_epoch", prefix));
        add(d.end_epoch().as_slice(), format!("{}.end_epoch", prefix));
        add(d.start_timestamp().as_slice(), format!("{}.start_timestamp", prefix));
        add(d.end_timestamp().as_slice(), format!("{}.end_timestamp", prefix));
        add(d.start_compact_target().as_slice(), format!("{}.start_compact_target", prefix));
        add(d.end_compact_target().as_slice(), format!("{}.end_compact_target", prefix));
    }
    if *proto == Proto::LightClient {
        if let Ok(msg) = packed::LightClientMessageReader::from_compatible_slice(data) {
            match msg.to_enum() {
                packed::LightClientMessageUnionReader::SendLastStateProof(m) => {
                    vh_fields(&mut add, m.last_header(), "last_header");
                    for (i, h) in m.headers().iter().enumerate() {
                        vh_fields(&mut add, h, &format!("headers[{}]", i));
                    }
                    for (i, d) in m.proof().iter().enumerate() {
                        digest_fields(&mut add, d, &format!("proof[{}]", i));
                    }
                }
                packed::LightClientMessageUnionReader::SendLastState(m) => {
                    vh_fields(&mut add, m.last_header(), "last_header");
                }
                _ => {}
            }
        }
    }
    out
}

/// Names the fields a byte window [off, off+w) overlaps ("structure" for table headers/offsets).
pub(crate) fn fields_hit(map: &[(usize, usize, String)], off: usize, width: usize) -> String {
    let mut names: Vec<&str> = map
        .iter()
        .filter(|(a, b, _)| off < *b && off + width > *a)
        .map(|(_, _, n)| n.as_str())
        .collect();
    names.dedup();
    if names.is_empty() {
        "structure".to_owned()
    } else {
        // generalise the index: headers[3].x -> headers[*].x
        let mut gen: Vec<String> = names
            .iter()
            .map(|n| {
                let mut s = String::new();
                let mut in_idx = false;
                for c in n.chars() {
                    if c == '[' {
                        in_idx = true;
                        s.push_str("[*");
                    } else if c == ']' {
                        in_idx = false;
                        s.push(']');
                    } else if !in_idx {
                        s.push(c);
                    }
                }
                s
            })
            .collect();
        gen.dedup();
        gen.truncate(3);
        gen.join("+")
    }
}

/// Parses `window(off=..,w=..,v=..)` labels.
pub(crate) fn window_of(label: &str) -> Option<(usize, usize)> {
    let l = label.strip_prefix("window(off=")?;
    let (off, rest) = l.split_once(",w=")?;
    let (w, _) = rest.split_once(',')?;
    Some((off.parse().ok()?, w.parse().ok()?))
}
