//! C09 — set_scripts does what the README says and never makes a kept script lose history.
//!
//! E-seq: one (thorough: two) set_scripts command(s) from the alphabet {all, partial, delete} x
//! {[], [A@0], [A@lo], [A@hi], [B@lo], [A@lo,B@hi], [A@lo,A@hi]} inserted at every step of an
//! honest sync history (before / between filter batches, with matched blocks pending or partly
//! downloaded, after everything was indexed). Immediately after the command the script set must be
//! the documented one and no matched blocks may be pending; after every step every output entry
//! up to a script's reported number must be indexed; at quiescence the reference index must hold
//! for every registered script from the start number it was (or stayed) registered with.

use std::cell::RefCell;
use std::collections::BTreeMap;

use ckb_types::{packed, prelude::*};
use serde_json::json;

use crate::storage::ScriptType;
use crate::verif::client::ClientCfg;
use crate::verif::driver::{Sim, World};
use crate::verif::explore::{self, Dev, RunOutcome, Scenario};
use crate::verif::oracle::{self, Reg};
use crate::verif::props::Opts;
use crate::verif::report::Report;
use crate::verif::scen::{self, Env};
use crate::verif::world::Chain;

type Key = (Vec<u8>, bool);

fn key_of(s: &packed::Script, is_lock: bool) -> Key {
    (s.as_slice().to_vec(), is_lock)
}

struct SetScriptsScenario<'a> {
    env: &'a Env,
    chain: Chain,
    initial: Vec<Reg>,
    cfg: ClientCfg,
    filter_batch: u64,
    lists: Vec<Vec<(packed::Script, bool, u64)>>,
    /// reference script set: key -> (script, is_lock, start it is owed history from)
    reference: RefCell<BTreeMap<Key, Reg>>,
    immediate: RefCell<Vec<(String, String)>>,
    commands_applied: RefCell<u64>,
    /// block bodies arrive after everything else in flight (several matched-blocks records
    /// are pending at the same time)
    slow_blocks: bool,
}

impl<'a> SetScriptsScenario<'a> {
    fn regs(&self) -> Vec<Reg> {
        self.reference.borrow().values().cloned().collect()
    }
}

impl<'a> Scenario for SetScriptsScenario<'a> {
    fn init(&self, old: Option<Sim>) -> Sim {
        let mut world = World::new(vec![self.chain.clone()], self.cfg.cp_interval);
        world.add_peer(1, 0, self.chain.tip_number());
        world.filter_batch = self.filter_batch;
        world.slow_blocks = self.slow_blocks;
        crate::verif::client::set_now(crate::verif::world::BASE_TS + 1_000_000);
        let mut sim = match old {
            Some(old) => Sim::recycle(old, self.cfg.clone(), world),
            None => scen::new_sim(self.env, self.cfg.clone(), world),
        };
        crate::verif_hooks::rng_reset(7);
        let list: Vec<(packed::Script, ScriptType, u64)> = self
            .initial
            .iter()
            .map(|r| {
                (
                    r.script.clone(),
                    if r.is_lock { ScriptType::Lock } else { ScriptType::Type },
                    r.start,
                )
            })
            .collect();
        scen::register(&sim, &list);
        let mut reference = self.reference.borrow_mut();
        reference.clear();
        for r in &self.initial {
            reference.insert(key_of(&r.script, r.is_lock), r.clone());
        }
        self.immediate.borrow_mut().clear();
        *self.commands_applied.borrow_mut() = 0;
        sim.connect(1);
        sim
    }

    fn user_devs(&self, _sim: &Sim) -> Vec<Dev> {
        let mut v = vec![];
        for cmd in 0..3u8 {
            for li in 0..self.lists.len() {
                v.push(Dev::SetScripts(cmd, li));
            }
        }
        v
    }

    fn enable_reorder(&self) -> bool {
        false
    }
    fn enable_truncate(&self) -> bool {
        false
    }
    fn enable_restart(&self) -> bool {
        false
    }
    fn enable_tick(&self) -> bool {
        false
    }

    fn apply_custom(&self, sim: &mut Sim, dev: &Dev) {
        if let Dev::SetScripts(cmd, li) = dev {
            let list = &self.lists[*li];
            let before = oracle::rpc_scripts(sim.c());
            explore::user_set_scripts(sim, *cmd, list);
            *self.commands_applied.borrow_mut() += 1;
            // ---- reference semantics (README): all = replace, partial = upsert, delete = remove
            let mut reference = self.reference.borrow_mut();
            let noop = (*cmd == 1 || *cmd == 2) && list.is_empty();
            match cmd {
                0 => {
                    reference.clear();
                    for (s, l, n) in list {
                        reference.insert(key_of(s, *l), Reg { script: s.clone(), is_lock: *l, start: *n });
                    }
                }
                1 => {
                    for (s, l, n) in list {
                        reference.insert(key_of(s, *l), Reg { script: s.clone(), is_lock: *l, start: *n });
                    }
                }
                _ => {
                    for (s, l, _) in list {
                        reference.remove(&key_of(s, *l));
                    }
                }
            }
            // ---- immediately: documented script set with the given start numbers
            let after = oracle::rpc_scripts(sim.c());
            let mut imm = self.immediate.borrow_mut();
            let label = format!("{}({})", ["all", "partial", "delete"][*cmd as usize], li);
            for (s, l, n) in &after {
                match reference.get(&key_of(s, *l)) {
                    None => imm.push(("script-set/unexpected-script".into(), format!("after {} get_scripts lists a script that should not be registered", label))),
                    Some(_) => {
                        let given: Vec<u64> = list.iter().filter(|(ls, ll, _)| ls == s && ll == l).map(|(_, _, n)| *n).collect();
                        if *cmd != 2 && !given.is_empty() {
                            if !given.contains(n) {
                                imm.push(("script-set/wrong-start-number".into(), format!("after {} the script reports block {} but was registered with {:?}", label, n, given)));
                            }
                        } else {
                            // kept script: its number must not change by the command
                            let prev = before.iter().find(|(bs, bl, _)| bs == s && bl == l).map(|(_, _, n)| *n);
                            if prev != Some(*n) {
                                imm.push(("script-set/kept-script-number-changed".into(), format!("after {} a kept script reports block {} (before: {:?})", label, n, prev)));
                            }
                        }
                    }
                }
            }
            for (k, r) in reference.iter() {
                if !after.iter().any(|(s, l, _)| key_of(s, *l) == *k) {
                    imm.push(("script-set/missing-script".into(), format!("after {} get_scripts misses a script registered from {}", label, r.start)));
                }
            }
            // for duplicates the start the client kept is the one it owes history from
            for (s, l, n) in &after {
                if let Some(r) = reference.get_mut(&key_of(s, *l)) {
                    let dup = list.iter().filter(|(ls, ll, _)| ls == s && ll == l).count() > 1;
                    if dup {
                        r.start = *n;
                    }
                }
            }
            // ---- pending matched blocks are discarded (memory and store)
            if !noop {
                let mem = sim.c().peers.matched_blocks().read().map(|m| m.len()).unwrap_or(0);
                let stored = sim.c().storage.get_earliest_matched_blocks().is_some();
                if mem != 0 || stored {
                    imm.push(("pending-matched-blocks-kept".into(), format!("after {}: {} matched blocks in memory, stored record: {}", label, mem, stored)));
                }
            }
        }
    }

    fn after_step(&self, sim: &Sim, _step: usize) -> Vec<(String, String)> {
        let mut out: Vec<(String, String)> = self.immediate.borrow_mut().drain(..).collect();
        if *self.commands_applied.borrow() == 0 {
            return out;
        }
        let chain = &sim.world.chains[0];
        let regs = self.regs();
        for (k, d) in oracle::judge_index(sim.c(), chain, &regs, false) {
            // in intermediate states only "reported number covers skipped activity" is decided
            if k == "missing-output-entry" || k == "phantom-cell" {
                out.push((k, d));
            }
        }
        out
    }
}

pub(crate) fn run(opts: &Opts, report: &mut Report) {
    let thorough = opts.thorough();
    // items: (initial script set, filter batch)
    let items: Vec<(usize, u64, bool)> = if thorough {
        vec![(0, 5, false), (1, 5, false), (0, 3, false), (1, 1000, false), (2, 5, false), (0, 2, true), (1, 3, true), (1, 1, true), (2, 2, false)]
    } else {
        vec![(0, 5, false), (1, 5, false), (1, 2, true)]
    };
    let n_items = items.len();
    let worker = crate::verif::props::shard::run("C09", opts, report, n_items, 16, |item, report| {
        let env = Env::dummy();
        let (init_id, batch, slow_blocks) = items[item];
        let chain = crate::verif::props::c03::worlds(&env)[0].1.clone();
        let s = &env.scripts;
        let (lo, hi) = (1u64, 10u64);
        let initial: Vec<Reg> = match init_id {
            0 => vec![Reg { script: s.a.clone(), is_lock: true, start: 0 }, Reg { script: s.t.clone(), is_lock: false, start: 0 }],
            1 => vec![Reg { script: s.a.clone(), is_lock: true, start: 0 }, Reg { script: s.b.clone(), is_lock: true, start: 0 }],
            _ => vec![Reg { script: s.b.clone(), is_lock: true, start: 0 }],
        };
        let lists: Vec<Vec<(packed::Script, bool, u64)>> = vec![
            vec![],
            vec![(s.a.clone(), true, 0)],
            vec![(s.a.clone(), true, lo)],
            vec![(s.a.clone(), true, hi)],
            vec![(s.b.clone(), true, lo)],
            vec![(s.a.clone(), true, lo), (s.b.clone(), true, hi)],
            vec![(s.a.clone(), true, lo), (s.a.clone(), true, hi)],
            vec![(s.c.clone(), true, hi)],
        ];
        let sc = SetScriptsScenario {
            env: &env,
            chain,
            initial,
            cfg: ClientCfg { last_n: 3, cp_interval: 4, ..Default::default() },
            filter_batch: batch,
            lists,
            reference: RefCell::new(BTreeMap::new()),
            immediate: RefCell::new(vec![]),
            commands_applied: RefCell::new(0),
            slow_blocks,
        };
        let bound = if thorough { 2 } else { 1 };
        let max_runs = if thorough { 12_000 } else { 2_000 };
        let name = format!("W1/init{}/batch{}{}", init_id, batch, if slow_blocks { "/slow-blocks" } else { "" });
        let stats = {
            let mut judge = |sim: &Sim, outcome: &RunOutcome, devs: &[(usize, Dev)], extra: &[(String, String, usize)]| {
                let regs = sc.regs();
                // cells that went stale because the user raised a start number over already indexed
                // data are C03's subject (its statement covers "more set_scripts"), not C09's
                let bad: Vec<(String, String)> = crate::verif::props::c03::judge_run(sim, outcome, &regs, extra)
                    .into_iter()
                    .filter(|(k, _)| k != "spent-cell-served")
                    .collect();
                let groups = oracle::group(bad);
                if !groups.is_empty() {
                    let mut v = vec![];
                    let (_s, traced) = explore::run(&sc, None, devs, 0, true, &mut v);
                    for (class, items) in groups {
                        let cmds: Vec<String> = devs
                            .iter()
                            .map(|(_, d)| match d {
                                Dev::SetScripts(c, _) => ["all", "partial", "delete"][*c as usize].to_owned(),
                                other => format!("{:?}", other),
                            })
                            .collect();
                        report.violation(
                            format!("{}/{}", class, cmds.join("+")),
                            format!("[{}] {}", name, items[0]),
                            json!({"scenario": name, "deviations": explore::devs_json(devs), "lists": "0=[] 1=[A@0] 2=[A@1] 3=[A@10] 4=[B@1] 5=[A@1,B@10] 6=[A@1,A@10] 7=[C@10]", "all": items.iter().take(8).collect::<Vec<_>>(), "trace": traced.trace}),
                        );
                    }
                }
            };
            let filter = |_prev: &[(usize, Dev)], _step: usize, _d: &Dev| true;
            explore::explore(&sc, bound, max_runs, &filter, &mut judge)
        };
        report.count("states", stats.distinct_final.len() as u64);
        report.count("transitions", stats.steps);
        report.count("runs", stats.runs);
        for (b, n) in &stats.by_bound {
            report.count(&format!("runs_with_{}_commands", b), *n);
        }
        if stats.capped {
            report.cap(&format!("{}: run cap {} reached at bound {}", name, max_runs, bound));
        }
        if item == 0 {
            let mut v = vec![];
            let (_sim, out) = explore::run(&sc, None, &[(12, Dev::SetScripts(1, 4))], 0, true, &mut v);
            report.sample(json!({"scenario": name, "deviations": [{"step": 12, "deviation": "set_scripts(partial, [B@1])"}], "trace": out.trace.iter().take(40).collect::<Vec<_>>()}));
        }
    });
    if worker {
        return;
    }
    report.set("traces_validated_against_impl", json!(report.get("runs")));
    report.set("evaluations", json!(report.get("runs")));
    report.set("distinct_nontrivial", json!(report.get("states")));
    report.set("rule", json!("a run = the honest sync history with <= bound set_scripts commands inserted (24 commands x every step); states = distinct final (store, peers) fingerprints; transitions = executed steps; invariants after every step, reference index at quiescence"));
    report.set("bounds", json!({"commands_per_run": if thorough { 2 } else { 1 }, "commands": "{all, partial, delete} x 8 lists", "world": "W1-std13"}));
}

#[allow(dead_code)]
pub(crate) fn debug_case() {
    let env = Env::dummy();
    let chain = crate::verif::props::c03::worlds(&env)[0].1.clone();
    let s = &env.scripts;
    let sc = SetScriptsScenario {
        env: &env,
        chain,
        initial: vec![Reg { script: s.a.clone(), is_lock: true, start: 0 }, Reg { script: s.b.clone(), is_lock: true, start: 0 }],
        cfg: ClientCfg { last_n: 3, cp_interval: 4, ..Default::default() },
        filter_batch: 5,
        lists: vec![vec![(s.c.clone(), true, 10)]],
        reference: RefCell::new(BTreeMap::new()),
        immediate: RefCell::new(vec![]),
        commands_applied: RefCell::new(0),
        slow_blocks: true,
    };
    let mut v = vec![];
    let (sim, out) = explore::run(&sc, None, &[], 0, true, &mut v);
    for l in &out.trace {
        println!("{}", l);
    }
    println!("converged={} steps={}", out.converged, out.steps);
    let _ = sim;
}
