//! C08 — a crash at any storage write loses no script activity and leaves a usable store.
//!
//! E-crash: for each history (first-run initialisation; a complete honest sync with filter
//! batches with and without matches, matched blocks downloaded and indexed, check point
//! finalisation; growth through the child fast path; set_scripts in the middle of the sync; a
//! fork switch with rollback) and for EVERY write point k of it (each put / delete / batch commit
//! in storage.rs): the history runs on the real client, unwinds at the k-th write (the write does
//! not happen), every in-memory object is dropped, the store is reopened through the normal
//! start-up sequence, the peers reconnect and honest syncing continues to quiescence. Oracle:
//! reopen and start-up do not panic, no later step panics, quiescence is reached and the RPC
//! answers equal the reference index (= what the crash-free run shows).

use std::cell::{Cell, RefCell};
use std::sync::Arc;

use serde_json::json;

use crate::verif::client::{Client, ClientCfg};
use crate::verif::driver::Sim;
use crate::verif::explore::{self, Dev, Scenario};
use crate::verif::oracle::{self, Reg};
use crate::verif::props::c03::{self, IndexScenario};
use crate::verif::props::c04;
use crate::verif::props::{panics, Opts};
use crate::verif::report::Report;
use crate::verif::scen::Env;

struct History<'a> {
    name: String,
    sc: Box<dyn Scenario + 'a>,
    devs: Vec<(usize, Dev)>,
    regs: Vec<Reg>,
    /// chain index (in the sim's world) that is canonical at the end
    final_chain: usize,
}

fn histories<'a>(env: &'a Env, thorough: bool) -> Vec<History<'a>> {
    let mut v: Vec<History<'a>> = vec![];
    let ws = c03::worlds(env);
    let cfg = ClientCfg { last_n: 3, cp_interval: 4, ..Default::default() };
    let mk_index = |wi: usize, si: usize, batch: u64| -> (IndexScenario<'a>, Vec<Reg>) {
        let (wname, chain) = &ws[wi];
        let sets = c03::script_sets(env, chain.tip_number());
        let (sname, regs) = &sets[si];
        (
            IndexScenario {
                env,
                name: format!("{}/{}/batch{}", wname, sname, batch),
                chain: chain.clone(),
                regs: regs.clone(),
                cfg: cfg.clone(),
                filter_batch: batch,
                fetch_txs: c03::interesting_txs(chain, regs),
                fetch_headers: vec![2],
                raised: RefCell::new(None),
            },
            regs.clone(),
        )
    };
    // H-sync: complete honest sync (two script sets)
    for (wi, si) in if thorough { vec![(0usize, 1usize), (1, 0), (3, 3), (2, 1)] } else { vec![(0usize, 1usize), (1, 0)] } {
        let (sc, regs) = mk_index(wi, si, 5);
        v.push(History { name: format!("sync/{}", sc.name), sc: Box::new(sc), devs: vec![], regs, final_chain: 0 });
    }
    // H-sync with several matched-blocks records pending at once (filter batches of 2, block
    // bodies slower than everything else)
    {
        let (sc, regs) = mk_index(0, 1, 10_002);
        v.push(History { name: format!("sync-slow-blocks/{}", sc.name), sc: Box::new(sc), devs: vec![], regs, final_chain: 0 });
    }
    // H-set-scripts: a partial set_scripts while matched blocks are pending
    {
        let (sc, regs) = mk_index(0, 1, 5);
        v.push(History { name: format!("set_scripts-partial@12/{}", sc.name), sc: Box::new(sc), devs: vec![(12, Dev::SetScripts(1, 0))], regs, final_chain: 0 });
    }
    // H-set-scripts-delete: the LAST script is deleted while matched blocks of the first one are
    // pending (block 2 downloaded, block 3 not): the only thing that makes the client look at those
    // blocks again is the rewind before the discarded record - no script number asks for it
    {
        let (sc, regs) = mk_index(0, 1, 5);
        let regs = regs[..regs.len() - 1].to_vec();
        v.push(History { name: format!("set_scripts-delete-last@12/{}", sc.name), sc: Box::new(sc), devs: vec![(12, Dev::SetScripts(2, 2))], regs, final_chain: 0 });
    }
    if thorough {
        // the same with batches of 3 at a later moment
        {
            let (sc, regs) = mk_index(0, 1, 3);
            let regs = regs[..regs.len() - 1].to_vec();
            v.push(History { name: format!("set_scripts-delete-last@16/{}", sc.name), sc: Box::new(sc), devs: vec![(16, Dev::SetScripts(2, 2))], regs, final_chain: 0 });
        }
        // set_scripts all / delete at several moments of the sync (matched blocks pending, partly
        // downloaded, after indexing)
        // (the command re-registers the first script with the block number it currently reports:
        // `all` leaves only that script, `delete` removes it, `partial` changes nothing)
        for (step, cmd, label) in [(8usize, 0u8, "all"), (12, 2, "delete"), (16, 1, "partial"), (20, 0, "all")] {
            let (sc, regs) = mk_index(0, 1, 3);
            let regs: Vec<Reg> = match cmd {
                0 => vec![regs[0].clone()],
                2 => regs[1..].to_vec(),
                _ => regs,
            };
            v.push(History { name: format!("set_scripts-{}@{}/{}", label, step, sc.name), sc: Box::new(sc), devs: vec![(step, Dev::SetScripts(cmd, 0))], regs, final_chain: 0 });
        }
        // small filter batches (several matched-blocks records in the store at once)
        for (wi, si) in [(1usize, 1usize), (2, 0)] {
            let (sc, regs) = mk_index(wi, si, 2);
            v.push(History { name: format!("sync/{}", sc.name), sc: Box::new(sc), devs: vec![], regs, final_chain: 0 });
        }
    }
    // H-fetch: fetch_transaction + fetch_header in the middle of the sync
    {
        let (sc, regs) = mk_index(0, 0, 5);
        v.push(History { name: format!("fetch@9/{}", sc.name), sc: Box::new(sc), devs: vec![(9, Dev::FetchTx(0)), (10, Dev::FetchHeader(2))], regs, final_chain: 0 });
    }
    // H-fork: full sync of the old branch, then a switch to a fork within last-N (rollback)
    // (last-N 3 and growth >= 3: a restart may add one block to the old branch, the fork must stay
    // within last-N and the new branch must stay heavier)
    for (depth, growth, set) in if thorough { vec![(1u64, 3u64, 1usize), (2, 4, 1), (1, 5, 1), (1, 3, 3), (2, 5, 3), (2, 6, 0)] } else { vec![(1u64, 3u64, 1usize), (2, 4, 1)] } {
        let (sc, regs) = c04::scenario(env, 3, depth, growth, set);
        v.push(History { name: format!("fork/depth{}/growth{}/set{}", depth, growth, set), sc: Box::new(sc), devs: vec![], regs, final_chain: 1 });
    }
    // H-fork-while-down: the chain reorganises (within last-N) while the client is down: the crash
    // may leave a matched-blocks record of the abandoned branch behind, the first proof after
    // the restart is already the one of the new branch
    // (filter batches of 6: one record spans the fork point; of 2: records start after it)
    for (depth, growth, set, batch) in if thorough { vec![(2u64, 4u64, 1usize, 6u64), (2, 4, 1, 2), (1, 3, 1, 2), (2, 5, 3, 2), (1, 5, 0, 3), (2, 4, 1, 1)] } else { vec![(2u64, 4u64, 1usize, 6u64), (2, 4, 1, 2)] } {
        let (mut sc, regs) = c04::scenario(env, 3, depth, growth, set);
        sc.switch_while_down = true;
        sc.filter_batch = batch;
        v.push(History { name: format!("fork-while-down/depth{}/growth{}/set{}/batch{}", depth, growth, set, batch), sc: Box::new(sc), devs: vec![], regs, final_chain: 1 });
    }
    // the same with an old branch without script activity after block 8: the filter batches over
    // its last blocks match nothing and only move the scripts' block numbers and then the min
    // filtered block number (two writes); the new branch has activity in every block
    for (depth, growth, set, batch) in if thorough { vec![(2u64, 4u64, 1usize, 6u64), (2, 4, 1, 2), (1, 3, 1, 3), (2, 5, 3, 4), (1, 5, 0, 5), (2, 4, 1, 1)] } else { vec![(2u64, 4u64, 1usize, 6u64), (2, 4, 1, 3)] } {
        let (mut sc, regs) = c04::scenario_with(env, 3, depth, growth, set, true);
        sc.switch_while_down = true;
        sc.filter_batch = batch;
        v.push(History { name: format!("fork-while-down/quiet-old-branch/depth{}/growth{}/set{}/batch{}", depth, growth, set, batch), sc: Box::new(sc), devs: vec![], regs, final_chain: 1 });
    }
    v
}

/// Why a run after a fork switch does not get quiescent: a stored matched-blocks record that
/// lists a block which is not on the final chain, either starting after the fork point (the
/// rollback has to remove those) or at / below it (a record spanning the fork point: C04's
/// recorded finding, the rollback keeps it by design of the repository's reorg tests).
pub(crate) fn stall_cause(sim: &Sim, final_chain: usize) -> String {
    if sim.world.chains.len() < 2 {
        return String::new();
    }
    let (a, b) = (&sim.world.chains[0], &sim.world.chains[1]);
    let fork_at = (0..=a.tip_number().min(b.tip_number())).take_while(|n| a.blocks[*n as usize].hash() == b.blocks[*n as usize].hash()).count() as u64 - 1;
    let fin = &sim.world.chains[final_chain];
    let mut cause = String::new();
    for rec in [sim.c().storage.get_earliest_matched_blocks(), sim.c().storage.get_latest_matched_blocks()].into_iter().flatten() {
        let (start, _count, hashes) = rec;
        if hashes.iter().any(|(h, _)| fin.number_of(h).is_none()) {
            if start > fork_at {
                return "stale-record-after-the-fork-point".to_owned();
            }
            cause = "record-spanning-the-fork-point".to_owned();
        }
    }
    cause
}

/// The block a finding of the reference index is about (parsed from its text): the block that
/// created the missing cell / holds the missing entry / spent the served cell.
#[allow(dead_code)]
fn subject_block(class: &str, detail: &str) -> Option<u64> {
    let after = |mark: &str| -> Option<u64> {
        let rest = &detail[detail.find(mark)? + mark.len()..];
        let digits: String = rest.chars().take_while(|c| c.is_ascii_digit()).collect();
        digits.parse().ok()
    };
    match class {
        "missing-live-cell" => after("created in block "),
        "missing-output-entry" | "missing-input-entry" => after(") misses "),
        "spent-cell-served" => after(" which block "),
        _ => None,
    }
}

/// First-run initialisation: `Client::open` on an empty directory, crash at every write of
/// init_genesis_block, then a normal start on the same directory.
fn first_run_init(env: &Env, report: &mut Report) -> (u64, u64) {
    let cfg = ClientCfg::default();
    // count the writes of a clean initialisation
    explore::install_crash_hook();
    explore::arm_crash(None);
    let dir = crate::verif::client::fresh_dir();
    {
        let c = Client::open(cfg.clone(), Arc::clone(&env.consensus), dir.clone());
        drop(c);
    }
    let total = explore::writes_seen();
    let mut points = 0u64;
    for k in 0..total {
        points += 1;
        let dir = crate::verif::client::fresh_dir();
        explore::arm_crash(Some(k));
        let r = panics::catch(|| {
            let mut c = Client::open(cfg.clone(), Arc::clone(&env.consensus), dir.clone());
            c.keep_dir = true;
            drop(c);
        });
        explore::disarm_crash();
        match r {
            Err(p) if p.msg.contains(explore::CRASH_MARK) => {}
            Err(p) => {
                report.violation(format!("abort/{}", p.site()), p.describe(), json!({"history": "first-run-init", "crash_at_write": k}));
                continue;
            }
            Ok(()) => {}
        }
        // the next start on the same directory
        let r2 = panics::catch(|| {
            let c = Client::open(cfg.clone(), Arc::clone(&env.consensus), dir.clone());
            // the accessors every start-up path uses
            let _ = c.storage.get_last_state();
            let _ = c.storage.get_last_n_headers();
            let _ = c.storage.get_last_check_point();
            let _ = c.storage.get_min_filtered_block_number();
            let _ = c.storage.get_genesis_block();
            let _ = c.tip_number();
            drop(c);
        });
        if let Err(p) = r2 {
            report.violation(
                "first-run-init/store-unusable-after-crash".to_owned(),
                format!("after a crash at write {} of the first-run initialisation every later start panics: {}", k, p.describe()),
                json!({"history": "first-run-init", "crash_at_write": k, "total_writes": total}),
            );
        }
        let _ = std::fs::remove_dir_all(&dir);
    }
    (total, points)
}

pub(crate) fn run(opts: &Opts, report: &mut Report) {
    let thorough = opts.thorough();
    let env0 = Env::dummy();
    let n_hist = histories(&env0, thorough).len();
    drop(env0);
    // item 0 = first-run init; items 1.. = (history, slice of its crash points)
    const SLICES: usize = 4;
    let n_items = 1 + n_hist * SLICES;
    let worker = crate::verif::props::shard::run("C08", opts, report, n_items, 16, |item, report| {
        let env = Env::dummy();
        if item == 0 {
            let (writes, points) = first_run_init(&env, report);
            report.count("crash_points", points);
            report.count("histories", 1);
            report.count("write_points_first_run_init", writes);
            return;
        }
        let hi = (item - 1) / SLICES;
        let slice = (item - 1) % SLICES;
        let hs = histories(&env, thorough);
        let h = &hs[hi];
        // crash-free reference run (also tells the number of write points)
        let (sim0, out0) = explore::run_with_crash(h.sc.as_ref(), &h.devs, None, false);
        let total = out0.writes;
        if slice == 0 {
            report.count("histories", 1);
            report.count(&format!("write_points/{}", h.name), total);
            let sim0 = sim0.expect("reference run");
            let bad = c03::judge_run(&sim0, &out0.run, &h.regs, &[]);
            for (class, items) in oracle::group(bad) {
                // the crash-free run itself is judged by C03 / C04; here it only has to be sane
                if class == "stall" || class.starts_with("abort") {
                    report.violation(format!("reference-run/{}", class), format!("[{}] {}", h.name, items[0]), json!({"history": h.name}));
                }
            }
        }
        let mut points = 0u64;
        let mut k = slice as u64;
        while k < total {
            points += 1;
            crate::verif::props::shard::journal(&format!("{} crash@{}", h.name, k));
            let (sim, out) = explore::run_with_crash(h.sc.as_ref(), &h.devs, Some(k), false);
            let mut bad: Vec<(String, String)> = vec![];
            if let Some(p) = &out.reopen_panic {
                bad.push(("store-unusable-after-crash".into(), format!("reopen / start-up panics: {}", p.describe())));
            } else if let Some(sim) = &sim {
                if out.crashed_at_step.is_none() {
                    bad.push(("harness/crash-point-not-reached".into(), format!("write {} of {} was not reached", k, total)));
                }
                // a run in which the honest peer gets banned is C05's subject (e.g. the known
                // zero-sample rejection on the sampled path of a fork switch): not judged here
                let banned = !sim.bans().is_empty() || !sim.c().out.disconnects().is_empty();
                if banned && out.run.panic.is_none() {
                    report.count("cases_not_judged_honest_peer_banned", 1);
                    k += SLICES as u64;
                    continue;
                }
                let mut judged = c03::judge_run(sim, &out.run, &h.regs, &[]);
                // runs in which the honest peer is banned belong to C05; known C04 stalls
                // (spanning record) are C04's
                judged.retain(|(c, _)| !c.starts_with("uncommitted-record/TxHash") && !c.starts_with("uncommitted-record/BlockHash") && !c.starts_with("uncommitted-record/BlockNumber"));
                bad.extend(judged);
            }
            let cause = sim.as_ref().map(|s| stall_cause(s, h.final_chain)).unwrap_or_default();
            // A sync that waits for a stale record for good may also come to rest (nothing changes
            // any more) instead of re-requesting for ever: then the run is reported as not caught
            // up, and everything about blocks above the filtered height (not examined again after
            // the rollback) is a consequence of that wait, not another defect.
            // (the same holds when the wait shows as endless re-requesting - the proofs of the
            // abandoned blocks are asked for again and again since the kept record is no longer
            // marked proved - instead of coming to rest: "stall" with that cause)
            if !cause.is_empty() && bad.iter().any(|(c, _)| c == "not-caught-up" || c == "stall") {
                // The sync waits for the stale record for good. What the index lacks (or still
                // holds as live) then only says where the wait caught it - possibly in the middle
                // of a record (a block indexed, the scripts' numbers not yet moved): completeness
                // findings are consequences of the wait. Truthfulness findings (phantom cells,
                // records the final chain does not contain, wrong fields) are not.
                for (class, _detail) in bad.iter_mut() {
                    if ["not-caught-up", "missing-live-cell", "missing-output-entry", "missing-input-entry", "spent-cell-served"].contains(&class.as_str()) {
                        *class = "stall".to_owned();
                    }
                }
            }
            for (class, items) in oracle::group(bad) {
                let hist_kind = h.name.split('/').next().unwrap_or("").to_owned();
                // a run that never gets quiescent is named after what keeps it busy
                let class = if class == "stall" && !cause.is_empty() { format!("stall({})", cause) } else { class };
                report.violation(
                    format!("{}/{}", class, hist_kind),
                    format!("[{}] crash at write {} of {} (step {:?}): {}", h.name, k, total, out.crashed_at_step, items[0]),
                    json!({"history": h.name, "deviations": explore::devs_json(&h.devs), "crash_at_write": k, "total_writes": total, "crashed_at_step": out.crashed_at_step, "all": items.iter().take(6).collect::<Vec<_>>()}),
                );
            }
            k += SLICES as u64;
        }
        // ---- the same crash points once more, with the last BlockFilters answer of before the
        // crash arriving a second time right after the restart (its sender proven again, the stored
        // matched-blocks record not yet recovered into the memory): sync histories
        if h.name.starts_with("sync") && (thorough || hi < 3) {
            explore::REPLAY_FILTERS_AFTER_RESTART.store(true, std::sync::atomic::Ordering::SeqCst);
            let mut k = slice as u64;
            while k < total {
                crate::verif::props::shard::journal(&format!("{} crash@{} + repeated BlockFilters after the restart", h.name, k));
                let (sim, out) = explore::run_with_crash(h.sc.as_ref(), &h.devs, Some(k), false);
                report.count("crash_points_with_repeated_filters", 1);
                let mut bad: Vec<(String, String)> = vec![];
                if let Some(p) = &out.reopen_panic {
                    bad.push(("store-unusable-after-crash".into(), format!("reopen / start-up panics: {}", p.describe())));
                } else if let Some(sim) = &sim {
                    let banned = !sim.bans().is_empty() || !sim.c().out.disconnects().is_empty();
                    if banned && out.run.panic.is_none() {
                        // (the repeated answer itself may get its sender banned: then the run
                        // says nothing about the crash)
                        report.count("cases_not_judged_honest_peer_banned", 1);
                        k += SLICES as u64;
                        continue;
                    }
                    let mut judged = c03::judge_run(sim, &out.run, &h.regs, &[]);
                    judged.retain(|(c, _)| !c.starts_with("uncommitted-record/TxHash") && !c.starts_with("uncommitted-record/BlockHash") && !c.starts_with("uncommitted-record/BlockNumber"));
                    bad.extend(judged);
                }
                for (class, items) in oracle::group(bad) {
                    let hist_kind = h.name.split('/').next().unwrap_or("").to_owned();
                    report.violation(
                        format!("{}/{}/repeated-filters-after-restart", class, hist_kind),
                        format!("[{}] crash at write {} of {}, the last BlockFilters answer repeated right after the restart: {}", h.name, k, total, items[0]),
                        json!({"history": h.name, "crash_at_write": k, "total_writes": total, "repeated_block_filters_after_restart": true, "all": items.iter().take(6).collect::<Vec<_>>()}),
                    );
                }
                k += SLICES as u64;
            }
            explore::REPLAY_FILTERS_AFTER_RESTART.store(false, std::sync::atomic::Ordering::SeqCst);
        }
        // ---- thorough: a second crash at every write point of the recovery, for the crash
        // points of this slice of the first two sync histories and the first fork history
        if thorough && (hi < 2 || h.name.starts_with("fork/depth1/growth3/set1")) {
            let mut k = slice as u64;
            while k < total {
                // how many write points does the recovery after a crash at k have?
                let (_s, out1) = explore::run_with_crashes(h.sc.as_ref(), &h.devs, Some(k), None, false);
                let rec = out1.recovery_writes;
                for j in 0..rec {
                    crate::verif::props::shard::journal(&format!("{} crash@{} + crash@{} of the recovery", h.name, k, j));
                    let (sim, out) = explore::run_with_crashes(h.sc.as_ref(), &h.devs, Some(k), Some(j), false);
                    report.count("double_crash_points", 1);
                    let mut bad: Vec<(String, String)> = vec![];
                    if let Some(p) = &out.reopen_panic {
                        bad.push(("store-unusable-after-crash".into(), format!("reopen / start-up panics: {}", p.describe())));
                    } else if let Some(sim) = &sim {
                        let banned = !sim.bans().is_empty() || !sim.c().out.disconnects().is_empty();
                        if banned && out.run.panic.is_none() {
                            report.count("cases_not_judged_honest_peer_banned", 1);
                            continue;
                        }
                        let mut judged = c03::judge_run(sim, &out.run, &h.regs, &[]);
                        judged.retain(|(c, _)| !c.starts_with("uncommitted-record/TxHash") && !c.starts_with("uncommitted-record/BlockHash") && !c.starts_with("uncommitted-record/BlockNumber"));
                        bad.extend(judged);
                    }
                    for (class, items) in oracle::group(bad) {
                        let hist_kind = h.name.split('/').next().unwrap_or("").to_owned();
                        report.violation(
                            format!("{}/{}/double-crash", class, hist_kind),
                            format!("[{}] crash at write {} of {}, then at write {} of {} of the recovery: {}", h.name, k, total, j, rec, items[0]),
                            json!({"history": h.name, "crash_at_write": k, "second_crash_at_recovery_write": j, "all": items.iter().take(6).collect::<Vec<_>>()}),
                        );
                    }
                }
                k += SLICES as u64;
            }
        }
        report.count("crash_points", points);
        if item == 1 {
            report.sample(json!({"history": h.name, "write_points": total, "case": "crash at write 17: unwind inside the handler, drop all objects, reopen, reconnect (chain +1 block), converge, judge by the reference index"}));
        }
    });
    if worker {
        return;
    }
    let cp = report.get("crash_points");
    report.set("evaluations", json!(cp));
    report.set("distinct_nontrivial", json!(cp));
    report.set("states", json!(cp));
    report.set("transitions", json!(cp));
    report.set("traces_validated_against_impl", json!(cp));
    report.set("rule", json!("one case = (history, k): the history executed on the real client with the process dying at its k-th storage write point, followed by reopen, restart and honest convergence; all k of every history are enumerated; every case is distinct and non-trivial (the crash point is reached)"));
    report.assume("a RocksDB put / delete / write(batch) is atomic and durable once it returned; torn batches and power loss are outside the model");
    report.assume("after a restart the world grows by one empty block so that the peers can be proven again (in the crashed and in the crash-free run alike)");
}

/// Development aid: C08_HIST=<substring of the history name> C08_K=<write point> [C08_J=<second>]
/// (VERIF_TRACE=1 for the message trace).
pub(crate) fn debug_case() {
    let env = Env::dummy();
    let want = std::env::var("C08_HIST").unwrap_or_default();
    let k: u64 = std::env::var("C08_K").ok().and_then(|x| x.parse().ok()).unwrap_or(0);
    let j: Option<u64> = std::env::var("C08_J").ok().and_then(|x| x.parse().ok());
    let thorough = std::env::var("C08_THOROUGH").is_ok();
    for h in histories(&env, thorough) {
        if !h.name.contains(&want) {
            continue;
        }
        println!("history {}", h.name);
        let (sim, out) = explore::run_with_crashes(h.sc.as_ref(), &h.devs, Some(k), j, false);
        for l in &out.run.trace {
            println!("  {}", l);
        }
        println!("crashed at step {:?}, writes {}, converged {}, panic {:?}, reopen panic {:?}", out.crashed_at_step, out.writes, out.run.converged, out.run.panic.as_ref().map(|p| p.describe()), out.reopen_panic.as_ref().map(|p| p.describe()));
        if let Some(sim) = &sim {
            println!("bans {:?}", sim.bans());
            for (c, d) in c03::judge_run(sim, &out.run, &h.regs, &[]) {
                println!("  {}: {}", c, d);
            }
            println!("stored tip #{} min filtered {}", sim.c().tip_number(), sim.c().storage.get_min_filtered_block_number());
            println!("cause {:?} earliest record {:?} latest {:?}", stall_cause(sim, h.final_chain), sim.c().storage.get_earliest_matched_blocks().map(|(s, n, l)| (s, n, l.len())), sim.c().storage.get_latest_matched_blocks().map(|(s, n, l)| (s, n, l.len())));
        }
        break;
    }
}
