//! The verification machinery (see /verif/DESIGN.md).

pub(crate) mod bfs;
pub(crate) mod client;
pub(crate) mod driver;
pub(crate) mod explore;
pub(crate) mod mutate;
pub(crate) mod net;
pub(crate) mod oracle;
pub(crate) mod props;
pub(crate) mod report;
pub(crate) mod scen;
pub(crate) mod sched;
pub(crate) mod txlib;
pub(crate) mod world;

mod smoke;

/// set by checks that expect (and catch) panics in the code under test
pub(crate) static QUIET_PANICS: std::sync::atomic::AtomicBool =
    std::sync::atomic::AtomicBool::new(false);

pub(crate) fn main() -> i32 {
    let args: Vec<String> = std::env::args().collect();
    let _ = env_logger::Builder::from_env(env_logger::Env::default().default_filter_or("off"))
        .target(env_logger::Target::Stdout)
        .try_init();
    if std::env::var("VERIF_PANIC_TRACE").is_err() {
        std::panic::set_hook(Box::new(|info| {
            if !QUIET_PANICS.load(std::sync::atomic::Ordering::SeqCst) {
                eprintln!("panic: {}", info);
            }
            props::panics::record(info);
        }));
    }
    client::set_now(world::BASE_TS + 1_000_000);
    let id = match args.get(1) {
        Some(id) => id.clone(),
        None => {
            eprintln!("usage: lcverif <ID|smoke> [quick|thorough] [--replay file]");
            return 2;
        }
    };
    let tier = args
        .get(2)
        .cloned()
        .or_else(|| std::env::var("VERIF_TIER").ok())
        .unwrap_or_else(|| "quick".to_owned());
    let seed = std::env::var("VERIF_SEED")
        .ok()
        .and_then(|s| s.parse::<u64>().ok())
        .unwrap_or(0);
    let replay = args
        .iter()
        .position(|a| a == "--replay")
        .and_then(|i| args.get(i + 1).cloned());
    let opts = props::Opts { tier, seed, replay };
    let code = if id == "smoke" {
        smoke::run()
    } else {
        match props::run(&id, &opts) {
            Some(code) => code,
            None => {
                eprintln!("unknown property id {}", id);
                2
            }
        }
    };
    client::cleanup_tmp_root();
    code
}
