//! Recording, thread-safe network context. One instance per protocol handler (the protocol id is
//! what `send_message_to` / `reply` use); all instances of one client share one `Outbox`.

use std::future::Future;
use std::pin::Pin;
use std::sync::{Arc, Mutex};
use std::time::Duration;

use ckb_network::{
    async_trait, bytes::Bytes, Behaviour, CKBProtocolContext, Error, Peer, PeerIndex, ProtocolId,
    SupportProtocols, TargetSession,
};

#[derive(Clone, Debug, PartialEq, Eq)]
pub(crate) enum Proto {
    LightClient,
    Filter,
    Sync,
    Relay,
}

impl Proto {
    pub(crate) fn of(id: ProtocolId) -> Proto {
        if id == SupportProtocols::LightClient.protocol_id() {
            Proto::LightClient
        } else if id == SupportProtocols::Filter.protocol_id() {
            Proto::Filter
        } else if id == SupportProtocols::Sync.protocol_id() {
            Proto::Sync
        } else {
            Proto::Relay
        }
    }
}

#[derive(Clone, Debug)]
pub(crate) struct Sent {
    pub proto: Proto,
    pub peer: PeerIndex,
    pub data: Bytes,
}

#[derive(Default)]
pub(crate) struct Outbox {
    pub sent: Mutex<Vec<Sent>>,
    pub bans: Mutex<Vec<(PeerIndex, String)>>,
    pub disconnects: Mutex<Vec<(PeerIndex, String)>>,
    /// multiaddr strings for `get_peer` (relay protocol)
    pub peer_addrs: Mutex<Vec<(PeerIndex, String)>>,
}

impl Outbox {
    pub(crate) fn take_sent(&self) -> Vec<Sent> {
        std::mem::take(&mut *self.sent.lock().unwrap())
    }
    pub(crate) fn bans(&self) -> Vec<(PeerIndex, String)> {
        self.bans.lock().unwrap().clone()
    }
    pub(crate) fn disconnects(&self) -> Vec<(PeerIndex, String)> {
        self.disconnects.lock().unwrap().clone()
    }
    pub(crate) fn take_bans(&self) -> Vec<(PeerIndex, String)> {
        std::mem::take(&mut *self.bans.lock().unwrap())
    }
    pub(crate) fn take_disconnects(&self) -> Vec<(PeerIndex, String)> {
        std::mem::take(&mut *self.disconnects.lock().unwrap())
    }
}

pub(crate) struct Ctx {
    protocol: SupportProtocols,
    pub out: Arc<Outbox>,
}

impl Ctx {
    pub(crate) fn new(protocol: SupportProtocols, out: Arc<Outbox>) -> Arc<Ctx> {
        Arc::new(Ctx { protocol, out })
    }
}

pub(crate) fn as_nc(ctx: &Arc<Ctx>) -> Arc<dyn CKBProtocolContext + Sync> {
    Arc::clone(ctx) as Arc<dyn CKBProtocolContext + Sync>
}

#[async_trait]
impl CKBProtocolContext for Ctx {
    fn ckb2023(&self) -> bool {
        false
    }
    async fn set_notify(&self, _interval: Duration, _token: u64) -> Result<(), Error> {
        Ok(())
    }
    async fn remove_notify(&self, _token: u64) -> Result<(), Error> {
        Ok(())
    }
    async fn async_quick_send_message(
        &self,
        proto_id: ProtocolId,
        peer_index: PeerIndex,
        data: Bytes,
    ) -> Result<(), Error> {
        self.send_message(proto_id, peer_index, data)
    }
    async fn async_quick_send_message_to(
        &self,
        peer_index: PeerIndex,
        data: Bytes,
    ) -> Result<(), Error> {
        self.send_message_to(peer_index, data)
    }
    async fn async_quick_filter_broadcast(
        &self,
        _target: TargetSession,
        _data: Bytes,
    ) -> Result<(), Error> {
        Ok(())
    }
    async fn async_future_task(
        &self,
        _task: Pin<Box<dyn Future<Output = ()> + 'static + Send>>,
        _blocking: bool,
    ) -> Result<(), Error> {
        Ok(())
    }
    async fn async_send_message(
        &self,
        proto_id: ProtocolId,
        peer_index: PeerIndex,
        data: Bytes,
    ) -> Result<(), Error> {
        self.send_message(proto_id, peer_index, data)
    }
    async fn async_send_message_to(&self, peer_index: PeerIndex, data: Bytes) -> Result<(), Error> {
        self.send_message_to(peer_index, data)
    }
    async fn async_filter_broadcast(
        &self,
        _target: TargetSession,
        _data: Bytes,
    ) -> Result<(), Error> {
        Ok(())
    }
    async fn async_disconnect(&self, peer_index: PeerIndex, message: &str) -> Result<(), Error> {
        self.disconnect(peer_index, message)
    }
    fn quick_send_message(
        &self,
        proto_id: ProtocolId,
        peer_index: PeerIndex,
        data: Bytes,
    ) -> Result<(), Error> {
        self.send_message(proto_id, peer_index, data)
    }
    fn quick_send_message_to(&self, peer_index: PeerIndex, data: Bytes) -> Result<(), Error> {
        self.send_message_to(peer_index, data)
    }
    fn quick_filter_broadcast(&self, _target: TargetSession, _data: Bytes) -> Result<(), Error> {
        Ok(())
    }
    fn future_task(
        &self,
        _task: Pin<Box<dyn Future<Output = ()> + 'static + Send>>,
        _blocking: bool,
    ) -> Result<(), Error> {
        Ok(())
    }
    fn send_message(
        &self,
        proto_id: ProtocolId,
        peer_index: PeerIndex,
        data: Bytes,
    ) -> Result<(), Error> {
        self.out.sent.lock().unwrap().push(Sent {
            proto: Proto::of(proto_id),
            peer: peer_index,
            data,
        });
        Ok(())
    }
    fn send_message_to(&self, peer_index: PeerIndex, data: Bytes) -> Result<(), Error> {
        let protocol_id = self.protocol_id();
        self.send_message(protocol_id, peer_index, data)
    }
    fn filter_broadcast(&self, _target: TargetSession, _data: Bytes) -> Result<(), Error> {
        Ok(())
    }
    fn disconnect(&self, peer_index: PeerIndex, message: &str) -> Result<(), Error> {
        self.out
            .disconnects
            .lock()
            .unwrap()
            .push((peer_index, message.to_owned()));
        Ok(())
    }
    fn get_peer(&self, peer_index: PeerIndex) -> Option<Peer> {
        let addrs = self.out.peer_addrs.lock().unwrap();
        addrs.iter().find(|(p, _)| *p == peer_index).map(|(p, a)| {
            Peer::new(
                *p,
                ckb_network::SessionType::Outbound,
                a.parse().expect("multiaddr"),
                false,
            )
        })
    }
    fn with_peer_mut(&self, _peer_index: PeerIndex, _f: Box<dyn FnOnce(&mut Peer)>) {}
    fn connected_peers(&self) -> Vec<PeerIndex> {
        Vec::new()
    }
    fn report_peer(&self, _peer_index: PeerIndex, _behaviour: Behaviour) {}
    fn ban_peer(&self, peer_index: PeerIndex, _duration: Duration, reason: String) {
        self.out.bans.lock().unwrap().push((peer_index, reason));
    }
    fn protocol_id(&self) -> ProtocolId {
        self.protocol.protocol_id()
    }
}
