//! The world: MiniChain (hand-built blocks with real MMR, extension commitment, block filters,
//! per-epoch difficulty, forks) and the honest full-node responder (RFC 0044/0045 algorithm).

use std::collections::HashMap;
use std::sync::Arc;

use ckb_chain_spec::{consensus::Consensus, ChainSpec};
use ckb_merkle_mountain_range::{leaf_index_to_pos, util::MemMMR};
use ckb_network::bytes::Bytes;
use ckb_resource::Resource;
use ckb_types::{
    core::{BlockBuilder, BlockView, EpochNumberWithFraction, TransactionBuilder, TransactionView},
    packed::{self, Byte32, CellInput, CellOutput, Script},
    prelude::*,
    utilities::{
        build_filter_data, calc_filter_hash, compact_to_difficulty, difficulty_to_compact,
        merkle_mountain_range::MergeHeaderDigest, merkle_root, FilterDataProvider, CBMT,
    },
    U256,
};

pub(crate) const BASE_TS: u64 = 1_700_000_000_000;

pub(crate) type Mmr = MemMMR<packed::HeaderDigest, MergeHeaderDigest>;

pub(crate) fn spec_path(name: &str) -> String {
    format!("{}/specs/{}", env!("CARGO_MANIFEST_DIR"), name)
}

/// Loads a consensus; for an Eaglesong spec the genesis nonce is mined first so that a sampled
/// genesis header passes the PoW check like every other header.
pub(crate) fn load_consensus(spec: &str) -> Consensus {
    let resource = Resource::file_system(spec_path(spec).into());
    let mut chain_spec = ChainSpec::load_from(&resource).expect("load spec");
    let consensus = chain_spec.build_consensus().expect("build consensus");
    if spec.contains("eaglesong") {
        let engine = consensus.pow_engine();
        let mut nonce: u128 = 0;
        loop {
            let header = consensus
                .genesis_block()
                .header()
                .as_advanced_builder()
                .nonce(nonce.pack())
                .build();
            if engine.verify(&header.data()) {
                break;
            }
            nonce += 1;
        }
        chain_spec.genesis.nonce = nonce.into();
        return chain_spec.build_consensus().expect("build consensus");
    }
    consensus
}

pub(crate) fn compact_of(difficulty: u64) -> u32 {
    difficulty_to_compact(U256::from(difficulty))
}

/// `epochs[i] = (length, compact_target)`; epoch 0 contains the genesis block at index 0. After
/// the last entry the last entry repeats.
#[derive(Clone, Debug)]
pub(crate) struct EpochPlan {
    pub epochs: Vec<(u64, u32)>,
}

impl EpochPlan {
    pub(crate) fn constant(length: u64, compact: u32) -> Self {
        EpochPlan {
            epochs: vec![(length, compact)],
        }
    }
    /// (epoch number, index, length, compact target) of block `n`
    pub(crate) fn locate(&self, n: u64) -> (u64, u64, u64, u32) {
        let mut start = 0u64;
        let mut e = 0usize;
        loop {
            let (len, compact) = self.epochs[e.min(self.epochs.len() - 1)];
            if n < start + len {
                return (e as u64, n - start, len, compact);
            }
            start += len;
            e += 1;
        }
    }
}

pub(crate) struct TxIndexProvider<'a>(pub &'a HashMap<Byte32, TransactionView>);
impl<'a> FilterDataProvider for TxIndexProvider<'a> {
    fn cell(&self, op: &packed::OutPoint) -> Option<CellOutput> {
        self.0
            .get(&op.tx_hash())
            .and_then(|tx| tx.outputs().get(op.index().unpack()))
    }
}

pub(crate) struct Chain {
    pub consensus: Arc<Consensus>,
    pub plan: EpochPlan,
    pub blocks: Vec<BlockView>,
    /// cumulative difficulty including block n
    pub tds: Vec<U256>,
    /// MMR root over leaves 0..=n
    pub roots: Vec<packed::HeaderDigest>,
    pub filters: Vec<packed::Bytes>,
    pub filter_hashes: Vec<Byte32>,
    pub txs: HashMap<Byte32, TransactionView>,
    /// block number of each transaction
    pub tx_block: HashMap<Byte32, u64>,
    pub by_hash: HashMap<Byte32, u64>,
    /// mixed into every cellbase so that branches differ
    pub salt: u64,
    /// milliseconds between the timestamps of consecutive blocks (default 10)
    pub ts_step: u64,
    pub miner_lock: Script,
    /// if false, headers are not mined (Eaglesong world: "unmined twins")
    pub mine: bool,
    /// the epoch from which full nodes commit the chain root in the extension (RFC 0044): a block
    /// carries it iff its PARENT lies in an epoch >= this number (0: every block but genesis)
    pub mmr_activated_epoch: u64,
    mmr: Option<Mmr>,
}

impl Clone for Chain {
    fn clone(&self) -> Self {
        Chain {
            consensus: Arc::clone(&self.consensus),
            plan: self.plan.clone(),
            blocks: self.blocks.clone(),
            tds: self.tds.clone(),
            roots: self.roots.clone(),
            filters: self.filters.clone(),
            filter_hashes: self.filter_hashes.clone(),
            txs: self.txs.clone(),
            tx_block: self.tx_block.clone(),
            by_hash: self.by_hash.clone(),
            salt: self.salt,
            ts_step: self.ts_step,
            miner_lock: self.miner_lock.clone(),
            mine: self.mine,
            mmr_activated_epoch: self.mmr_activated_epoch,
            mmr: None,
        }
    }
}

pub(crate) fn build_mmr(blocks: &[BlockView]) -> Mmr {
    let mut mmr: Mmr = MemMMR::default();
    for b in blocks {
        mmr.push(b.header().digest()).expect("mmr push");
    }
    mmr
}

impl Chain {
    pub(crate) fn new(consensus: Arc<Consensus>, plan: EpochPlan) -> Self {
        let genesis = consensus.genesis_block().clone();
        assert_eq!(
            plan.epochs[0].1,
            genesis.header().compact_target(),
            "epoch 0 must use the genesis compact target"
        );
        let mut chain = Chain {
            consensus,
            plan,
            blocks: vec![],
            tds: vec![],
            roots: vec![],
            filters: vec![],
            filter_hashes: vec![],
            txs: HashMap::new(),
            tx_block: HashMap::new(),
            by_hash: HashMap::new(),
            salt: 0,
            ts_step: 10,
            miner_lock: Script::default(),
            mine: true,
            mmr_activated_epoch: 0,
            mmr: None,
        };
        chain.append(genesis);
        chain
    }

    fn append(&mut self, block: BlockView) {
        let n = self.blocks.len() as u64;
        if self.mmr.is_none() {
            self.mmr = Some(build_mmr(&self.blocks));
        }
        let mmr = self.mmr.as_mut().unwrap();
        mmr.push(block.header().digest()).expect("mmr push");
        self.roots.push(mmr.get_root().expect("root"));
        let td = if n == 0 {
            block.header().difficulty()
        } else {
            &self.tds[(n - 1) as usize] + block.header().difficulty()
        };
        self.tds.push(td);
        for tx in block.transactions() {
            self.tx_block.insert(tx.hash(), n);
            self.txs.insert(tx.hash(), tx);
        }
        let (data, missing) = build_filter_data(TxIndexProvider(&self.txs), &block.transactions());
        assert!(missing.is_empty(), "world block spends an unknown cell");
        let data: packed::Bytes = data.pack();
        let parent = if n == 0 {
            Byte32::zero()
        } else {
            self.filter_hashes[(n - 1) as usize].clone()
        };
        let fh: Byte32 = calc_filter_hash(&parent, &data).pack();
        self.filters.push(data);
        self.filter_hashes.push(fh);
        self.by_hash.insert(block.hash(), n);
        self.blocks.push(block);
    }

    pub(crate) fn tip_number(&self) -> u64 {
        self.blocks.len() as u64 - 1
    }
    pub(crate) fn tip(&self) -> &BlockView {
        self.blocks.last().unwrap()
    }
    pub(crate) fn number_of(&self, hash: &Byte32) -> Option<u64> {
        self.by_hash.get(hash).copied()
    }

    pub(crate) fn cellbase(&self, n: u64) -> TransactionView {
        TransactionBuilder::default()
            .input(CellInput::new_cellbase_input(n))
            .output(
                CellOutput::new_builder()
                    .capacity(1000_0000_0000u64.pack())
                    .lock(self.miner_lock.clone())
                    .build(),
            )
            .output_data(Default::default())
            .witness(Bytes::from(self.salt.to_le_bytes().to_vec()).pack())
            .build()
    }

    /// Appends a block with the given non-cellbase transactions.
    pub(crate) fn push(&mut self, txs: Vec<TransactionView>) -> &BlockView {
        let n = self.blocks.len() as u64;
        let parent = self.tip().header();
        let (enum_, index, length, compact) = self.plan.locate(n);
        let epoch = EpochNumberWithFraction::new(enum_, index, length);
        let parent_root = self.roots[(n - 1) as usize].clone();
        let ext: packed::Bytes = parent_root.calc_mmr_hash().as_bytes().pack();
        let with_root = self.plan.locate(n - 1).0 >= self.mmr_activated_epoch;
        let mut builder = BlockBuilder::default()
            .parent_hash(parent.hash())
            .number(n.pack())
            .epoch(epoch.pack())
            .compact_target(compact.pack())
            .timestamp((BASE_TS + n * self.ts_step + self.salt % 7).pack())
            .transaction(self.cellbase(n))
            .extension(if with_root { Some(ext) } else { None });
        for tx in txs {
            builder = builder.transaction(tx);
        }
        let mut block = builder.build();
        if self.mine {
            block = mine(&self.consensus, block);
        } else {
            block = unmine(&self.consensus, block);
        }
        self.append(block);
        self.tip()
    }

    pub(crate) fn grow(&mut self, count: u64) {
        for _ in 0..count {
            self.push(vec![]);
        }
    }

    /// A copy that shares blocks 0..=at and will produce different blocks afterwards.
    pub(crate) fn fork(&self, at: u64, salt: u64) -> Chain {
        let mut c = self.clone();
        c.truncate(at);
        c.salt = salt;
        c
    }

    pub(crate) fn truncate(&mut self, at: u64) {
        let keep = at as usize + 1;
        for b in self.blocks.drain(keep..) {
            self.by_hash.remove(&b.hash());
            for tx in b.transactions() {
                self.txs.remove(&tx.hash());
                self.tx_block.remove(&tx.hash());
            }
        }
        self.tds.truncate(keep);
        self.roots.truncate(keep);
        self.filters.truncate(keep);
        self.filter_hashes.truncate(keep);
        self.mmr = None;
    }

    /// The same chain as a consistently lying filter server presents it: the filters of the blocks
    /// `from..` are empty and the filter hashes from there on are chained over the fake filters.
    pub(crate) fn with_fake_filters(&self, from: u64) -> Chain {
        let mut c = self.clone();
        let empty: packed::Bytes = Default::default();
        for n in (from.max(1) as usize)..c.blocks.len() {
            c.filters[n] = empty.clone();
            let parent = c.filter_hashes[n - 1].clone();
            c.filter_hashes[n] = calc_filter_hash(&parent, &c.filters[n]).pack();
        }
        c
    }

    pub(crate) fn vh(&self, n: u64) -> packed::VerifiableHeader {
        let b = &self.blocks[n as usize];
        let parent_root = if n == 0 {
            Default::default()
        } else {
            self.roots[(n - 1) as usize].clone()
        };
        packed::VerifiableHeader::new_builder()
            .header(b.data().header())
            .uncles_hash(b.calc_uncles_hash())
            .extension(Pack::pack(&b.extension()))
            .parent_chain_root(parent_root)
            .build()
    }

    /// MMR proof items for `nums` against the parent chain root of block `last`.
    pub(crate) fn proof(&self, last: u64, nums: &[u64]) -> packed::HeaderDigestVec {
        if nums.is_empty() {
            return Default::default();
        }
        let mmr = build_mmr(&self.blocks[..last as usize]);
        let pos = nums.iter().map(|n| leaf_index_to_pos(*n)).collect::<Vec<_>>();
        mmr.gen_proof(pos)
            .expect("gen proof")
            .proof_items()
            .to_owned()
            .pack()
    }

    pub(crate) fn first_block_td_ge(&self, from: u64, to: u64, d: &U256) -> Option<u64> {
        (from..to).find(|n| &self.tds[*n as usize] >= d)
    }

    pub(crate) fn is_ancestor(&self, number: u64, hash: &Byte32, of: u64) -> bool {
        number <= of
            && self
                .blocks
                .get(number as usize)
                .map(|b| &b.hash() == hash)
                .unwrap_or(false)
    }
}

/// Chooses a nonce for which the PoW check FAILS (no-op on a Dummy consensus).
pub(crate) fn unmine(consensus: &Consensus, block: BlockView) -> BlockView {
    let engine = consensus.pow_engine();
    let mut nonce: u128 = 0;
    while nonce < 64 {
        let header = block
            .header()
            .as_advanced_builder()
            .nonce(nonce.pack())
            .build();
        if !engine.verify(&header.data()) {
            return block.as_advanced_builder().header(header).build();
        }
        nonce += 1;
    }
    block
}

pub(crate) fn mine(consensus: &Consensus, block: BlockView) -> BlockView {
    let engine = consensus.pow_engine();
    if engine.verify(&block.header().data()) {
        return block;
    }
    let mut nonce: u128 = 0;
    loop {
        let header = block
            .header()
            .as_advanced_builder()
            .nonce(nonce.pack())
            .build();
        if engine.verify(&header.data()) {
            return block.as_advanced_builder().header(header).build();
        }
        nonce += 1;
    }
}

// ------------------------------------------------------------------------------------------
// Honest full node (a "view" is a chain plus the height the peer has reached)
// ------------------------------------------------------------------------------------------

#[derive(Clone, Copy, Debug, PartialEq, Eq)]
pub(crate) enum ProofVersion {
    V0,
    V1,
}

pub(crate) struct View<'a> {
    pub chain: &'a Chain,
    pub height: u64,
}

impl<'a> View<'a> {
    pub(crate) fn new(chain: &'a Chain, height: u64) -> Self {
        assert!(height <= chain.tip_number());
        View { chain, height }
    }
    pub(crate) fn full(chain: &'a Chain) -> Self {
        View {
            chain,
            height: chain.tip_number(),
        }
    }
    fn number_of(&self, hash: &Byte32) -> Option<u64> {
        self.chain.number_of(hash).filter(|n| *n <= self.height)
    }

    pub(crate) fn send_last_state(&self) -> packed::LightClientMessage {
        let content = packed::SendLastState::new_builder()
            .last_header(self.chain.vh(self.height))
            .build();
        packed::LightClientMessage::new_builder()
            .set(content)
            .build()
    }

    /// The section layout (reorg, sampled, last-n block numbers) an honest server returns, or
    /// None if the last hash is unknown to it.
    pub(crate) fn last_state_proof_numbers(
        &self,
        req: &packed::GetLastStateProof,
    ) -> Option<(u64, Vec<u64>, Vec<u64>, Vec<u64>)> {
        let chain = self.chain;
        let last = self.number_of(&req.last_hash())?;
        let start: u64 = req.start_number().unpack();
        let last_n: u64 = req.last_n_blocks().unpack();
        if start >= last {
            return None;
        }
        let start_on_chain = chain.is_ancestor(start, &req.start_hash(), last);
        let reorg: Vec<u64> = if start == 0 || start_on_chain {
            vec![]
        } else {
            let min = std::cmp::max(1, start.saturating_sub(last_n));
            (min..start).collect()
        };
        let mut diffs: Vec<U256> = req
            .difficulties()
            .into_iter()
            .map(|d| d.unpack())
            .collect();
        let boundary: U256 = req.difficulty_boundary().unpack();
        let (sampled, last_ns): (Vec<u64>, Vec<u64>) = if last - start <= last_n {
            (vec![], (start..last).collect())
        } else {
            let mut bnum = chain.first_block_td_ge(start, last, &boundary)?;
            if last - bnum < last_n {
                bnum = last - last_n;
            }
            let last_ns: Vec<u64> = (bnum..last).collect();
            if bnum > 0 {
                let td = &chain.tds[(bnum - 1) as usize];
                diffs.retain(|d| d <= td);
                let mut s = vec![];
                for d in &diffs {
                    if let Some(n) = chain.first_block_td_ge(start, bnum, d) {
                        if s.last() != Some(&n) {
                            s.push(n);
                        }
                    }
                }
                (s, last_ns)
            } else {
                (vec![], last_ns)
            }
        };
        Some((last, reorg, sampled, last_ns))
    }

    pub(crate) fn build_last_state_proof(
        &self,
        last: u64,
        nums: &[u64],
    ) -> packed::LightClientMessage {
        let headers: Vec<packed::VerifiableHeader> =
            nums.iter().map(|n| self.chain.vh(*n)).collect();
        let content = packed::SendLastStateProof::new_builder()
            .last_header(self.chain.vh(last))
            .proof(self.chain.proof(last, nums))
            .headers(headers.pack())
            .build();
        packed::LightClientMessage::new_builder()
            .set(content)
            .build()
    }

    fn tip_state_last_state_proof(&self) -> packed::LightClientMessage {
        let content = packed::SendLastStateProof::new_builder()
            .last_header(self.chain.vh(self.height))
            .build();
        packed::LightClientMessage::new_builder()
            .set(content)
            .build()
    }

    pub(crate) fn send_last_state_proof(
        &self,
        req: &packed::GetLastStateProof,
    ) -> packed::LightClientMessage {
        match self.last_state_proof_numbers(req) {
            Some((last, reorg, sampled, last_ns)) => {
                let nums: Vec<u64> = reorg
                    .into_iter()
                    .chain(sampled)
                    .chain(last_ns)
                    .collect();
                self.build_last_state_proof(last, &nums)
            }
            None => self.tip_state_last_state_proof(),
        }
    }

    pub(crate) fn send_blocks_proof(
        &self,
        req: &packed::GetBlocksProof,
        version: ProofVersion,
    ) -> packed::LightClientMessage {
        let chain = self.chain;
        let last = match self.number_of(&req.last_hash()) {
            Some(n) => n,
            None => {
                let content = packed::SendBlocksProof::new_builder()
                    .last_header(chain.vh(self.height))
                    .build();
                return packed::LightClientMessage::new_builder()
                    .set(content)
                    .build();
            }
        };
        let mut nums = vec![];
        let mut missing = vec![];
        for h in req.block_hashes().into_iter() {
            match chain.number_of(&h) {
                Some(n) if n < last => nums.push(n),
                _ => missing.push(h),
            }
        }
        nums.sort_unstable();
        nums.dedup();
        let headers: Vec<packed::Header> = nums
            .iter()
            .map(|n| chain.blocks[*n as usize].data().header())
            .collect();
        match version {
            ProofVersion::V0 => {
                let content = packed::SendBlocksProof::new_builder()
                    .last_header(chain.vh(last))
                    .proof(chain.proof(last, &nums))
                    .headers(headers.pack())
                    .missing_block_hashes(missing.pack())
                    .build();
                packed::LightClientMessage::new_builder()
                    .set(content)
                    .build()
            }
            ProofVersion::V1 => {
                let uncles: Vec<Byte32> = nums
                    .iter()
                    .map(|n| chain.blocks[*n as usize].calc_uncles_hash())
                    .collect();
                let exts: Vec<packed::BytesOpt> = nums
                    .iter()
                    .map(|n| Pack::pack(&chain.blocks[*n as usize].extension()))
                    .collect();
                let content = packed::SendBlocksProofV1::new_builder()
                    .last_header(chain.vh(last))
                    .proof(chain.proof(last, &nums))
                    .headers(headers.pack())
                    .missing_block_hashes(missing.pack())
                    .blocks_uncles_hash(uncles.pack())
                    .blocks_extension(
                        packed::BytesOptVec::new_builder().set(exts).build(),
                    )
                    .build();
                let v0 = packed::SendBlocksProof::new_unchecked(content.as_bytes());
                packed::LightClientMessage::new_builder().set(v0).build()
            }
        }
    }

    /// FilteredBlock for the given transactions of block `n`
    pub(crate) fn filtered_block(&self, n: u64, tx_hashes: &[Byte32]) -> packed::FilteredBlock {
        let block = &self.chain.blocks[n as usize];
        let mut indices: Vec<u32> = vec![];
        let mut txs = vec![];
        for (i, tx) in block.transactions().into_iter().enumerate() {
            if tx_hashes.contains(&tx.hash()) {
                indices.push(i as u32);
                txs.push(tx.data());
            }
        }
        let leaves: Vec<Byte32> = block.tx_hashes().to_vec();
        let proof = CBMT::build_merkle_proof(&leaves, &indices).expect("merkle proof");
        let witnesses_root = merkle_root(block.tx_witness_hashes());
        packed::FilteredBlock::new_builder()
            .header(block.data().header())
            .witnesses_root(witnesses_root)
            .transactions(txs.pack())
            .proof(
                packed::MerkleProof::new_builder()
                    .indices(proof.indices().to_owned().pack())
                    .lemmas(proof.lemmas().to_owned().pack())
                    .build(),
            )
            .build()
    }

    pub(crate) fn send_transactions_proof(
        &self,
        req: &packed::GetTransactionsProof,
        version: ProofVersion,
    ) -> packed::LightClientMessage {
        let chain = self.chain;
        let last = match self.number_of(&req.last_hash()) {
            Some(n) => n,
            None => {
                let content = packed::SendTransactionsProof::new_builder()
                    .last_header(chain.vh(self.height))
                    .build();
                return packed::LightClientMessage::new_builder()
                    .set(content)
                    .build();
            }
        };
        let mut by_block: Vec<(u64, Vec<Byte32>)> = vec![];
        let mut missing = vec![];
        for h in req.tx_hashes().into_iter() {
            match chain.tx_block.get(&h) {
                Some(n) if *n < last => {
                    if let Some(entry) = by_block.iter_mut().find(|(b, _)| b == n) {
                        entry.1.push(h);
                    } else {
                        by_block.push((*n, vec![h]));
                    }
                }
                _ => missing.push(h),
            }
        }
        by_block.sort_by_key(|(n, _)| *n);
        let nums: Vec<u64> = by_block.iter().map(|(n, _)| *n).collect();
        let filtered: Vec<packed::FilteredBlock> = by_block
            .iter()
            .map(|(n, hs)| self.filtered_block(*n, hs))
            .collect();
        match version {
            ProofVersion::V0 => {
                let content = packed::SendTransactionsProof::new_builder()
                    .last_header(chain.vh(last))
                    .proof(chain.proof(last, &nums))
                    .filtered_blocks(packed::FilteredBlockVec::new_builder().set(filtered.clone()).build())
                    .missing_tx_hashes(missing.pack())
                    .build();
                packed::LightClientMessage::new_builder()
                    .set(content)
                    .build()
            }
            ProofVersion::V1 => {
                let uncles: Vec<Byte32> = nums
                    .iter()
                    .map(|n| chain.blocks[*n as usize].calc_uncles_hash())
                    .collect();
                let exts: Vec<packed::BytesOpt> = nums
                    .iter()
                    .map(|n| Pack::pack(&chain.blocks[*n as usize].extension()))
                    .collect();
                let content = packed::SendTransactionsProofV1::new_builder()
                    .last_header(chain.vh(last))
                    .proof(chain.proof(last, &nums))
                    .filtered_blocks(packed::FilteredBlockVec::new_builder().set(filtered.clone()).build())
                    .missing_tx_hashes(missing.pack())
                    .blocks_uncles_hash(uncles.pack())
                    .blocks_extension(
                        packed::BytesOptVec::new_builder().set(exts).build(),
                    )
                    .build();
                let v0 = packed::SendTransactionsProof::new_unchecked(content.as_bytes());
                packed::LightClientMessage::new_builder().set(v0).build()
            }
        }
    }

    pub(crate) fn block_filters(&self, start: u64, max_len: u64) -> packed::BlockFilterMessage {
        let end = std::cmp::min(self.height, start.saturating_add(max_len).saturating_sub(1));
        let (bhs, fs): (Vec<Byte32>, Vec<packed::Bytes>) = if start > end {
            (vec![], vec![])
        } else {
            (
                (start..=end)
                    .map(|n| self.chain.blocks[n as usize].hash())
                    .collect(),
                (start..=end)
                    .map(|n| self.chain.filters[n as usize].clone())
                    .collect(),
            )
        };
        let content = packed::BlockFilters::new_builder()
            .start_number(start.pack())
            .block_hashes(bhs.pack())
            .filters(fs.pack())
            .build();
        packed::BlockFilterMessage::new_builder()
            .set(content)
            .build()
    }

    pub(crate) fn block_filter_hashes(&self, start: u64, max_len: u64) -> packed::BlockFilterMessage {
        let end = std::cmp::min(self.height, start.saturating_add(max_len).saturating_sub(1));
        let hs: Vec<Byte32> = if start > end {
            vec![]
        } else {
            (start..=end)
                .map(|n| self.chain.filter_hashes[n as usize].clone())
                .collect()
        };
        let parent = if start == 0 || start > self.height + 1 {
            Byte32::zero()
        } else {
            self.chain.filter_hashes[(start - 1) as usize].clone()
        };
        let content = packed::BlockFilterHashes::new_builder()
            .start_number(start.pack())
            .parent_block_filter_hash(parent)
            .block_filter_hashes(hs.pack())
            .build();
        packed::BlockFilterMessage::new_builder()
            .set(content)
            .build()
    }

    pub(crate) fn block_filter_check_points(
        &self,
        start: u64,
        interval: u64,
        max_len: usize,
    ) -> packed::BlockFilterMessage {
        let cps: Vec<Byte32> = (start..=self.height)
            .step_by(interval as usize)
            .take(max_len)
            .map(|n| self.chain.filter_hashes[n as usize].clone())
            .collect();
        let content = packed::BlockFilterCheckPoints::new_builder()
            .start_number(start.pack())
            .block_filter_hashes(cps.pack())
            .build();
        packed::BlockFilterMessage::new_builder()
            .set(content)
            .build()
    }

    pub(crate) fn send_block(&self, hash: &Byte32) -> Option<packed::SyncMessage> {
        self.number_of(hash).map(|n| {
            packed::SyncMessage::new_builder()
                .set(
                    packed::SendBlock::new_builder()
                        .block(self.chain.blocks[n as usize].data())
                        .build(),
                )
                .build()
        })
    }
}

pub(crate) fn difficulty_of(compact: u32) -> U256 {
    compact_to_difficulty(compact)
}

/// A self-consistent ("re-sealed") verifiable header with freely chosen number, parent total
/// difficulty, target and epoch: the extension commits to the given parent chain root and the
/// extra hash commits to the extension, so it passes every check that does not involve an MMR
/// proof. On an Eaglesong consensus it is mined as well.
pub(crate) fn forge_vh(
    consensus: &Consensus,
    number: u64,
    parent_td: &U256,
    compact: u32,
    epoch: EpochNumberWithFraction,
    timestamp: u64,
    parent_hash: Byte32,
    salt: u64,
) -> packed::VerifiableHeader {
    let parent_root = packed::HeaderDigest::new_builder()
        .children_hash(Byte32::zero())
        .total_difficulty(parent_td.pack())
        .start_number(0u64.pack())
        .end_number(number.saturating_sub(1).pack())
        .start_epoch(EpochNumberWithFraction::new_unchecked(0, 0, 0).pack())
        .end_epoch(epoch.pack())
        .start_timestamp(salt.pack())
        .end_timestamp(timestamp.pack())
        .start_compact_target(compact.pack())
        .end_compact_target(compact.pack())
        .build();
    seal_vh(consensus, number, parent_root, compact, epoch, timestamp, parent_hash)
}

pub(crate) fn seal_vh(
    consensus: &Consensus,
    number: u64,
    parent_root: packed::HeaderDigest,
    compact: u32,
    epoch: EpochNumberWithFraction,
    timestamp: u64,
    parent_hash: Byte32,
) -> packed::VerifiableHeader {
    let ext: packed::Bytes = parent_root.calc_mmr_hash().as_bytes().pack();
    let block = BlockBuilder::default()
        .parent_hash(parent_hash)
        .number(number.pack())
        .epoch(epoch.pack())
        .compact_target(compact.pack())
        .timestamp(timestamp.pack())
        .extension(Some(ext))
        .build();
    let block = mine(consensus, block);
    packed::VerifiableHeader::new_builder()
        .header(block.data().header())
        .uncles_hash(block.calc_uncles_hash())
        .extension(Pack::pack(&block.extension()))
        .parent_chain_root(parent_root)
        .build()
}
