//! Development aid (not a check).
pub(crate) fn run() -> i32 {
    match std::env::var("SMOKE").as_deref() {
        Ok("c08") => crate::verif::props::c08::debug_case(),
        Ok("c05") => crate::verif::props::c05::debug_case(),
        _ => crate::verif::props::c06::debug_case(),
    }
    0
}
