//! Development aids and scheduler self-tests (not checks).
pub(crate) fn run() -> i32 {
    match std::env::var("SMOKE").as_deref() {
        Ok("c08") => crate::verif::props::c08::debug_case(),
        Ok("c05") => crate::verif::props::c05::debug_case(),
        Ok("sched-benign") => return sched_selftest(false),
        Ok("sched-deadlock") => return sched_selftest(true),
        _ => crate::verif::props::c06::debug_case(),
    }
    0
}

/// Two threads and two plain mutexes without lock points.
/// benign: T0 is parked at a hook point while it holds A, T1 wants A: the scheduler has to notice
/// that T1 sleeps, force the turn back to T0 and both finish (exit 0 if exactly that happened).
/// deadlock: T0 holds A and wants B, T1 holds B and wants A: the hang handler has to be called
/// (exit 42 from the handler).
fn sched_selftest(deadlock: bool) -> i32 {
    use std::sync::{Arc, Mutex};
    let a = Arc::new(Mutex::new(0u32));
    let b = Arc::new(Mutex::new(0u32));
    crate::verif::sched::set_hang_handler(Some(Arc::new(|log: &[String]| {
        println!("hang handler called: {:?}", log);
        std::process::exit(42);
    })));
    let (a0, b0, a1, b1) = (Arc::clone(&a), Arc::clone(&b), Arc::clone(&a), Arc::clone(&b));
    let t0: Box<dyn FnOnce() + Send> = Box::new(move || {
        let mut ga = a0.lock().unwrap();
        crate::verif_hooks::point("selftest", "T0 holds A");
        if deadlock {
            let mut gb = b0.lock().unwrap();
            *gb += 1;
        }
        *ga += 1;
    });
    let t1: Box<dyn FnOnce() + Send> = Box::new(move || {
        let mut gb = b1.lock().unwrap();
        crate::verif_hooks::point("selftest", "T1 holds B");
        let mut ga = a1.lock().unwrap();
        *ga += 1;
        *gb += 1;
    });
    let out = crate::verif::sched::run_pair(0, vec![(0, 0)], t0, t1);
    println!("forced switches {} deadlock {} log {:?}", out.forced_switches, out.deadlock, out.log);
    if !deadlock && out.forced_switches == 1 && !out.deadlock && *a.lock().unwrap() == 2 {
        0
    } else {
        1
    }
}
