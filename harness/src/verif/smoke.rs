//! End-to-end smoke run of the honest pipeline (not a check; used while developing).

use std::sync::Arc;
use std::time::Instant;

use ckb_types::prelude::*;

use crate::service::{BlockFilterRpc, Order, ScriptType as RpcScriptType, SearchKey};
use crate::storage::{ScriptStatus, ScriptType};
use crate::verif::client::{ClientCfg, Template};
use crate::verif::driver::{Sim, World};
use crate::verif::txlib::{build_tx, OutSpec, Scripts};
use crate::verif::world::{compact_of, load_consensus, Chain, EpochPlan};

pub(crate) fn run() -> i32 {
    let t0 = Instant::now();
    let consensus = Arc::new(load_consensus("mini_dummy.toml"));
    println!("consensus loaded in {:?}", t0.elapsed());
    let t0 = Instant::now();
    let template = Arc::new(Template::new(&consensus));
    println!("template in {:?}", t0.elapsed());
    let scripts = Scripts::new(&consensus);
    let plan = EpochPlan {
        epochs: vec![(10, compact_of(16)), (10, compact_of(24)), (10, compact_of(40))],
    };
    let mut chain = Chain::new(Arc::clone(&consensus), plan);
    let t0 = Instant::now();
    for n in 1..=30u64 {
        if n == 5 || n == 15 || n == 27 {
            chain.miner_lock = scripts.a.clone();
        } else {
            chain.miner_lock = Default::default();
        }
        chain.push(vec![]);
    }
    println!("30 blocks in {:?}", t0.elapsed());
    let mut world = World::new(vec![chain], 4);
    world.add_peer(1, 0, 30);
    world.filter_batch = 7;
    let t0 = Instant::now();
    let mut sim = Sim::new(ClientCfg::default(), Arc::clone(&consensus), template, world);
    println!("client in {:?}", t0.elapsed());
    sim.record_trace = true;
    sim.c().storage.update_filter_scripts(
        vec![ScriptStatus {
            script: scripts.a.clone(),
            script_type: ScriptType::Lock,
            block_number: 0,
        }],
        Default::default(),
    );
    let t0 = Instant::now();
    sim.connect(1);
    let r = sim.converge(60);
    println!("converge {:?} in {:?}", r, t0.elapsed());
    for l in &sim.trace {
        println!("  {}", l);
    }
    println!("bans: {:?}", sim.bans());
    let c = sim.c();
    println!(
        "tip={} min_filtered={} script_number={} max_cp={}",
        c.tip_number(),
        c.storage.get_min_filtered_block_number(),
        c.storage.get_filter_scripts()[0].block_number,
        c.storage.get_max_check_point_index()
    );
    let key = SearchKey {
        script: scripts.a.clone().into(),
        script_type: RpcScriptType::Lock,
        filter: None,
        with_data: None,
        group_by_transaction: None,
    };
    let cells = c
        .rpc_filter()
        .get_cells(key, Order::Asc, 100u32.into(), None)
        .unwrap();
    println!(
        "cells for A: {}",
        serde_json::to_string(
            &cells
                .objects
                .iter()
                .map(|c| serde_json::to_value(c).unwrap()["block_number"].clone())
                .collect::<Vec<_>>()
        )
        .unwrap()
    );
    let _ = build_tx(&[], &[], &[OutSpec::lock(&scripts.a, 1)], 0);
    0
}
