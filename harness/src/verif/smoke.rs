//! Development aid (not a check): prints the home messages of the C10 scenarios.

use ckb_types::{packed, prelude::*};

use crate::verif::props::c10;
use crate::verif::scen::{kind_of, Env};

pub(crate) fn run() -> i32 {
    let env = Env::dummy();
    let w = c10::worlds(&env);
    for scn in c10::ALL_SCN {
        let (sim, n) = c10::build(&env, &w, scn);
        for m in sim.queue.iter().take(n) {
            let mut extra = String::new();
            if let Ok(msg) = packed::LightClientMessageReader::from_compatible_slice(&m.data) {
                if let packed::LightClientMessageUnionReader::SendLastStateProof(p) = msg.to_enum() {
                    let nums: Vec<u64> = p.headers().iter().map(|h| h.header().raw().number().unpack()).collect();
                    extra = format!(" headers={:?} proof_items={} last={}", nums, p.proof().len(), Unpack::<u64>::unpack(&p.last_header().header().raw().number()));
                }
            }
            println!("{:?}: {} ({} bytes){}", scn, kind_of(m), m.data.len(), extra);
        }
        if let Some(req) = sim.sent_log.iter().rev().find_map(|s| {
            packed::LightClientMessage::from_slice(&s.data).ok().and_then(|m| match m.to_enum() {
                packed::LightClientMessageUnion::GetLastStateProof(r) => Some(r),
                _ => None,
            })
        }) {
            println!("   last request: start={} n_diffs={} boundary={:#x}", Unpack::<u64>::unpack(&req.start_number()), req.difficulties().len(), Unpack::<ckb_types::U256>::unpack(&req.difficulty_boundary()));
        }
    }
    0
}
