//! Development aid: prints the honest trace of a C10 scenario world (not a check).

use crate::verif::props::c10;
use crate::verif::scen::{self, Env};
use crate::storage::ScriptType;
use crate::verif::driver::World;

pub(crate) fn run() -> i32 {
    let env = Env::dummy();
    let w = c10::worlds(&env);
    let mut world = World::new(vec![w.main.clone(), w.fork.clone()], 4);
    world.add_peer(1, 0, 12);
    world.filter_batch = 5;
    let mut sim = scen::new_sim(&env, scen::default_cfg(), world);
    sim.record_trace = true;
    scen::register(
        &sim,
        &[
            (env.scripts.a.clone(), ScriptType::Lock, 0),
            (env.scripts.t.clone(), ScriptType::Type, 0),
        ],
    );
    sim.connect(1);
    let r = sim.converge(60);
    for l in &sim.trace {
        println!("  {}", l);
    }
    println!("converge {:?} bans {:?}", r, sim.bans());
    println!("{}", sim.c().light_print());
    0
}
