//! Development aid (not a check).
use ckb_types::{packed, prelude::*};
use crate::verif::props::c10;
use crate::verif::scen::{kind_of, Env};

pub(crate) fn run() -> i32 {
    let env = Env::dummy();
    let params = c10::Params::default();
    let w = c10::worlds_with(&env, &params);
    let (mut sim, _n) = c10::build_with(&env, &w, &params, c10::Scn::MatchedBlocks, None);
    let text = std::fs::read_to_string("/verif/replays/C02/quick-0.json").unwrap();
    let v: serde_json::Value = serde_json::from_str(&text).unwrap();
    let hexs = v["replay"]["message_hex"].as_str().unwrap();
    let bytes: Vec<u8> = (0..hexs.len() / 2).map(|i| u8::from_str_radix(&hexs[2 * i..2 * i + 2], 16).unwrap()).collect();
    println!("queue: {:?}", sim.queue.iter().map(|m| m.note.clone()).collect::<Vec<_>>());
    let home = sim.queue[0].data.clone();
    let diff: Vec<usize> = (0..home.len().min(bytes.len())).filter(|i| home[*i] != bytes[*i]).collect();
    println!("home len {} mutant len {} diff at {:?}", home.len(), bytes.len(), diff);
    let msg = packed::SyncMessageReader::from_compatible_slice(&bytes);
    println!("parse ok: {}", msg.is_ok());
    println!("world block2 tx0 {:#x}", w.main.blocks[2].transactions()[0].hash());
    if let Ok(m) = packed::SyncMessageReader::from_compatible_slice(&home) {
        if let packed::SyncMessageUnionReader::SendBlock(r) = m.to_enum() {
            let view = r.to_entity().block().into_view();
            println!("honest tx hashes {:?} root calc {:#x}", view.tx_hashes().iter().map(|h| format!("{:#x}", h)).collect::<Vec<_>>(), view.calc_transactions_root());
            println!("honest witness hashes {:?}", view.tx_witness_hashes().iter().map(|h| format!("{:#x}", h)).collect::<Vec<_>>());
        }
    }
    if let Ok(m) = msg {
        if let packed::SyncMessageUnionReader::SendBlock(r) = m.to_enum() {
            let b = r.to_entity().block();
            let view = b.clone().into_view();
            println!("txroot header {:#x} calc {:#x}", view.transactions_root(), view.calc_transactions_root());
            println!("mutant witness hashes {:?}", view.tx_witness_hashes().iter().map(|h| format!("{:#x}", h)).collect::<Vec<_>>());
            println!("tx hashes {:?}", view.tx_hashes().iter().map(|h| format!("{:#x}", h)).collect::<Vec<_>>());
        }
    }
    sim.cm().recv_sync(ckb_network::PeerIndex::new(1), bytes.into());
    println!("bans {:?}", sim.bans());
    0
}
