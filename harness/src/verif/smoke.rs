//! Development aid (not a check).
pub(crate) fn run() -> i32 {
    crate::verif::props::c06::debug_case();
    0
}
