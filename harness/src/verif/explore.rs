//! E-seq: deviation-bounded exhaustive exploration of event sequences on the real client.
//!
//! A *run* is the default environment behaviour (FIFO delivery of honest answers, a timer round
//! when nothing is pending, stop after two idle rounds) with deviations inserted at chosen
//! steps. The explorer enumerates every run with at most `bound` deviations: it executes a run,
//! records which deviations were applicable at every step after the last chosen one, and
//! recurses. Every run is executed from scratch on a recycled client (stateless exploration).

use std::collections::BTreeMap;

use ckb_network::bytes::Bytes;
use ckb_types::{packed, prelude::*, H256};
use serde_json::{json, Value};

use crate::service::{BlockFilterRpc, ChainRpc, SetScriptsCommand, TransactionRpc};
use crate::verif::driver::{InFlight, Sim};
use crate::verif::net::Proto;
use crate::verif::props::panics::{self, PanicRec};
use crate::verif::scen::kind_of;

#[derive(Clone, Debug, PartialEq, Eq, PartialOrd, Ord)]
pub(crate) enum Dev {
    /// deliver queue[k] (k > 0) instead of the front message
    DeliverIndex(usize),
    /// the front BlockFilters answer carries only its first `j` filters (a shorter batch)
    TruncateBatch(usize),
    /// user calls fetch_transaction(world tx #i) and the FETCH timer fires
    FetchTx(usize),
    /// user calls fetch_header(block number) and the FETCH timer fires
    FetchHeader(u64),
    /// user calls set_scripts(command, script list #i of the scenario)
    SetScripts(u8, usize),
    /// the process restarts (all in-memory state is rebuilt from the store); the chain grows by
    /// one empty block so that the peers can be proven again
    Restart,
    /// a timer round although messages are pending
    TickRound,
    /// the clock jumps by the given number of milliseconds, then a timer round
    Advance(u64),
    /// scenario-defined event
    Custom(usize),
}

impl Dev {
    pub(crate) fn to_json(&self) -> Value {
        json!(format!("{:?}", self))
    }
}

pub(crate) struct RunOutcome {
    pub steps: usize,
    pub converged: bool,
    pub panic: Option<PanicRec>,
    /// (step, applicable deviations) for every step >= from_step
    pub applicable: Vec<(usize, Vec<Dev>)>,
    pub trace: Vec<String>,
}

pub(crate) trait Scenario {
    /// fresh simulation (on a recycled client if given)
    fn init(&self, old: Option<Sim>) -> Sim;
    /// deviations that make sense in the current state (besides the generic ones)
    fn user_devs(&self, sim: &Sim) -> Vec<Dev>;
    /// applies a user / custom deviation
    fn apply_custom(&self, sim: &mut Sim, dev: &Dev);
    /// generic deviation kinds enabled for this scenario
    fn enable_reorder(&self) -> bool {
        true
    }
    fn enable_truncate(&self) -> bool {
        true
    }
    fn enable_restart(&self) -> bool {
        true
    }
    fn enable_tick(&self) -> bool {
        true
    }
    fn max_steps(&self) -> usize {
        400
    }
    /// called after every step (invariants on intermediate states); return violations
    fn after_step(&self, _sim: &Sim, _step: usize) -> Vec<(String, String)> {
        vec![]
    }
    /// called when the default environment found nothing left to do; may inject the next world
    /// event (chain growth, fork switch, ...) and return true to keep the run going
    fn on_quiescent(&self, _sim: &mut Sim) -> bool {
        false
    }
    /// called during a process restart, after the client was reopened and before the peers
    /// connect again (what happened in the world while the client was down)
    fn on_restart(&self, _sim: &mut Sim) {
    }
}

fn truncate_filters(m: &InFlight, j: usize) -> Option<InFlight> {
    let msg = packed::BlockFilterMessage::from_slice(&m.data).ok()?;
    if let packed::BlockFilterMessageUnion::BlockFilters(f) = msg.to_enum() {
        let filters: Vec<_> = f.filters().into_iter().take(j).collect();
        let hashes: Vec<_> = f.block_hashes().into_iter().take(j).collect();
        let content = f
            .as_builder()
            .filters(filters.pack())
            .block_hashes(hashes.pack())
            .build();
        let data = packed::BlockFilterMessage::new_builder()
            .set(content)
            .build()
            .as_bytes();
        Some(InFlight {
            proto: Proto::Filter,
            peer: m.peer,
            data,
            note: format!("{} [first {}]", m.note, j),
        })
    } else {
        None
    }
}

fn front_filters_len(sim: &Sim) -> usize {
    sim.queue
        .front()
        .filter(|m| m.proto == Proto::Filter)
        .and_then(|m| packed::BlockFilterMessage::from_slice(&m.data).ok())
        .and_then(|m| match m.to_enum() {
            packed::BlockFilterMessageUnion::BlockFilters(f) => Some(f.filters().len()),
            _ => None,
        })
        .unwrap_or(0)
}

pub(crate) fn applicable_devs(sc: &dyn Scenario, sim: &Sim) -> Vec<Dev> {
    let mut v = vec![];
    if sc.enable_reorder() {
        for k in 1..sim.queue.len().min(4) {
            v.push(Dev::DeliverIndex(k));
        }
    }
    if sc.enable_truncate() {
        let n = front_filters_len(sim);
        for j in 1..n {
            v.push(Dev::TruncateBatch(j));
        }
    }
    if sc.enable_tick() && !sim.queue.is_empty() {
        v.push(Dev::TickRound);
    }
    if sc.enable_restart() {
        v.push(Dev::Restart);
    }
    v.extend(sc.user_devs(sim));
    v
}

pub(crate) fn restart_all(sim: &mut Sim) {
    restart_all_pre(sim, &|_| {})
}

pub(crate) fn restart_all_pre(sim: &mut Sim, while_down: &dyn Fn(&mut Sim)) {
    sim.restart();
    while_down(sim);
    // the chain of every connected view grows by one empty block
    let ids: Vec<(usize, usize, u64)> = sim
        .world
        .peers
        .iter()
        .map(|p| (p.id, p.chain, p.height))
        .collect();
    let mut grown: Vec<usize> = vec![];
    // growth is only needed when the stored tip is not below the peers' tip (a peer whose tip
    // equals the stored tip cannot be proven again until the chain grows)
    let stored_tip = sim.c().tip_number();
    for (_, chain, height) in &ids {
        if !grown.contains(chain)
            && *height == sim.world.chains[*chain].tip_number()
            && stored_tip >= *height
        {
            sim.world.chains[*chain].miner_lock = Default::default();
            sim.world.chains[*chain].push(vec![]);
            grown.push(*chain);
        }
    }
    for (id, chain, height) in ids {
        let new_height = if grown.contains(&chain) { height + 1 } else { height };
        sim.world.peer_mut(id).height = new_height;
        sim.connect(id);
    }
}

pub(crate) fn apply_dev(sc: &dyn Scenario, sim: &mut Sim, dev: &Dev) {
    match dev {
        Dev::DeliverIndex(k) => {
            if *k < sim.queue.len() {
                sim.deliver(*k);
            }
        }
        Dev::TruncateBatch(j) => {
            if let Some(front) = sim.queue.front().cloned() {
                if let Some(t) = truncate_filters(&front, *j) {
                    sim.queue.pop_front();
                    sim.deliver_msg(t);
                }
            }
        }
        Dev::TickRound => {
            sim.advance(10);
            sim.tick_all();
        }
        Dev::Advance(ms) => {
            sim.advance(*ms);
            sim.tick_all();
        }
        Dev::Restart => restart_all(sim),
        other => sc.apply_custom(sim, other),
    }
}

/// Default environment step. Returns false when the run is over (two idle timer rounds).
pub(crate) fn default_step(sim: &mut Sim, idle: &mut usize) -> bool {
    if !sim.queue.is_empty() {
        sim.deliver(0);
        *idle = 0;
        return true;
    }
    let before = sim.quiescence_print();
    sim.advance(10);
    sim.tick_all();
    if sim.queue.is_empty() && sim.quiescence_print() == before {
        *idle += 1;
    } else {
        *idle = 0;
    }
    *idle < 2
}

pub(crate) fn run(
    sc: &dyn Scenario,
    old: Option<Sim>,
    devs: &[(usize, Dev)],
    record_from: usize,
    trace: bool,
    violations: &mut Vec<(String, String, usize)>,
) -> (Sim, RunOutcome) {
    let mut sim = sc.init(old);
    sim.record_trace = trace;
    let map: BTreeMap<usize, &Dev> = devs.iter().map(|(s, d)| (*s, d)).collect();
    let mut applicable = vec![];
    let mut idle = 0usize;
    let mut step = 0usize;
    let mut converged = false;
    let mut panic = None;
    let max = sc.max_steps();
    while step < max {
        if step >= record_from {
            let a = applicable_devs(sc, &sim);
            if !a.is_empty() {
                applicable.push((step, a));
            }
        }
        let r = panics::catch(|| {
            if let Some(d) = map.get(&step) {
                apply_dev(sc, &mut sim, d);
                idle = 0;
                true
            } else if default_step(&mut sim, &mut idle) {
                true
            } else if sc.on_quiescent(&mut sim) {
                idle = 0;
                true
            } else {
                false
            }
        });
        match r {
            Err(p) => {
                panic = Some(p);
                break;
            }
            Ok(false) => {
                converged = true;
                step += 1;
                break;
            }
            Ok(true) => {}
        }
        for (k, d) in sc.after_step(&sim, step) {
            violations.push((k, d, step));
        }
        step += 1;
    }
    let trace_lines = std::mem::take(&mut sim.trace);
    (
        sim,
        RunOutcome {
            steps: step,
            converged,
            panic,
            applicable,
            trace: trace_lines,
        },
    )
}

pub(crate) struct ExploreStats {
    pub runs: u64,
    pub steps: u64,
    pub by_bound: BTreeMap<usize, u64>,
    pub distinct_final: std::collections::BTreeSet<[u8; 32]>,
    pub capped: bool,
}

/// Enumerates every run with at most `bound` deviations. `judge(sim, outcome, devs)` is called at
/// the end of every run.
pub(crate) fn explore(
    sc: &dyn Scenario,
    bound: usize,
    max_runs: u64,
    dev_filter: &dyn Fn(&[(usize, Dev)], usize, &Dev) -> bool,
    judge: &mut dyn FnMut(&Sim, &RunOutcome, &[(usize, Dev)], &[(String, String, usize)]),
) -> ExploreStats {
    let mut stats = ExploreStats {
        runs: 0,
        steps: 0,
        by_bound: BTreeMap::new(),
        distinct_final: Default::default(),
        capped: false,
    };
    let mut recycled: Option<Sim> = None;
    // iterative bound: all runs with 0 deviations, then 1, then 2 (breadth-first over bounds so
    // that the first counterexample has the fewest deviations)
    let mut frontier: Vec<Vec<(usize, Dev)>> = vec![vec![]];
    for depth in 0..=bound {
        let mut next: Vec<Vec<(usize, Dev)>> = vec![];
        for devs in frontier.drain(..) {
            if stats.runs >= max_runs {
                stats.capped = true;
                break;
            }
            let record_from = devs.last().map(|(s, _)| s + 1).unwrap_or(0);
            let mut step_violations = vec![];
            let (sim, outcome) = run(sc, recycled.take(), &devs, record_from, false, &mut step_violations);
            stats.runs += 1;
            stats.steps += outcome.steps as u64;
            *stats.by_bound.entry(depth).or_insert(0) += 1;
            if outcome.panic.is_none() {
                stats.distinct_final.insert(sim.quiescence_print());
            }
            judge(&sim, &outcome, &devs, &step_violations);
            if depth < bound {
                for (step, list) in &outcome.applicable {
                    for d in list {
                        if dev_filter(&devs, *step, d) {
                            let mut nd = devs.clone();
                            nd.push((*step, d.clone()));
                            next.push(nd);
                        }
                    }
                }
            }
            recycled = if outcome.panic.is_some() { None } else { Some(sim) };
        }
        frontier = next;
    }
    stats
}

pub(crate) fn devs_json(devs: &[(usize, Dev)]) -> Value {
    Value::Array(
        devs.iter()
            .map(|(s, d)| json!({"step": s, "deviation": format!("{:?}", d)}))
            .collect(),
    )
}

pub(crate) fn user_fetch_tx(sim: &mut Sim, hash: packed::Byte32) {
    let h: H256 = hash.unpack();
    let _ = sim.c().rpc_tx().fetch_transaction(h);
    sim.cm().tick_lc(1);
    sim.pump_out();
}

pub(crate) fn user_fetch_header(sim: &mut Sim, hash: packed::Byte32) {
    let h: H256 = hash.unpack();
    let _ = sim.c().rpc_chain().fetch_header(h);
    sim.cm().tick_lc(1);
    sim.pump_out();
}

pub(crate) fn user_set_scripts(
    sim: &mut Sim,
    cmd: u8,
    list: &[(packed::Script, bool, u64)],
) {
    use crate::service::{ScriptStatus, ScriptType};
    let scripts: Vec<ScriptStatus> = list
        .iter()
        .map(|(s, is_lock, n)| ScriptStatus {
            script: s.clone().into(),
            script_type: if *is_lock { ScriptType::Lock } else { ScriptType::Type },
            block_number: (*n).into(),
        })
        .collect();
    let command = match cmd {
        0 => Some(SetScriptsCommand::All),
        1 => Some(SetScriptsCommand::Partial),
        2 => Some(SetScriptsCommand::Delete),
        _ => None,
    };
    let _ = sim.c().rpc_filter().set_scripts(scripts, command);
    let _ = Bytes::new();
}


// ------------------------------------------------------------------------------------------
// E-crash: the same run, but the process "dies" at the k-th storage write point
// ------------------------------------------------------------------------------------------

use std::sync::atomic::{AtomicI64, AtomicU64, Ordering};
use std::sync::Arc;

static WRITES_SEEN: AtomicU64 = AtomicU64::new(0);
static CRASH_AT: AtomicI64 = AtomicI64::new(-1);
pub(crate) const CRASH_MARK: &str = "VERIF-CRASH-INJECTED";

pub(crate) fn install_crash_hook() {
    crate::verif_hooks::set_point_hook(Some(Arc::new(|kind, _label, _probe| {
        if kind == "write" {
            let n = WRITES_SEEN.fetch_add(1, Ordering::SeqCst);
            if CRASH_AT.load(Ordering::SeqCst) == n as i64 {
                // the write does not happen: the process is gone
                panic!("{}", CRASH_MARK);
            }
        }
    })));
}

pub(crate) fn arm_crash(at: Option<u64>) {
    WRITES_SEEN.store(0, Ordering::SeqCst);
    CRASH_AT.store(at.map(|x| x as i64).unwrap_or(-1), Ordering::SeqCst);
}

pub(crate) fn disarm_crash() {
    CRASH_AT.store(-1, Ordering::SeqCst);
}

pub(crate) fn writes_seen() -> u64 {
    WRITES_SEEN.load(Ordering::SeqCst)
}

pub(crate) struct CrashOutcome {
    pub run: RunOutcome,
    /// write points passed before the history ended (crash-free) or before the crash
    pub writes: u64,
    pub crashed_at_step: Option<usize>,
    /// the store could not be reopened / the start-up sequence panicked
    pub reopen_panic: Option<PanicRec>,
    /// write points of the recovery after the first crash (when it ran to quiescence)
    pub recovery_writes: u64,
    pub second_crash_reached: bool,
}

/// Runs the scenario with the given deviations; if `crash_at` is Some(k) the k-th write point
/// (counted from the first step, i.e. after `init`) unwinds, every in-memory object is dropped,
/// the store is reopened with the normal start-up sequence, the peers reconnect (the world grows
/// by one block) and the honest history continues to quiescence. With `crash_at` None the same
/// restart is performed when the history is over (the crash-free reference).
pub(crate) fn run_with_crash(
    sc: &dyn Scenario,
    devs: &[(usize, Dev)],
    crash_at: Option<u64>,
    count_init_writes: bool,
) -> (Option<Sim>, CrashOutcome) {
    run_with_crashes(sc, devs, crash_at, None, count_init_writes)
}

/// Like `run_with_crash`, with an optional second crash at the j-th write point of the recovery
/// (counted from the restart after the first crash). `CrashOutcome::recovery_writes` is the number
/// of write points of the (first) recovery when no second crash is armed.
/// see `run_with_crashes`
pub(crate) static REPLAY_FILTERS_AFTER_RESTART: std::sync::atomic::AtomicBool = std::sync::atomic::AtomicBool::new(false);

pub(crate) fn run_with_crashes(
    sc: &dyn Scenario,
    devs: &[(usize, Dev)],
    crash_at: Option<u64>,
    second_crash_at: Option<u64>,
    count_init_writes: bool,
) -> (Option<Sim>, CrashOutcome) {
    install_crash_hook();
    if count_init_writes {
        arm_crash(crash_at);
    } else {
        arm_crash(None);
    }
    let mut sim = match panics::catch(|| sc.init(None)) {
        Ok(sim) => sim,
        Err(p) => {
            disarm_crash();
            return (
                None,
                CrashOutcome {
                    run: RunOutcome { steps: 0, converged: false, panic: Some(p), applicable: vec![], trace: vec![] },
                    writes: writes_seen(),
                    crashed_at_step: Some(0),
                    reopen_panic: None,
                    recovery_writes: 0,
                    second_crash_reached: false,
                },
            );
        }
    };
    if !count_init_writes {
        arm_crash(crash_at);
    }
    sim.record_trace = std::env::var("VERIF_TRACE").is_ok();
    let map: BTreeMap<usize, &Dev> = devs.iter().map(|(s, d)| (*s, d)).collect();
    let mut idle = 0usize;
    let mut step = 0usize;
    let mut converged = false;
    let mut panic = None;
    let mut crashed_at_step = None;
    let mut reopen_panic = None;
    let mut restarted = false;
    let mut second_pending = second_crash_at;
    let mut second_crash_reached = false;
    let mut recovery_writes = 0u64;
    let mut writes = 0u64;
    let max = sc.max_steps();
    // (REPLAY_FILTERS_AFTER_RESTART) the last BlockFilters answer delivered before the crash comes
    // a second time after the restart, as soon as its sender is proven again and before anything
    // else happens: a repeated / late answer that is not continuous with the filtered height
    let replay_filters = REPLAY_FILTERS_AFTER_RESTART.load(std::sync::atomic::Ordering::SeqCst);
    let mut last_filters: Option<crate::verif::driver::InFlight> = None;
    while step < max {
        if replay_filters && !restarted {
            if let Some(m) = sim.queue.front() {
                if m.proto == crate::verif::net::Proto::Filter && crate::verif::scen::filter_kind(&m.data).as_deref() == Some("BlockFilters") {
                    last_filters = Some(m.clone());
                }
            }
        }
        let r = panics::catch(|| {
            if replay_filters && restarted {
                if let Some(m) = last_filters.clone() {
                    let proven = sim.c().peers.get_state(&ckb_network::PeerIndex::new(m.peer)).map(|s| s.get_prove_state().is_some()).unwrap_or(false);
                    if proven && sim.world.peer(m.peer).connected {
                        last_filters = None;
                        sim.deliver_msg(m);
                        idle = 0;
                        return true;
                    }
                }
            }
            if let Some(d) = map.get(&step) {
                apply_dev(sc, &mut sim, d);
                idle = 0;
                true
            } else if default_step(&mut sim, &mut idle) {
                true
            } else if sc.on_quiescent(&mut sim) {
                idle = 0;
                true
            } else {
                false
            }
        });
        let finished = match r {
            Err(p) if p.msg.contains(CRASH_MARK) && restarted => {
                // the second crash, during the recovery: restart once more and go on
                second_crash_reached = true;
                disarm_crash();
                let r2 = panics::catch(|| restart_all_pre(&mut sim, &|s| sc.on_restart(s)));
                if let Err(p) = r2 {
                    reopen_panic = Some(p);
                    break;
                }
                idle = 0;
                false
            }
            Err(p) if p.msg.contains(CRASH_MARK) => {
                crashed_at_step = Some(step);
                writes = writes_seen();
                true
            }
            Err(p) => {
                panic = Some(p);
                break;
            }
            Ok(false) => true,
            Ok(true) => false,
        };
        if finished {
            if restarted {
                converged = true;
                recovery_writes = writes_seen();
                step += 1;
                break;
            }
            if crashed_at_step.is_none() {
                writes = writes_seen();
            }
            // process restart: drop everything, reopen, reconnect
            disarm_crash();
            restarted = true;
            // write points of the recovery are counted from here; a second crash may be armed
            arm_crash(second_pending.take());
            let r2 = panics::catch(|| restart_all_pre(&mut sim, &|s| sc.on_restart(s)));
            if let Err(p) = r2 {
                reopen_panic = Some(p);
                break;
            }
            // a user call that was interrupted by the crash is issued again after the restart
            if let Some(d) = crashed_at_step.and_then(|s| map.get(&s)) {
                let r3 = panics::catch(|| apply_dev(sc, &mut sim, d));
                if let Err(p) = r3 {
                    if p.msg.contains(CRASH_MARK) {
                        // the second crash hit the repeated call: restart and repeat it once more
                        second_crash_reached = true;
                        disarm_crash();
                        let r4 = panics::catch(|| {
                            restart_all_pre(&mut sim, &|s| sc.on_restart(s));
                            apply_dev(sc, &mut sim, d)
                        });
                        if let Err(p) = r4 {
                            panic = Some(p);
                            break;
                        }
                    } else {
                        panic = Some(p);
                        break;
                    }
                }
            }
            idle = 0;
        }
        step += 1;
    }
    disarm_crash();
    let trace_lines = std::mem::take(&mut sim.trace);
    // a store that cannot be reopened leaves no client behind
    let sim = if sim.client.is_some() { Some(sim) } else { None };
    (
        sim,
        CrashOutcome {
            run: RunOutcome { steps: step, converged, panic, applicable: vec![], trace: trace_lines },
            writes,
            crashed_at_step,
            reopen_panic,
            recovery_writes,
            second_crash_reached,
        },
    )
}
