//! E-sched: two real OS threads, exactly one runnable at a time, hand-off only at the hook points
//! compiled into the client (`verif_hooks::point` before every storage write and inside the RPC
//! readers, `verif_hooks::lock_point` before the `matched_blocks` lock is taken).
//!
//! A schedule is "which thread starts" + a list of preemptions (thread, index of its hook point).
//! At a lock point the probe tells whether the lock could be taken; if not, the thread is
//! *disabled* and the other one runs (a forced switch, not a preemption). No enabled thread =
//! deadlock.
//!
//! Blocking primitives the hooks do not cover (any other lock of the client, a DashMap shard, a
//! RocksDB mutex): the watchdog samples the OS state of the thread whose turn it is
//! (`/proc/self/task/<tid>/stat`). A thread that *sleeps* in the kernel for `STUCK_MS` although it
//! is its turn waits for something the other (parked) thread holds: the turn is forced over to
//! the other thread (counted, `forced_switches`). If the other thread cannot run either (it is
//! done, waits at a lock point, or sleeps the same way) the two threads wait for each other:
//! that is a deadlock of the code under test, reported through the hang handler (the process has
//! to end, OS threads blocked in a lock cannot be unwound). A thread that is merely slow is
//! runnable, not sleeping, and is never taken for blocked. The 30 s watchdog remains as the
//! machinery error for anything else.

use std::cell::Cell;
use std::panic::{catch_unwind, AssertUnwindSafe};
use std::sync::atomic::{AtomicU64, Ordering};
use std::sync::{Arc, Condvar, Mutex};
use std::time::{Duration, Instant};

use crate::verif_hooks;

thread_local! {
    static TID: Cell<usize> = Cell::new(usize::MAX);
}

#[derive(Clone, Copy, PartialEq, Eq, Debug)]
enum St {
    NotStarted,
    Running,
    Parked,
    Blocked,
    /// sleeps in the kernel outside a hook point (a blocking primitive without a lock point)
    Stuck,
    Done,
}

/// how long the thread whose turn it is has to sleep in the kernel before it counts as blocked
const STUCK_MS: u64 = 400;

static TIDS: [AtomicU64; 2] = [AtomicU64::new(0), AtomicU64::new(0)];

/// Called (from the watchdog thread) when the two threads wait for each other through a
/// primitive without a lock point; gets the schedule log. It has to end the process.
pub(crate) type HangFn = dyn Fn(&[String]) + Send + Sync;
static HANG: Mutex<Option<Arc<HangFn>>> = Mutex::new(None);

pub(crate) fn set_hang_handler(f: Option<Arc<HangFn>>) {
    *HANG.lock().unwrap_or_else(|e| e.into_inner()) = f;
}

fn os_tid() -> u64 {
    std::fs::read_link("/proc/thread-self")
        .ok()
        .and_then(|p| p.file_name().and_then(|n| n.to_str().and_then(|s| s.parse().ok())))
        .unwrap_or(0)
}

/// 'R' running / runnable, 'S' sleeping, 'D' disk sleep, ...
fn os_state(tid: u64) -> Option<char> {
    if tid == 0 {
        return None;
    }
    let stat = std::fs::read_to_string(format!("/proc/self/task/{}/stat", tid)).ok()?;
    let rest = &stat[stat.rfind(')')? + 1..];
    rest.trim_start().chars().next()
}

struct Shared {
    turn: usize,
    st: [St; 2],
    points: [usize; 2],
    /// (thread, point index) at which the thread is preempted
    plan: Vec<(usize, usize)>,
    log: Vec<String>,
    labels: [Vec<String>; 2],
    abort: bool,
    deadlock: bool,
    /// how often the second thread finished while the first one was parked inside its operation
    overlapped: bool,
    forced_switches: u64,
}

pub(crate) struct Outcome {
    pub deadlock: bool,
    pub hung: bool,
    pub panics: [Option<String>; 2],
    /// labels of the hook points each thread passed
    pub labels: [Vec<String>; 2],
    pub log: Vec<String>,
    /// the other thread ran to completion while a thread was parked at a preemption point
    pub overlapped: bool,
    /// turns handed over because the running thread slept at a primitive without a lock point
    pub forced_switches: u64,
}

const ABORT_MSG: &str = "verif-sched-abort";

struct Ctl {
    m: Mutex<Shared>,
    cv: Condvar,
}

impl Ctl {
    fn wait_turn(&self, me: usize) {
        let mut g = self.m.lock().unwrap();
        loop {
            if g.abort {
                drop(g);
                panic!("{}", ABORT_MSG);
            }
            if g.turn == me {
                g.st[me] = St::Running;
                return;
            }
            g = self.cv.wait(g).unwrap();
        }
    }

    /// hands the turn to the other thread if it can run; returns false if nobody can run
    fn switch_from(&self, g: &mut Shared, me: usize) -> bool {
        let other = 1 - me;
        match g.st[other] {
            St::NotStarted | St::Parked | St::Blocked | St::Stuck => {
                g.turn = other;
                true
            }
            St::Running => true,
            St::Done => false,
        }
    }

    fn at_point(&self, kind: &'static str, label: &'static str, probe: Option<&dyn Fn() -> bool>) {
        let me = TID.with(|t| t.get());
        if me > 1 {
            return;
        }
        let idx;
        {
            let mut g = self.m.lock().unwrap();
            idx = g.points[me];
            g.points[me] += 1;
            g.labels[me].push(format!("{}:{}", kind, label));
            g.log.push(format!("T{} @{} {}:{}", me, idx, kind, label));
            let preempt = g.plan.contains(&(me, idx)) && g.st[1 - me] != St::Done;
            if preempt {
                g.st[me] = St::Parked;
                let other_not_started = g.st[1 - me] == St::NotStarted;
                g.turn = 1 - me;
                g.log.push(format!("T{} preempted", me));
                let _ = other_not_started;
                self.cv.notify_all();
            }
        }
        self.wait_turn(me);
        // a lock point: wait (disabled) while the lock is held by the other thread
        if let Some(probe) = probe {
            loop {
                if probe() {
                    break;
                }
                let mut g = self.m.lock().unwrap();
                g.st[me] = St::Blocked;
                g.log.push(format!("T{} blocked at {}", me, label));
                let other = 1 - me;
                if g.st[other] == St::Stuck {
                    // the holder sleeps at a primitive without a lock point, waiting for
                    // something this thread holds: neither can be unwound
                    g.deadlock = true;
                    g.log.push(format!("T{} sleeps outside a hook point, T{} waits for {}: deadlock", other, me, label));
                    let log = g.log.clone();
                    drop(g);
                    hang(&log);
                }
                if g.st[other] == St::Done || g.st[other] == St::Blocked {
                    // the holder is gone or waits as well
                    g.deadlock = true;
                    g.abort = true;
                    self.cv.notify_all();
                    drop(g);
                    panic!("{}", ABORT_MSG);
                }
                g.turn = other;
                self.cv.notify_all();
                drop(g);
                self.wait_turn(me);
            }
        }
    }

    fn finish(&self, me: usize) {
        let mut g = self.m.lock().unwrap();
        g.st[me] = St::Done;
        let other = 1 - me;
        if g.st[other] == St::Parked {
            g.overlapped = true;
        }
        if g.st[other] != St::Done {
            g.turn = other;
        }
        g.log.push(format!("T{} done", me));
        self.cv.notify_all();
    }
}

/// Runs `a` and `b` on two threads under the schedule (`first` starts; `plan` lists preemptions).
pub(crate) fn run_pair<'s>(
    first: usize,
    plan: Vec<(usize, usize)>,
    a: Box<dyn FnOnce() + Send + 's>,
    b: Box<dyn FnOnce() + Send + 's>,
) -> Outcome {
    let ctl = Arc::new(Ctl {
        m: Mutex::new(Shared {
            turn: first,
            st: [St::NotStarted; 2],
            points: [0; 2],
            plan,
            log: vec![],
            labels: [vec![], vec![]],
            abort: false,
            deadlock: false,
            overlapped: false,
            forced_switches: 0,
        }),
        cv: Condvar::new(),
    });
    let hook_ctl = Arc::clone(&ctl);
    verif_hooks::set_point_hook(Some(Arc::new(move |kind, label, probe| hook_ctl.at_point(kind, label, probe))));
    let mut panics: [Option<String>; 2] = [None, None];
    let mut hung = false;
    std::thread::scope(|s| {
        let mut handles = vec![];
        for (id, f) in [(0usize, a), (1usize, b)] {
            let ctl = Arc::clone(&ctl);
            handles.push(s.spawn(move || {
                TID.with(|t| t.set(id));
                TIDS[id].store(os_tid(), Ordering::SeqCst);
                let r = catch_unwind(AssertUnwindSafe(|| {
                    ctl.wait_turn(id);
                    f();
                }));
                ctl.finish(id);
                match r {
                    Ok(()) => None,
                    Err(e) => {
                        let msg = e.downcast_ref::<String>().cloned().or_else(|| e.downcast_ref::<&str>().map(|s| s.to_string())).unwrap_or_else(|| "?".to_owned());
                        Some(msg)
                    }
                }
            }));
        }
        // watchdog
        let start = Instant::now();
        let mut asleep_since: Option<(usize, usize, Instant)> = None;
        loop {
            {
                let mut g = ctl.m.lock().unwrap();
                if g.st[0] == St::Done && g.st[1] == St::Done {
                    break;
                }
                // does the thread whose turn it is sleep in the kernel (outside the scheduler)?
                let t = g.turn;
                let progress = g.points[0] + g.points[1];
                let sleeping = (g.st[t] == St::Running || g.st[t] == St::Stuck)
                    && matches!(os_state(TIDS[t].load(Ordering::SeqCst)), Some('S') | Some('D'));
                match (sleeping, asleep_since) {
                    (true, Some((t0, p0, since))) if t0 == t && p0 == progress => {
                        if since.elapsed() > Duration::from_millis(STUCK_MS) {
                            let other = 1 - t;
                            g.st[t] = St::Stuck;
                            g.log.push(format!("T{} sleeps outside a hook point (a blocking primitive without a lock point)", t));
                            match g.st[other] {
                                St::Parked | St::NotStarted | St::Blocked => {
                                    g.forced_switches += 1;
                                    g.turn = other;
                                    g.log.push(format!("forced switch to T{}", other));
                                    ctl.cv.notify_all();
                                    asleep_since = None;
                                }
                                St::Stuck | St::Done | St::Running => {
                                    g.deadlock = true;
                                    let st_other = g.st[other];
                                    g.log.push(format!("T{} is {:?}: nobody can run, deadlock", other, st_other));
                                    let log = g.log.clone();
                                    drop(g);
                                    hang(&log);
                                }
                            }
                        }
                    }
                    (true, _) => asleep_since = Some((t, progress, Instant::now())),
                    (false, _) => asleep_since = None,
                }
            }
            if start.elapsed() > Duration::from_secs(30) {
                hung = true;
                let mut g = ctl.m.lock().unwrap();
                g.abort = true;
                ctl.cv.notify_all();
                break;
            }
            std::thread::sleep(Duration::from_millis(1));
        }
        if hung {
            // threads stuck outside a hook cannot be unwound: the process has to give up
            eprintln!("E-sched: a thread neither reached a hook point nor finished within 30 s (log: {:?})", ctl.m.lock().unwrap().log);
            std::process::exit(2);
        }
        for (i, h) in handles.into_iter().enumerate() {
            if let Ok(Some(msg)) = h.join() {
                if !msg.contains(ABORT_MSG) {
                    panics[i] = Some(msg);
                }
            }
        }
    });
    verif_hooks::set_point_hook(None);
    let g = ctl.m.lock().unwrap();
    Outcome { deadlock: g.deadlock, hung, panics, labels: g.labels.clone(), log: g.log.clone(), overlapped: g.overlapped, forced_switches: g.forced_switches }
}

/// The two threads wait for each other and cannot be unwound: hand the log to the handler of the
/// check (which records the violation and ends the process); without one this is a machinery error.
fn hang(log: &[String]) -> ! {
    let h = HANG.lock().unwrap_or_else(|e| e.into_inner()).clone();
    if let Some(h) = h {
        h(log);
    }
    eprintln!("E-sched: the threads wait for each other outside the hook points (log: {:?})", log);
    std::process::exit(2);
}
