//! Script alphabet and transaction patterns for world blocks.

use ckb_chain_spec::consensus::Consensus;
use ckb_network::bytes::Bytes;
use ckb_types::{
    core::{DepType, ScriptHashType, TransactionBuilder, TransactionView},
    packed::{self, CellDep, CellInput, CellOutput, OutPoint, Script},
    prelude::*,
};

#[derive(Clone)]
pub(crate) struct Scripts {
    /// lock, always-success code, args 01
    pub a: Script,
    /// lock, same code hash, args 0102 (prefix-sharing with A)
    pub b: Script,
    /// lock, other code hash
    pub c: Script,
    /// type script
    pub t: Script,
    /// always-success with empty args
    pub always: Script,
    pub always_dep: CellDep,
    /// lock, secp256k1_blake160_sighash_all (hash type `type`), args = blake160 of the public key
    /// of `SECP_KEY`: its verdict depends on the witness (a signature over the transaction)
    pub s: Script,
    /// the dep group of the secp256k1 lock in the genesis block (None on a spec without it)
    pub secp_dep: Option<CellDep>,
}

/// The private key of script `S` (any fixed non-zero scalar).
pub(crate) const SECP_KEY: [u8; 32] = [0x5a; 32];

impl Scripts {
    pub(crate) fn new(consensus: &Consensus) -> Scripts {
        let genesis = consensus.genesis_block();
        // the always_success system cell: tx 0, the output whose data is the 512-byte binary
        let tx0 = genesis.transaction(0).expect("genesis tx0");
        let mut found = None;
        for (i, data) in tx0.outputs_data().into_iter().enumerate() {
            if data.raw_data().len() == 512 {
                found = Some((i, CellOutput::calc_data_hash(&data.raw_data())));
            }
        }
        let (index, code_hash) = found.expect("always_success cell in genesis");
        let mk = |args: &[u8]| {
            Script::new_builder()
                .code_hash(code_hash.clone())
                .hash_type(ScriptHashType::Data.into())
                .args(Bytes::from(args.to_vec()).pack())
                .build()
        };
        let other_code: packed::Byte32 = [0x77u8; 32].pack();
        let pubkey_hash = {
            let pk = ckb_crypto::secp::Privkey::from_slice(&SECP_KEY).pubkey().expect("pubkey");
            ckb_hash::blake2b_256(pk.serialize())[..20].to_vec()
        };
        let secp = consensus.secp256k1_blake160_sighash_all_type_hash();
        Scripts {
            s: Script::new_builder()
                .code_hash(secp.clone().unwrap_or_default())
                .hash_type(ScriptHashType::Type.into())
                .args(Bytes::from(pubkey_hash).pack())
                .build(),
            // the first dep group of the genesis block: transaction 1, output 0
            secp_dep: secp.and_then(|_| genesis.transaction(1)).map(|tx1| {
                CellDep::new_builder()
                    .out_point(OutPoint::new(tx1.hash(), 0))
                    .dep_type(DepType::DepGroup.into())
                    .build()
            }),
            a: mk(&[1]),
            b: mk(&[1, 2]),
            c: Script::new_builder()
                .code_hash(other_code)
                .hash_type(ScriptHashType::Data.into())
                .args(Bytes::from(vec![9u8]).pack())
                .build(),
            t: mk(&[0xee]),
            always: mk(&[]),
            always_dep: CellDep::new_builder()
                .out_point(OutPoint::new(tx0.hash(), index as u32))
                .dep_type(DepType::Code.into())
                .build(),
        }
    }

    pub(crate) fn by_name(&self, name: char) -> Script {
        match name {
            'A' => self.a.clone(),
            'B' => self.b.clone(),
            'C' => self.c.clone(),
            'T' => self.t.clone(),
            'S' => self.s.clone(),
            _ => self.always.clone(),
        }
    }
}

#[derive(Clone)]
pub(crate) struct OutSpec {
    pub lock: Script,
    pub type_: Option<Script>,
    pub capacity: u64,
    pub data: Vec<u8>,
}

impl OutSpec {
    pub(crate) fn lock(lock: &Script, capacity: u64) -> OutSpec {
        OutSpec {
            lock: lock.clone(),
            type_: None,
            capacity,
            data: vec![],
        }
    }
    pub(crate) fn typed(lock: &Script, type_: &Script, capacity: u64, data: Vec<u8>) -> OutSpec {
        OutSpec {
            lock: lock.clone(),
            type_: Some(type_.clone()),
            capacity,
            data,
        }
    }
}

pub(crate) fn build_tx(
    deps: &[CellDep],
    inputs: &[OutPoint],
    outputs: &[OutSpec],
    salt: u64,
) -> TransactionView {
    let mut b = TransactionBuilder::default();
    for d in deps {
        b = b.cell_dep(d.clone());
    }
    for i in inputs {
        b = b.input(CellInput::new(i.clone(), 0));
    }
    for o in outputs {
        let out = CellOutput::new_builder()
            .capacity(o.capacity.pack())
            .lock(o.lock.clone())
            .type_(Pack::pack(&o.type_))
            .build();
        b = b.output(out).output_data(Bytes::from(o.data.clone()).pack());
    }
    b.witness(Bytes::from(salt.to_le_bytes().to_vec()).pack())
        .build()
}

/// Signs a transaction whose inputs are all locked by script `S` the way
/// secp256k1_blake160_sighash_all expects it: witness 0 becomes a WitnessArgs whose lock is the
/// recoverable signature over blake2b(tx hash, length and bytes of witness 0 with a zeroed lock,
/// length and bytes of every further witness). `key` is the signing key (`SECP_KEY` for a valid
/// signature). Further witnesses of `tx` are kept and covered by the signature.
pub(crate) fn sign_secp(tx: &TransactionView, key: &[u8; 32]) -> TransactionView {
    let zero = packed::WitnessArgs::new_builder()
        .lock(Some(Bytes::from(vec![0u8; 65])).pack())
        .build();
    let rest: Vec<packed::Bytes> = tx.witnesses().into_iter().skip(1).collect();
    let mut hasher = ckb_hash::new_blake2b();
    hasher.update(tx.hash().as_slice());
    hasher.update(&(zero.as_bytes().len() as u64).to_le_bytes());
    hasher.update(&zero.as_bytes());
    for w in &rest {
        let raw = w.raw_data();
        hasher.update(&(raw.len() as u64).to_le_bytes());
        hasher.update(&raw);
    }
    let mut msg = [0u8; 32];
    hasher.finalize(&mut msg);
    let sig = ckb_crypto::secp::Privkey::from_slice(key)
        .sign_recoverable(&msg.into())
        .expect("sign")
        .serialize();
    let w0 = zero.as_builder().lock(Some(Bytes::from(sig)).pack()).build();
    let mut witnesses = vec![w0.as_bytes().pack()];
    witnesses.extend(rest);
    tx.as_advanced_builder().set_witnesses(witnesses).build()
}
