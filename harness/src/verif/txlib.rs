//! Script alphabet and transaction patterns for world blocks.

use ckb_chain_spec::consensus::Consensus;
use ckb_network::bytes::Bytes;
use ckb_types::{
    core::{DepType, ScriptHashType, TransactionBuilder, TransactionView},
    packed::{self, CellDep, CellInput, CellOutput, OutPoint, Script},
    prelude::*,
};

#[derive(Clone)]
pub(crate) struct Scripts {
    /// lock, always-success code, args 01
    pub a: Script,
    /// lock, same code hash, args 0102 (prefix-sharing with A)
    pub b: Script,
    /// lock, other code hash
    pub c: Script,
    /// type script
    pub t: Script,
    /// always-success with empty args
    pub always: Script,
    pub always_dep: CellDep,
}

impl Scripts {
    pub(crate) fn new(consensus: &Consensus) -> Scripts {
        let genesis = consensus.genesis_block();
        // the always_success system cell: tx 0, the output whose data is the 512-byte binary
        let tx0 = genesis.transaction(0).expect("genesis tx0");
        let mut found = None;
        for (i, data) in tx0.outputs_data().into_iter().enumerate() {
            if data.raw_data().len() == 512 {
                found = Some((i, CellOutput::calc_data_hash(&data.raw_data())));
            }
        }
        let (index, code_hash) = found.expect("always_success cell in genesis");
        let mk = |args: &[u8]| {
            Script::new_builder()
                .code_hash(code_hash.clone())
                .hash_type(ScriptHashType::Data.into())
                .args(Bytes::from(args.to_vec()).pack())
                .build()
        };
        let other_code: packed::Byte32 = [0x77u8; 32].pack();
        Scripts {
            a: mk(&[1]),
            b: mk(&[1, 2]),
            c: Script::new_builder()
                .code_hash(other_code)
                .hash_type(ScriptHashType::Data.into())
                .args(Bytes::from(vec![9u8]).pack())
                .build(),
            t: mk(&[0xee]),
            always: mk(&[]),
            always_dep: CellDep::new_builder()
                .out_point(OutPoint::new(tx0.hash(), index as u32))
                .dep_type(DepType::Code.into())
                .build(),
        }
    }

    pub(crate) fn by_name(&self, name: char) -> Script {
        match name {
            'A' => self.a.clone(),
            'B' => self.b.clone(),
            'C' => self.c.clone(),
            'T' => self.t.clone(),
            _ => self.always.clone(),
        }
    }
}

#[derive(Clone)]
pub(crate) struct OutSpec {
    pub lock: Script,
    pub type_: Option<Script>,
    pub capacity: u64,
    pub data: Vec<u8>,
}

impl OutSpec {
    pub(crate) fn lock(lock: &Script, capacity: u64) -> OutSpec {
        OutSpec {
            lock: lock.clone(),
            type_: None,
            capacity,
            data: vec![],
        }
    }
    pub(crate) fn typed(lock: &Script, type_: &Script, capacity: u64, data: Vec<u8>) -> OutSpec {
        OutSpec {
            lock: lock.clone(),
            type_: Some(type_.clone()),
            capacity,
            data,
        }
    }
}

pub(crate) fn build_tx(
    deps: &[CellDep],
    inputs: &[OutPoint],
    outputs: &[OutSpec],
    salt: u64,
) -> TransactionView {
    let mut b = TransactionBuilder::default();
    for d in deps {
        b = b.cell_dep(d.clone());
    }
    for i in inputs {
        b = b.input(CellInput::new(i.clone(), 0));
    }
    for o in outputs {
        let out = CellOutput::new_builder()
            .capacity(o.capacity.pack())
            .lock(o.lock.clone())
            .type_(Pack::pack(&o.type_))
            .build();
        b = b.output(out).output_data(Bytes::from(o.data.clone()).pack());
    }
    b.witness(Bytes::from(salt.to_le_bytes().to_vec()).pack())
        .build()
}
