//! Mutation operators over protocol messages: generic byte-level windows (hit every fixed-size
//! numeric field of every molecule layout without per-type code), truncations, structure-aware
//! operators for the vectors of the main messages, and "re-sealing" (recomputing the commitments
//! an attacker controls: extension, extra hash, easy-target nonce).

use ckb_chain_spec::consensus::Consensus;
use ckb_network::bytes::Bytes;
use ckb_types::{core::ExtraHashView, packed, prelude::*, U256};

#[derive(Clone, Debug)]
pub(crate) struct Mutant {
    pub label: String,
    pub data: Bytes,
}

fn window_values(width: usize, thorough: bool) -> Vec<Vec<u8>> {
    let mut v: Vec<Vec<u8>> = vec![vec![0xff; width]];
    match width {
        4 => {
            v.push(vec![0, 0, 0, 0]);
            if thorough {
                v.push(vec![1, 0, 0, 0]);
                v.push(vec![0xff, 0xff, 0xff, 0x7f]);
            }
        }
        8 => {
            v.push(vec![0; 8]);
            v.push(vec![1, 0, 0, 0, 0, 0, 0, 0]);
            v.push(vec![0xff, 0xff, 0xff, 0xff, 0, 0, 0, 0]); // 2^32-1
            if thorough {
                v.push(vec![0xff, 0xff, 0xff, 0xff, 0xff, 0xff, 0xff, 0x7f]);
            }
        }
        32 => {
            let mut half = vec![0xff; 32];
            half[31] = 0x7f;
            v.push(half);
            v.push(vec![0; 32]);
            if thorough {
                let mut one = vec![0; 32];
                one[0] = 1;
                v.push(one);
            }
        }
        _ => {}
    }
    v
}

/// Overwrites every window of width 4, 8 and 32 at every offset (stride 1) with boundary values.
pub(crate) fn byte_windows(data: &[u8], thorough: bool, mut f: impl FnMut(Mutant)) {
    for width in [4usize, 8, 32] {
        if data.len() < width {
            continue;
        }
        let values = window_values(width, thorough);
        for off in 0..=(data.len() - width) {
            for (vi, val) in values.iter().enumerate() {
                if &data[off..off + width] == val.as_slice() {
                    continue;
                }
                let mut m = data.to_vec();
                m[off..off + width].copy_from_slice(val);
                f(Mutant {
                    label: format!("window(off={},w={},v={})", off, width, vi),
                    data: Bytes::from(m),
                });
            }
        }
    }
}

pub(crate) fn truncations(data: &[u8], mut f: impl FnMut(Mutant)) {
    for len in 0..data.len() {
        f(Mutant {
            label: format!("truncate({})", len),
            data: Bytes::from(data[..len].to_vec()),
        });
    }
    for extra in [1usize, 4, 32] {
        let mut m = data.to_vec();
        m.extend(std::iter::repeat(0xffu8).take(extra));
        f(Mutant {
            label: format!("append({})", extra),
            data: Bytes::from(m),
        });
    }
}

pub(crate) fn bit_flips(data: &[u8], mut f: impl FnMut(Mutant)) {
    for off in 0..data.len() {
        for bit in [0u8, 7] {
            let mut m = data.to_vec();
            m[off] ^= 1 << bit;
            f(Mutant {
                label: format!("flip(off={},bit={})", off, bit),
                data: Bytes::from(m),
            });
        }
    }
}

/// Recomputes extension (= hash of the parent chain root), extra hash and, on a real PoW
/// consensus, the nonce of a verifiable header.
pub(crate) fn reseal_vh(
    consensus: &Consensus,
    vh: &packed::VerifiableHeader,
) -> packed::VerifiableHeader {
    let ext: packed::Bytes = vh.parent_chain_root().calc_mmr_hash().as_bytes().pack();
    let extra_hash = ExtraHashView::new(vh.uncles_hash(), Some(ext.calc_raw_data_hash())).extra_hash();
    let raw = vh.header().raw().as_builder().extra_hash(extra_hash).build();
    let mut header = vh.header().as_builder().raw(raw).build();
    let engine = consensus.pow_engine();
    if !engine.verify(&header) {
        let mut nonce: u128 = 0;
        // easy targets only; give up quickly on absurd targets
        while nonce < 4096 {
            let h = header.clone().as_builder().nonce(nonce.pack()).build();
            if engine.verify(&h) {
                header = h;
                break;
            }
            nonce += 1;
        }
    }
    vh.clone()
        .as_builder()
        .header(header)
        .extension(Pack::<packed::BytesOpt>::pack(&Some(ext)))
        .build()
}

/// Re-seals the headers an attacker can re-seal without changing the identity of the answered
/// request: all `headers` of a SendLastStateProof, the `last_header` of a SendLastState.
pub(crate) fn reseal_lc(consensus: &Consensus, data: &[u8]) -> Option<Bytes> {
    let msg = packed::LightClientMessage::from_slice(data).ok()?;
    match msg.to_enum() {
        packed::LightClientMessageUnion::SendLastState(m) => {
            let vh = reseal_vh(consensus, &m.last_header());
            Some(
                packed::LightClientMessage::new_builder()
                    .set(m.as_builder().last_header(vh).build())
                    .build()
                    .as_bytes(),
            )
        }
        packed::LightClientMessageUnion::SendLastStateProof(m) => {
            let headers: Vec<packed::VerifiableHeader> = m
                .headers()
                .into_iter()
                .map(|h| reseal_vh(consensus, &h))
                .collect();
            Some(
                packed::LightClientMessage::new_builder()
                    .set(m.as_builder().headers(headers.pack()).build())
                    .build()
                    .as_bytes(),
            )
        }
        _ => None,
    }
}

/// Total difficulties next to what the receiver already trusts: for every verifiable header of a
/// SendLastState / SendLastStateProof (the last header and each proof header) the total
/// difficulty of its parent chain root is set to S-D-1, S-D, S-D+1, S-1, S, S+1 for every base S
/// (the stored / proven total difficulties of the receiver; D = the header's own difficulty), raw
/// and with the header re-sealed so that it commits to the altered root. Fixed boundary values
/// (0, 2^64-1, 2^256-1 ...) never land between a parent's and a child's total difficulty.
pub(crate) fn td_variants(consensus: &Consensus, data: &[u8], bases: &[U256]) -> Vec<Mutant> {
    use ckb_types::utilities::compact_to_difficulty;
    let mut out = vec![];
    let msg = match packed::LightClientMessage::from_slice(data) {
        Ok(m) => m,
        Err(_) => return out,
    };
    let values = |vh: &packed::VerifiableHeader| -> Vec<(String, U256)> {
        let compact: u32 = vh.header().raw().compact_target().unpack();
        let d = compact_to_difficulty(compact);
        let mut v = vec![];
        for (bi, s) in bases.iter().enumerate() {
            let one = U256::one();
            let mut push = |name: &str, x: Option<U256>| {
                if let Some(x) = x {
                    v.push((format!("S{}{}", bi, name), x));
                }
            };
            let s_minus_d = s.checked_sub(&d);
            push("-D-1", s_minus_d.clone().and_then(|x| x.checked_sub(&one)));
            push("-D", s_minus_d.clone());
            push("-D+1", s_minus_d.and_then(|x| x.checked_add(&one)));
            push("-1", s.checked_sub(&one));
            push("", Some(s.clone()));
            push("+1", s.checked_add(&one));
        }
        v
    };
    let with_td = |vh: &packed::VerifiableHeader, td: &U256| -> packed::VerifiableHeader {
        let root = vh.parent_chain_root().as_builder().total_difficulty(td.pack()).build();
        vh.clone().as_builder().parent_chain_root(root).build()
    };
    match msg.to_enum() {
        packed::LightClientMessageUnion::SendLastState(m) => {
            let vh = m.last_header();
            for (name, td) in values(&vh) {
                for sealed in [false, true] {
                    let mut v = with_td(&vh, &td);
                    if sealed {
                        v = reseal_vh(consensus, &v);
                    }
                    out.push(Mutant {
                        label: format!("td(last_header):={}{}", name, if sealed { "+resealed" } else { "" }),
                        data: packed::LightClientMessage::new_builder().set(m.clone().as_builder().last_header(v).build()).build().as_bytes(),
                    });
                }
            }
        }
        packed::LightClientMessageUnion::SendLastStateProof(m) => {
            let vh = m.last_header();
            for (name, td) in values(&vh) {
                for sealed in [false, true] {
                    let mut v = with_td(&vh, &td);
                    if sealed {
                        v = reseal_vh(consensus, &v);
                    }
                    out.push(Mutant {
                        label: format!("td(last_header):={}{}", name, if sealed { "+resealed" } else { "" }),
                        data: packed::LightClientMessage::new_builder().set(m.clone().as_builder().last_header(v).build()).build().as_bytes(),
                    });
                }
            }
            let headers: Vec<packed::VerifiableHeader> = m.headers().into_iter().collect();
            for (i, vh) in headers.iter().enumerate() {
                for (name, td) in values(vh) {
                    for sealed in [false, true] {
                        let mut v = with_td(vh, &td);
                        if sealed {
                            v = reseal_vh(consensus, &v);
                        }
                        let mut hs = headers.clone();
                        hs[i] = v;
                        out.push(Mutant {
                            label: format!("td(headers[{}]):={}{}", i, name, if sealed { "+resealed" } else { "" }),
                            data: packed::LightClientMessage::new_builder().set(m.clone().as_builder().headers(hs.pack()).build()).build().as_bytes(),
                        });
                    }
                }
            }
        }
        _ => {}
    }
    out
}

fn vec_variants<T: Clone>(items: &[T]) -> Vec<(&'static str, Vec<T>)> {
    let mut out: Vec<(&'static str, Vec<T>)> = vec![("empty", vec![])];
    if !items.is_empty() {
        out.push(("first-only", vec![items[0].clone()]));
        out.push(("last-only", vec![items[items.len() - 1].clone()]));
        out.push(("drop-first", items[1..].to_vec()));
        out.push(("drop-last", items[..items.len() - 1].to_vec()));
        let mut doubled = items.to_vec();
        doubled.extend_from_slice(items);
        out.push(("doubled", doubled));
        let mut dup_first = vec![items[0].clone()];
        dup_first.extend_from_slice(items);
        out.push(("dup-first", dup_first));
        let mut rev = items.to_vec();
        rev.reverse();
        out.push(("reversed", rev));
        if items.len() >= 2 {
            let mut sw = items.to_vec();
            sw.swap(0, 1);
            out.push(("swap-01", sw));
            let mut mid = items.to_vec();
            mid.remove(items.len() / 2);
            out.push(("drop-middle", mid));
        }
    }
    out
}

/// Structure-aware vector mutations of the main response messages.
pub(crate) fn structural(proto: &crate::verif::net::Proto, data: &[u8]) -> Vec<Mutant> {
    use crate::verif::net::Proto;
    let mut out = vec![];
    match proto {
        Proto::LightClient => {
            let msg = match packed::LightClientMessageReader::from_compatible_slice(data) {
                Ok(m) => m.to_entity(),
                Err(_) => return out,
            };
            let wrap = |u: packed::LightClientMessageUnion| {
                packed::LightClientMessage::new_builder().set(u).build().as_bytes()
            };
            match msg.to_enum() {
                packed::LightClientMessageUnion::SendLastStateProof(m) => {
                    let headers: Vec<_> = m.headers().into_iter().collect();
                    for (name, v) in vec_variants(&headers) {
                        out.push(Mutant {
                            label: format!("headers:{}", name),
                            data: wrap(m.clone().as_builder().headers(v.pack()).build().into()),
                        });
                    }
                    let proof: Vec<_> = m.proof().into_iter().collect();
                    for (name, v) in vec_variants(&proof) {
                        out.push(Mutant {
                            label: format!("proof:{}", name),
                            data: wrap(m.clone().as_builder().proof(v.pack()).build().into()),
                        });
                    }
                    if let Some(h) = headers.first() {
                        out.push(Mutant {
                            label: "last_header:=headers[0]".to_owned(),
                            data: wrap(m.clone().as_builder().last_header(h.clone()).build().into()),
                        });
                    }
                }
                packed::LightClientMessageUnion::SendBlocksProof(m) => {
                    let headers: Vec<_> = m.headers().into_iter().collect();
                    for (name, v) in vec_variants(&headers) {
                        out.push(Mutant {
                            label: format!("headers:{}", name),
                            data: wrap(m.clone().as_builder().headers(v.pack()).build().into()),
                        });
                    }
                    let proof: Vec<_> = m.proof().into_iter().collect();
                    for (name, v) in vec_variants(&proof) {
                        out.push(Mutant {
                            label: format!("proof:{}", name),
                            data: wrap(m.clone().as_builder().proof(v.pack()).build().into()),
                        });
                    }
                    let missing: Vec<_> = m.missing_block_hashes().into_iter().collect();
                    let mut hashes = missing.clone();
                    hashes.extend(headers.iter().map(|h| h.calc_header_hash()));
                    for (name, v) in vec_variants(&hashes) {
                        out.push(Mutant {
                            label: format!("missing:=all-hashes:{}", name),
                            data: wrap(
                                m.clone()
                                    .as_builder()
                                    .missing_block_hashes(v.clone().pack())
                                    .build()
                                    .into(),
                            ),
                        });
                        out.push(Mutant {
                            label: format!("missing:=all-hashes:{},no-headers", name),
                            data: wrap(
                                m.clone()
                                    .as_builder()
                                    .missing_block_hashes(v.pack())
                                    .headers(Default::default())
                                    .build()
                                    .into(),
                            ),
                        });
                    }
                }
                packed::LightClientMessageUnion::SendTransactionsProof(m) => {
                    let blocks: Vec<_> = m.filtered_blocks().into_iter().collect();
                    for (name, v) in vec_variants(&blocks) {
                        out.push(Mutant {
                            label: format!("filtered_blocks:{}", name),
                            data: wrap(
                                m.clone()
                                    .as_builder()
                                    .filtered_blocks(
                                        packed::FilteredBlockVec::new_builder().set(v).build(),
                                    )
                                    .build()
                                    .into(),
                            ),
                        });
                    }
                    let proof: Vec<_> = m.proof().into_iter().collect();
                    for (name, v) in vec_variants(&proof) {
                        out.push(Mutant {
                            label: format!("proof:{}", name),
                            data: wrap(m.clone().as_builder().proof(v.pack()).build().into()),
                        });
                    }
                    // per filtered block: empty the transactions / the merkle proof
                    for (bi, b) in blocks.iter().enumerate() {
                        let mut v = blocks.clone();
                        v[bi] = b.clone().as_builder().transactions(Default::default()).build();
                        out.push(Mutant {
                            label: format!("filtered_blocks[{}].transactions:empty", bi),
                            data: wrap(
                                m.clone()
                                    .as_builder()
                                    .filtered_blocks(
                                        packed::FilteredBlockVec::new_builder().set(v).build(),
                                    )
                                    .build()
                                    .into(),
                            ),
                        });
                        let mut v = blocks.clone();
                        v[bi] = b.clone().as_builder().proof(Default::default()).build();
                        out.push(Mutant {
                            label: format!("filtered_blocks[{}].proof:empty", bi),
                            data: wrap(
                                m.clone()
                                    .as_builder()
                                    .filtered_blocks(
                                        packed::FilteredBlockVec::new_builder().set(v).build(),
                                    )
                                    .build()
                                    .into(),
                            ),
                        });
                    }
                }
                _ => {}
            }
            // V1 extra fields (blocks_uncles_hash, blocks_extension)
            let item = msg.to_enum();
            if let packed::LightClientMessageUnion::SendBlocksProof(m) = &item {
                if m.count_extra_fields() >= 2 {
                    let v1 = packed::SendBlocksProofV1::new_unchecked(m.as_bytes());
                    let wrap1 = |v: packed::SendBlocksProofV1| {
                        wrap(packed::SendBlocksProof::new_unchecked(v.as_bytes()).into())
                    };
                    let uncles: Vec<_> = v1.blocks_uncles_hash().into_iter().collect();
                    for (name, v) in vec_variants(&uncles) {
                        out.push(Mutant {
                            label: format!("v1.blocks_uncles_hash:{}", name),
                            data: wrap1(v1.clone().as_builder().blocks_uncles_hash(v.pack()).build()),
                        });
                    }
                    let exts: Vec<packed::BytesOpt> = v1.blocks_extension().into_iter().collect();
                    for (name, v) in vec_variants(&exts) {
                        out.push(Mutant {
                            label: format!("v1.blocks_extension:{}", name),
                            data: wrap1(
                                v1.clone()
                                    .as_builder()
                                    .blocks_extension(packed::BytesOptVec::new_builder().set(v).build())
                                    .build(),
                            ),
                        });
                    }
                    // every extension: none / other bytes
                    for i in 0..exts.len() {
                        for (name, val) in [
                            ("none", packed::BytesOpt::default()),
                            (
                                "other",
                                Pack::<packed::BytesOpt>::pack(&Some(Bytes::from(vec![7u8; 32]).pack())),
                            ),
                        ] {
                            let mut v = exts.clone();
                            v[i] = val;
                            out.push(Mutant {
                                label: format!("v1.blocks_extension[*]:={}", name),
                                data: wrap1(
                                    v1.clone()
                                        .as_builder()
                                        .blocks_extension(packed::BytesOptVec::new_builder().set(v).build())
                                        .build(),
                                ),
                            });
                        }
                    }
                    // strip the V1 fields (V1 -> V0 downgrade)
                    out.push(Mutant {
                        label: "v1:strip-extra-fields".to_owned(),
                        data: wrap(
                            packed::SendBlocksProof::new_builder()
                                .last_header(v1.last_header())
                                .proof(v1.proof())
                                .headers(v1.headers())
                                .missing_block_hashes(v1.missing_block_hashes())
                                .build()
                                .into(),
                        ),
                    });
                }
            }
            if let packed::LightClientMessageUnion::SendTransactionsProof(m) = &item {
                if m.count_extra_fields() >= 2 {
                    let v1 = packed::SendTransactionsProofV1::new_unchecked(m.as_bytes());
                    let wrap1 = |v: packed::SendTransactionsProofV1| {
                        wrap(packed::SendTransactionsProof::new_unchecked(v.as_bytes()).into())
                    };
                    let uncles: Vec<_> = v1.blocks_uncles_hash().into_iter().collect();
                    for (name, v) in vec_variants(&uncles) {
                        out.push(Mutant {
                            label: format!("v1.blocks_uncles_hash:{}", name),
                            data: wrap1(v1.clone().as_builder().blocks_uncles_hash(v.pack()).build()),
                        });
                    }
                    let exts: Vec<packed::BytesOpt> = v1.blocks_extension().into_iter().collect();
                    for (name, v) in vec_variants(&exts) {
                        out.push(Mutant {
                            label: format!("v1.blocks_extension:{}", name),
                            data: wrap1(
                                v1.clone()
                                    .as_builder()
                                    .blocks_extension(packed::BytesOptVec::new_builder().set(v).build())
                                    .build(),
                            ),
                        });
                    }
                    out.push(Mutant {
                        label: "v1:strip-extra-fields".to_owned(),
                        data: wrap(
                            packed::SendTransactionsProof::new_builder()
                                .last_header(v1.last_header())
                                .proof(v1.proof())
                                .filtered_blocks(v1.filtered_blocks())
                                .missing_tx_hashes(v1.missing_tx_hashes())
                                .build()
                                .into(),
                        ),
                    });
                }
            }
        }
        Proto::Filter => {
            let msg = match packed::BlockFilterMessage::from_slice(data) {
                Ok(m) => m,
                Err(_) => return out,
            };
            let wrap = |u: packed::BlockFilterMessageUnion| {
                packed::BlockFilterMessage::new_builder().set(u).build().as_bytes()
            };
            match msg.to_enum() {
                packed::BlockFilterMessageUnion::BlockFilters(m) => {
                    let filters: Vec<_> = m.filters().into_iter().collect();
                    let hashes: Vec<_> = m.block_hashes().into_iter().collect();
                    for (name, v) in vec_variants(&filters) {
                        out.push(Mutant {
                            label: format!("filters:{}", name),
                            data: wrap(m.clone().as_builder().filters(v.pack()).build().into()),
                        });
                    }
                    for (name, v) in vec_variants(&hashes) {
                        out.push(Mutant {
                            label: format!("block_hashes:{}", name),
                            data: wrap(m.clone().as_builder().block_hashes(v.pack()).build().into()),
                        });
                    }
                    for (name, v) in vec_variants(&filters) {
                        let n = v.len().min(hashes.len());
                        out.push(Mutant {
                            label: format!("filters+hashes:{}", name),
                            data: wrap(
                                m.clone()
                                    .as_builder()
                                    .block_hashes(
                                        if name == "doubled" || name == "dup-first" {
                                            let mut h = hashes.clone();
                                            h.extend_from_slice(&hashes);
                                            h.truncate(v.len());
                                            h.pack()
                                        } else {
                                            hashes[..n].to_vec().pack()
                                        },
                                    )
                                    .filters(v.pack())
                                    .build()
                                    .into(),
                            ),
                        });
                    }
                    // garbage filter bytes (GCS decoder input)
                    for (name, bytes) in [
                        ("filter0:empty", vec![]),
                        ("filter0:ff", vec![0xffu8; 9]),
                        ("filter0:one-byte", vec![0x01u8]),
                    ] {
                        if !filters.is_empty() {
                            let mut v = filters.clone();
                            v[0] = Bytes::from(bytes).pack();
                            out.push(Mutant {
                                label: name.to_owned(),
                                data: wrap(m.clone().as_builder().filters(v.pack()).build().into()),
                            });
                        }
                    }
                }
                packed::BlockFilterMessageUnion::BlockFilterHashes(m) => {
                    let hashes: Vec<_> = m.block_filter_hashes().into_iter().collect();
                    for (name, v) in vec_variants(&hashes) {
                        out.push(Mutant {
                            label: format!("block_filter_hashes:{}", name),
                            data: wrap(
                                m.clone()
                                    .as_builder()
                                    .block_filter_hashes(v.pack())
                                    .build()
                                    .into(),
                            ),
                        });
                    }
                }
                packed::BlockFilterMessageUnion::BlockFilterCheckPoints(m) => {
                    let hashes: Vec<_> = m.block_filter_hashes().into_iter().collect();
                    for (name, v) in vec_variants(&hashes) {
                        out.push(Mutant {
                            label: format!("check_points:{}", name),
                            data: wrap(
                                m.clone()
                                    .as_builder()
                                    .block_filter_hashes(v.pack())
                                    .build()
                                    .into(),
                            ),
                        });
                    }
                }
                _ => {}
            }
        }
        _ => {}
    }
    out
}

/// One default-constructed message of every union variant of every protocol (the ones the
/// client never expects included).
pub(crate) fn all_variants() -> Vec<(crate::verif::net::Proto, String, Bytes)> {
    use crate::verif::net::Proto;
    let mut out = vec![];
    macro_rules! lc {
        ($($t:ident),*) => {$(
            out.push((Proto::LightClient, stringify!($t).to_owned(),
                packed::LightClientMessage::new_builder().set(packed::$t::default()).build().as_bytes()));
        )*};
    }
    lc!(
        GetLastState,
        SendLastState,
        GetLastStateProof,
        SendLastStateProof,
        GetBlocksProof,
        SendBlocksProof,
        GetTransactionsProof,
        SendTransactionsProof
    );
    macro_rules! bf {
        ($($t:ident),*) => {$(
            out.push((Proto::Filter, stringify!($t).to_owned(),
                packed::BlockFilterMessage::new_builder().set(packed::$t::default()).build().as_bytes()));
        )*};
    }
    bf!(
        GetBlockFilters,
        BlockFilters,
        GetBlockFilterHashes,
        BlockFilterHashes,
        GetBlockFilterCheckPoints,
        BlockFilterCheckPoints
    );
    macro_rules! sy {
        ($($t:ident),*) => {$(
            out.push((Proto::Sync, stringify!($t).to_owned(),
                packed::SyncMessage::new_builder().set(packed::$t::default()).build().as_bytes()));
        )*};
    }
    sy!(GetHeaders, SendHeaders, GetBlocks, SendBlock, InIBD);
    macro_rules! rl {
        ($($t:ident),*) => {$(
            out.push((Proto::Relay, stringify!($t).to_owned(),
                packed::RelayMessage::new_builder().set(packed::$t::default()).build().as_bytes()));
        )*};
    }
    rl!(
        CompactBlock,
        RelayTransactions,
        RelayTransactionHashes,
        GetRelayTransactions,
        GetBlockTransactions,
        BlockTransactions,
        GetBlockProposal,
        BlockProposal
    );
    out
}
