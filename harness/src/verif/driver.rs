//! Driver: closes the system. The client talks to simulated peers; every message the client sends
//! is answered by the honest responder for that peer's view and queued for delivery. Explorers
//! choose delivery order, timer ticks, clock steps, user calls and deviations.

use std::collections::VecDeque;
use std::sync::Arc;

use ckb_chain_spec::consensus::Consensus;
use ckb_network::{bytes::Bytes, PeerIndex};
use ckb_types::{packed, prelude::*};

use crate::verif::client::{self, Client, ClientCfg, Template};
use crate::verif::net::{Proto, Sent};
use crate::verif::world::{Chain, ProofVersion, View};

#[derive(Clone, Debug)]
pub(crate) struct PeerSim {
    pub id: usize,
    pub chain: usize,
    pub height: u64,
    pub version: ProofVersion,
    pub connected: bool,
    /// does not answer anything (used for timeout scenarios)
    pub silent: bool,
    /// a peer that lies consistently about filters: BlockFilters and BlockFilterHashes answers
    /// come from this (doctored) chain of the world, everything else (incl. check points) from
    /// its real chain
    pub filter_chain: Option<usize>,
    /// the full node is this many blocks ahead of the last state it announced (it answers the
    /// filter protocol - filters, filter hashes, check points - from its own tip)
    pub ahead: u64,
}

#[derive(Clone, Debug)]
pub(crate) struct InFlight {
    pub proto: Proto,
    pub peer: usize,
    pub data: Bytes,
    pub note: String,
}

pub(crate) struct World {
    pub chains: Vec<Chain>,
    pub peers: Vec<PeerSim>,
    pub filter_batch: u64,
    pub hashes_batch: u64,
    pub cp_batch: usize,
    pub cp_interval: u64,
    /// block bodies (Sync protocol answers) travel slower than everything else: they are
    /// delivered only when no other answer is in flight
    pub slow_blocks: bool,
    /// (with slow_blocks) bodies are released only at the end of a timer round that left nothing
    /// else in flight - i.e. also after exchanges that a timer starts (a proof request)
    pub very_slow_blocks: bool,
}

impl World {
    pub(crate) fn new(chains: Vec<Chain>, cp_interval: u64) -> World {
        World {
            chains,
            peers: vec![],
            filter_batch: 1000,
            hashes_batch: 2000,
            cp_batch: 2000,
            cp_interval,
            slow_blocks: false,
            very_slow_blocks: false,
        }
    }
    pub(crate) fn add_peer(&mut self, id: usize, chain: usize, height: u64) {
        self.peers.push(PeerSim {
            id,
            chain,
            height,
            version: ProofVersion::V0,
            connected: false,
            silent: false,
            filter_chain: None,
            ahead: 0,
        });
    }
    pub(crate) fn peer(&self, id: usize) -> &PeerSim {
        self.peers.iter().find(|p| p.id == id).expect("peer")
    }
    pub(crate) fn peer_mut(&mut self, id: usize) -> &mut PeerSim {
        self.peers.iter_mut().find(|p| p.id == id).expect("peer")
    }
    pub(crate) fn view(&self, id: usize) -> View<'_> {
        let p = self.peer(id);
        View::new(&self.chains[p.chain], p.height)
    }

    /// Honest answers to one message the client sent.
    pub(crate) fn respond(&self, sent: &Sent) -> Vec<InFlight> {
        let id = sent.peer.value();
        let peer = match self.peers.iter().find(|p| p.id == id) {
            Some(p) if p.connected && !p.silent => p,
            _ => return vec![],
        };
        let view = View::new(&self.chains[peer.chain], peer.height);
        let fc = &self.chains[peer.filter_chain.unwrap_or(peer.chain)];
        let filter_view = View::new(fc, (peer.height + peer.ahead).min(fc.tip_number()));
        let cp_view = View::new(&self.chains[peer.chain], (peer.height + peer.ahead).min(self.chains[peer.chain].tip_number()));
        let mut out = vec![];
        let mut push = |proto: Proto, data: Bytes, note: String| {
            out.push(InFlight {
                proto,
                peer: id,
                data,
                note,
            })
        };
        match sent.proto {
            Proto::LightClient => {
                let msg = match packed::LightClientMessage::from_slice(&sent.data) {
                    Ok(m) => m,
                    Err(_) => return vec![],
                };
                match msg.to_enum() {
                    packed::LightClientMessageUnion::GetLastState(_) => push(
                        Proto::LightClient,
                        view.send_last_state().as_bytes(),
                        format!("SendLastState({})", peer.height),
                    ),
                    packed::LightClientMessageUnion::GetLastStateProof(r) => push(
                        Proto::LightClient,
                        view.send_last_state_proof(&r).as_bytes(),
                        "SendLastStateProof".to_owned(),
                    ),
                    packed::LightClientMessageUnion::GetBlocksProof(r) => push(
                        Proto::LightClient,
                        view.send_blocks_proof(&r, peer.version).as_bytes(),
                        format!("SendBlocksProof({})", r.block_hashes().len()),
                    ),
                    packed::LightClientMessageUnion::GetTransactionsProof(r) => push(
                        Proto::LightClient,
                        view.send_transactions_proof(&r, peer.version).as_bytes(),
                        format!("SendTransactionsProof({})", r.tx_hashes().len()),
                    ),
                    _ => {}
                }
            }
            Proto::Filter => {
                let msg = match packed::BlockFilterMessage::from_slice(&sent.data) {
                    Ok(m) => m,
                    Err(_) => return vec![],
                };
                match msg.to_enum() {
                    packed::BlockFilterMessageUnion::GetBlockFilters(r) => {
                        let start: u64 = r.start_number().unpack();
                        push(
                            Proto::Filter,
                            filter_view.block_filters(start, self.filter_batch).as_bytes(),
                            format!("BlockFilters({})", start),
                        )
                    }
                    packed::BlockFilterMessageUnion::GetBlockFilterHashes(r) => {
                        let start: u64 = r.start_number().unpack();
                        push(
                            Proto::Filter,
                            filter_view.block_filter_hashes(start, self.hashes_batch).as_bytes(),
                            format!("BlockFilterHashes({})", start),
                        )
                    }
                    packed::BlockFilterMessageUnion::GetBlockFilterCheckPoints(r) => {
                        let start: u64 = r.start_number().unpack();
                        push(
                            Proto::Filter,
                            cp_view.block_filter_check_points(start, self.cp_interval, self.cp_batch)
                                .as_bytes(),
                            format!("BlockFilterCheckPoints({})", start),
                        )
                    }
                    _ => {}
                }
            }
            Proto::Sync => {
                if let Ok(msg) = packed::SyncMessage::from_slice(&sent.data) {
                    if let packed::SyncMessageUnion::GetBlocks(r) = msg.to_enum() {
                        for h in r.block_hashes().into_iter() {
                            if let Some(m) = view.send_block(&h) {
                                let n = view.chain.number_of(&h).unwrap();
                                push(Proto::Sync, m.as_bytes(), format!("SendBlock({})", n));
                            }
                        }
                    }
                }
            }
            Proto::Relay => {}
        }
        out
    }
}

pub(crate) struct Sim {
    pub client: Option<Client>,
    pub world: World,
    pub queue: VecDeque<InFlight>,
    /// answers held back by `World::slow_blocks`
    pub held: VecDeque<InFlight>,
    /// every message the client sent, in order (kept for oracles)
    pub sent_log: Vec<Sent>,
    pub trace: Vec<String>,
    pub template: Arc<Template>,
    pub consensus: Arc<Consensus>,
    pub record_trace: bool,
}

impl Sim {
    pub(crate) fn new(
        cfg: ClientCfg,
        consensus: Arc<Consensus>,
        template: Arc<Template>,
        world: World,
    ) -> Sim {
        let client = Client::fresh(cfg, Arc::clone(&consensus), &template);
        Sim {
            client: Some(client),
            world,
            queue: VecDeque::new(),
            held: VecDeque::new(),
            sent_log: vec![],
            trace: vec![],
            template,
            consensus,
            record_trace: false,
        }
    }

    /// Like `new`, but reuses the store (reset in place) of a finished simulation.
    pub(crate) fn recycle(old: Sim, cfg: ClientCfg, world: World) -> Sim {
        let Sim {
            client,
            template,
            consensus,
            ..
        } = old;
        let client = client.expect("client").recycle(cfg, &template);
        Sim {
            client: Some(client),
            world,
            queue: VecDeque::new(),
            held: VecDeque::new(),
            sent_log: vec![],
            trace: vec![],
            template,
            consensus,
            record_trace: false,
        }
    }

    pub(crate) fn c(&self) -> &Client {
        self.client.as_ref().unwrap()
    }
    pub(crate) fn cm(&mut self) -> &mut Client {
        self.client.as_mut().unwrap()
    }

    fn log(&mut self, s: String) {
        if self.record_trace {
            self.trace.push(s);
        }
    }

    /// Collects what the client sent and queues the honest answers.
    pub(crate) fn pump_out(&mut self) {
        let sent = self.c().out.take_sent();
        for s in sent {
            let answers = self.world.respond(&s);
            if self.record_trace {
                let name = describe_sent(&s);
                self.log(format!("client -> {}: {}", s.peer, name));
            }
            self.sent_log.push(s);
            for a in answers {
                if self.world.slow_blocks && a.proto == Proto::Sync {
                    self.held.push_back(a);
                } else {
                    self.queue.push_back(a);
                }
            }
        }
        if self.queue.is_empty() && !self.world.very_slow_blocks {
            self.queue.extend(self.held.drain(..));
        }
    }

    pub(crate) fn connect(&mut self, id: usize) {
        self.world.peer_mut(id).connected = true;
        self.log(format!("connect {}", id));
        self.cm().connect(PeerIndex::new(id));
        self.pump_out();
    }

    pub(crate) fn disconnect(&mut self, id: usize) {
        self.world.peer_mut(id).connected = false;
        self.log(format!("disconnect {}", id));
        self.cm().disconnect(PeerIndex::new(id));
        self.queue.retain(|m| m.peer != id);
        self.held.retain(|m| m.peer != id);
        self.pump_out();
    }

    pub(crate) fn deliver_msg(&mut self, m: InFlight) {
        self.log(format!("peer {} -> client: {}", m.peer, m.note));
        let p = PeerIndex::new(m.peer);
        match m.proto {
            Proto::LightClient => self.cm().recv_lc(p, m.data),
            Proto::Filter => self.cm().recv_filter(p, m.data),
            Proto::Sync => self.cm().recv_sync(p, m.data),
            Proto::Relay => self.cm().recv_relay(p, m.data),
        }
        self.pump_out();
    }

    pub(crate) fn deliver(&mut self, index: usize) {
        if let Some(m) = self.queue.remove(index) {
            self.deliver_msg(m);
        }
    }

    pub(crate) fn deliver_all_fifo(&mut self, cap: usize) -> usize {
        let mut n = 0;
        while !self.queue.is_empty() && n < cap {
            self.deliver(0);
            n += 1;
        }
        n
    }

    pub(crate) fn advance(&mut self, ms: u64) {
        client::set_now(client::now() + ms);
    }

    pub(crate) fn tick_all(&mut self) {
        for t in [0u64, 1, 2] {
            self.cm().tick_lc(t);
            self.pump_out();
        }
        for t in [2u64, 1, 0] {
            self.cm().tick_filter(t, true);
            self.pump_out();
        }
        if self.queue.is_empty() {
            self.queue.extend(self.held.drain(..));
        }
    }

    /// The peer's view grows (or shrinks to a fork) and, as the client subscribed, the new last
    /// state is announced.
    pub(crate) fn set_view(&mut self, id: usize, chain: usize, height: u64, announce: bool) {
        {
            let p = self.world.peer_mut(id);
            p.chain = chain;
            p.height = height;
        }
        if announce && self.world.peer(id).connected {
            let m = self.world.view(id).send_last_state();
            self.queue.push_back(InFlight {
                proto: Proto::LightClient,
                peer: id,
                data: m.as_bytes(),
                note: format!("SendLastState({}) [announce]", height),
            });
        }
    }

    pub(crate) fn quiescence_print(&self) -> [u8; 32] {
        let c = self.c();
        let mut hasher = ckb_hash::new_blake2b();
        hasher.update(&c.db_hash());
        hasher.update(c.peers.verif_dump(0).as_bytes());
        let mut out = [0u8; 32];
        hasher.finalize(&mut out);
        out
    }

    /// FIFO delivery + timer rounds until nothing is pending and nothing changes any more.
    /// Returns (rounds, deliveries, converged).
    pub(crate) fn converge(&mut self, max_rounds: usize) -> (usize, usize, bool) {
        let mut deliveries = 0;
        let mut stable = 0;
        let mut last = self.quiescence_print();
        for round in 0..max_rounds {
            deliveries += self.deliver_all_fifo(100_000);
            self.advance(10);
            self.tick_all();
            if self.queue.is_empty() {
                let now = self.quiescence_print();
                if now == last {
                    stable += 1;
                    if stable >= 2 {
                        return (round + 1, deliveries, true);
                    }
                } else {
                    stable = 0;
                }
                last = now;
            } else {
                stable = 0;
                last = self.quiescence_print();
            }
        }
        (max_rounds, deliveries, false)
    }

    pub(crate) fn restart(&mut self) {
        self.log("restart".to_owned());
        let c = self.client.take().unwrap();
        self.client = Some(c.restart());
        self.queue.clear();
        for p in self.world.peers.iter_mut() {
            p.connected = false;
        }
    }

    pub(crate) fn bans(&self) -> Vec<(PeerIndex, String)> {
        self.c().out.bans()
    }
}

pub(crate) fn describe_sent(s: &Sent) -> String {
    match s.proto {
        Proto::LightClient => match packed::LightClientMessage::from_slice(&s.data) {
            Ok(m) => match m.to_enum() {
                packed::LightClientMessageUnion::GetLastStateProof(r) => format!(
                    "GetLastStateProof(start={}, samples={}, last={:#x})",
                    Unpack::<u64>::unpack(&r.start_number()),
                    r.difficulties().len(),
                    r.last_hash()
                ),
                packed::LightClientMessageUnion::GetBlocksProof(r) => {
                    format!("GetBlocksProof({})", r.block_hashes().len())
                }
                packed::LightClientMessageUnion::GetTransactionsProof(r) => {
                    format!("GetTransactionsProof({})", r.tx_hashes().len())
                }
                other => other.item_name().to_owned(),
            },
            Err(_) => "lc:?".to_owned(),
        },
        Proto::Filter => match packed::BlockFilterMessage::from_slice(&s.data) {
            Ok(m) => match m.to_enum() {
                packed::BlockFilterMessageUnion::GetBlockFilters(r) => format!(
                    "GetBlockFilters({})",
                    Unpack::<u64>::unpack(&r.start_number())
                ),
                packed::BlockFilterMessageUnion::GetBlockFilterHashes(r) => format!(
                    "GetBlockFilterHashes({})",
                    Unpack::<u64>::unpack(&r.start_number())
                ),
                packed::BlockFilterMessageUnion::GetBlockFilterCheckPoints(r) => format!(
                    "GetBlockFilterCheckPoints({})",
                    Unpack::<u64>::unpack(&r.start_number())
                ),
                other => other.item_name().to_owned(),
            },
            Err(_) => "filter:?".to_owned(),
        },
        Proto::Sync => match packed::SyncMessage::from_slice(&s.data) {
            Ok(m) => match m.to_enum() {
                packed::SyncMessageUnion::GetBlocks(r) => {
                    format!("GetBlocks({})", r.block_hashes().len())
                }
                other => other.item_name().to_owned(),
            },
            Err(_) => "sync:?".to_owned(),
        },
        Proto::Relay => "relay".to_owned(),
    }
}
