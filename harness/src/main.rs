//! Verification harness. This crate *is* ckb-light-client: the repository's modules are included
//! verbatim from /repo/src (so every `crate::…` path, `pub(crate)` item and `#[cfg(test)]` setter
//! resolves unchanged and cargo rebuilds whenever /repo changes), plus `verif`, the machinery.
#![allow(clippy::mutable_key_type)]
#![allow(dead_code, unused_imports, unused_macros)]

#[path = "/repo/src/config.rs"]
mod config;
#[path = "/repo/src/error.rs"]
mod error;
#[path = "/repo/src/protocols/mod.rs"]
mod protocols;
#[path = "/repo/src/service.rs"]
mod service;
#[path = "/repo/src/storage.rs"]
mod storage;
#[path = "/repo/src/subcmds.rs"]
mod subcmds;
#[path = "/repo/src/types.rs"]
mod types;
#[path = "/repo/src/utils/mod.rs"]
mod utils;
#[path = "/repo/src/verify.rs"]
mod verify;
#[path = "/repo/src/verif_hooks.rs"]
mod verif_hooks;

#[cfg(test)]
mod verif;

fn main() {
    #[cfg(test)]
    std::process::exit(verif::main());
}
