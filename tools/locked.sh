#!/bin/bash
# usage: locked.sh <command...>   runs the command while holding the /repo lock of tools/try_seed.sh
exec flock /dev/shm/repo.lock "$@"
