#!/usr/bin/env python3
"""Regenerates /verif/MANIFEST.json from the table below (single source of truth)."""
import json, os, subprocess
ROOT = os.path.dirname(os.path.dirname(os.path.abspath(__file__)))
ALL = ["C%02d" % i for i in range(1, 19)]

CHECKS = {
 "C01": dict(engine="E-mut", technique="exhaustive single-site mutation of the outstanding honest SendLastStateProof in every receiver scenario, trusted-view equality oracle",
   text="For every world (chain shape, last-N, RNG seed, Dummy and easy-target Eaglesong PoW) and every receiver scenario with an outstanding proof request (first proof from genesis, new proof on the sampled / short / reorg path, and on Eaglesong a self-consistent chain whose non-tip headers fail PoW) every single-site mutant of the honest answer to the request the client itself generated is delivered to the real handler: boundary values over every byte window of width 4/8/32, every truncation, vector operators on headers and proof (drop/duplicate/swap/reverse/insert), substitution of each header by the fork twin or the neighbouring height, each also with the attacker-controlled commitments re-sealed. After every delivery the complete trusted view (per-peer prove states, stored tip, total difficulty and last-N headers, get_header over all world headers) must be byte-identical; the honest answer itself must be accepted (control), the unmined chain must be rejected, and every honest answer of every other scenario delivered in this state from the asked or an unknown peer must not change the view.",
   note="Single-site mutations (pairs are not enumerated); hash collisions excluded; Eaglesong targets are easy by construction so that PoW rejection is observable.", design="DESIGN.md §3 C01"),
 "C02": dict(engine="E-mut", technique="exhaustive single-site mutation of pending SendBlock / SendBlocksProof / SendTransactionsProof answers with a store-vs-world invariant (InvCommitted) after every delivery and after running on to quiescence",
   text="In the scenarios where a matched-blocks proof, block bodies or fetch proofs (header + transaction) are pending, with the V0 and the V1 layout, every single-site mutant (byte windows of width 4/8/32 at every offset, truncations, vector operators incl. the V1 uncles-hash / extension vectors and a V1->V0 downgrade) of the honest answer is delivered to the real handlers. After every delivery that changed anything - and, if the mutant was not banned, after dropping its honest twin and running the honest history on to quiescence - the whole store is scanned: every stored transaction, cell and history entry, header (+extension) and number->hash record must be what the proven chain contains at that place (full bytes for indexed transactions, hash for fetched ones). Every honest answer of every scenario and every block of the main and fork chains is also delivered unsolicited, from the asked and from an unknown peer, and must not change the indexed key space; the honest continuation of every scenario must converge with a committed, non-empty index.",
   note="Single-site mutations; witnesses of fetched transactions are compared by transaction hash only (the protocol gives the client only witnesses_root); hash collisions excluded.", design="DESIGN.md §3 C02"),
 "C07": dict(engine="E-grid", technique="exhaustive enumeration of peer check-point vector assignments x quorum sizes x delivery/tick schedules through the real handlers, invariants evaluated after every tick",
   text="Exhaustive grid: max_outbound 1..4 (quorum 1..2) x 1..4 proven peers (+1 unproven) x every ordered assignment of chained check-point vectors over {H,X,Y} of length <= 2 (thorough 3; the 4th peer from the short vectors) x schedules (all-then-tick, round-robin, peer-by-peer, every peer order with a tick after every chunk, restart after the first finalisation). Messages go through the real BlockFilterCheckPoints handler and REFRESH_PEERS tick. After every tick: a newly final index is backed by >= quorum proven peers agreeing on every index since the previous final one; stored check points are never rewritten and the final index never decreases (also across a restart); a proven peer contradicting the final value is banned and no agreeing peer is; >= quorum agreeing peers are never blocked by fewer than quorum shorter/different ones; unproven peers have no influence.",
   note="A banned peer is disconnected by the harness (as ckb-network does). Check point values are chained like filter hashes (a value determines its prefix). Exact ties may finalise either value.", design="DESIGN.md §3 C07"),
 "C10": dict(engine="E-mut", technique="exhaustive single-site message mutation against the real protocol handlers (stateless exploration, one fresh or recycled client per state-changing mutant)",
   text="Bounded exhaustive mutation sweep on the real handlers: for 13 receiver scenarios (real histories stopped where an honest answer is pending: no peer, connected, first/new/short/reorg proof pending, matched blocks proof/bodies pending, fetch proofs pending, check points / filter hashes / filters pending) every byte-window mutant (boundary values of width 4/8/32 at every offset), every truncation, structural vector mutants and their re-sealed twins of the pending honest answer are delivered to `received` under catch_unwind, plus the whole cross alphabet (every honest answer, structural mutant and bare union variant of all four protocols) in every scenario from a known and an unknown peer; a timer round follows every accepted message. Any panic is a violation identified by its innermost function and message class.",
   note="Dummy PoW in quick, Dummy + easy-target Eaglesong in thorough; single-site mutations (plus re-sealing); the documented long-fork panic is excluded; worker processes that die are reported as violations.", design="DESIGN.md §3 C10"),
 "C13": dict(engine="E-grid", technique="exhaustive query-grid enumeration over generated stores against a reference index and metamorphic relations",
   text="Stores are written by the real filter_block from generated blocks (4 lock scripts sharing a code hash with args '', 01, 0102, 02, a type script, several cells per block, spends incl. same-block chains). For every search script (incl. prefix searches and an unmatched one) x lock/type x every filter (script, script_len, data_len, capacity, block ranges incl. empty and inverted, two combinations) the full family of queries is run: unpaged vs a reference index built independently from the blocks, desc = reverse(asc), paging with limits 1,2(,3,5,7) in both orders = unpaged, with_data=false, get_cells_capacity = sum of get_cells + stored tip, get_transactions vs reference, grouped = adjacent grouping of ungrouped in both orders, paged grouped = unpaged grouped.",
   note="Upper end of script_len_range is not constrained (code inclusive, docs half-open). Stores: 2 (quick) / 8 (thorough) generated stores of 3-14 blocks.", design="DESIGN.md §3 C13"),
 "C14": dict(engine="E-grid", technique="exhaustive input-grid enumeration of the real functions against an exact integer reference",
   text="Exhaustive enumeration of all epoch sequences over epoch lengths {1,2,3(,4)} x block difficulties {1,2,3,4,6,8,16} whose adjacent epoch difficulties stay within tau, up to 3 (thorough 5) epoch switches, every start/end position: the real verify_tau / verify_total_difficulty must accept the true accumulated difficulty (completeness) and reject decreased totals, +-1 in one epoch or across one switch, totals beyond the exact tau envelope (x1,x2,x4,x8) and beyond the start cone; a never-abort grid of extreme epochs, targets and 256-bit totals runs under catch_unwind.",
   note="tau bound taken on epoch difficulty = block difficulty x epoch length (what the client compares); known findings (envelope approximation) are listed in known_findings.json by (class, n[,k]).", design="DESIGN.md §3 C14"),
 "C15": dict(engine="E-grid", technique="exhaustive parameter-grid enumeration through the real handler path with an owned RNG",
   text="Exhaustive grid over last-N x start (genesis / stored tip / proven state) x gap (1, N-1, N, N+1, 2N, 2N+1, 1000, 2^32, 2^63, …) x difficulty range (0, 1, gap, 100*gap, 2^64, 2^200, 2^255) x stored last-N headers x RNG seeds and forced extreme draws; each point is one round through the real handlers (re-sealed SendLastState in, GetLastStateProof observed on the wire) judged by an independent restatement of the well-formedness rules and of the FlyClient sample bound (draws counted by the RNG shim).",
   note="Announced last states are re-sealed forgeries on a Dummy-PoW consensus; sample count measured as RNG draws; a sample equal to the start difficulty is accepted only when (start, boundary) is empty.", design="DESIGN.md §3 C15"),
}
ENGINES = [
 {"name":"E-grid","path":"harness/src/verif/props/c07.rs, c13.rs, c14.rs, c15.rs","serves_properties":["C07","C13","C14","C15"],"kind_free_text":"exhaustive enumeration of a finite input / configuration grid of real functions or handler rounds against a reference"},
 {"name":"E-mut","path":"harness/src/verif/mutate.rs, props/sweep.rs, props/c01.rs, props/c02.rs, props/c10.rs","serves_properties":["C01","C02","C10"],"kind_free_text":"exhaustive single-site mutation of every honest message of a history, delivered in every receiver scenario"},
]
NOT_YET = "check under construction"

def main():
    hooks = subprocess.run(["git","-C","/repo","log","--format=%h %s"],capture_output=True,text=True).stdout.splitlines()
    hook_commits = [l.split()[0] for l in hooks if l.split(' ',1)[1].startswith('verif:')]
    checks = []
    for pid in ALL:
        if pid not in CHECKS: continue
        c = CHECKS[pid]
        checks.append({"property_id":pid,"quick_cmd":"bin/check %s quick"%pid,"thorough_cmd":"bin/check %s thorough"%pid,
            "evidence_file":"evidence/%s.json"%pid,"replay_cmd_template":"bin/check %s quick --replay {path}"%pid,
            "engine":c["engine"],"level_claimed":{"category":"model_checking","text":c["text"],"design_ref":c["design"]},
            "level_note":c["note"],"technique":c["technique"]})
    m = {"version":1,"setup_cmd":"bin/setup",
      "hooks":{"guard":"cargo feature `verif` of /repo (declared in /repo/Cargo.toml; the harness crate /verif/harness includes /repo/src by #[path] and enables the same feature)",
        "enable":"cd /verif/harness && cargo test --no-run --offline   (feature verif is a default feature of the harness crate)",
        "baseline_off_cmd":"cd /repo && cargo test --workspace --no-fail-fast --offline",
        "source_commits":hook_commits,"add_only":True},
      "engines":ENGINES,"checks":checks,
      "notes":"Harness = the repository crate itself (sources included by #[path] from /repo/src, feature verif on) + /verif/harness/src/verif. Exit codes of bin/check: 0 held / 1 VIOLATION / 2 machinery failure. Genuine defects repaired by 'fix:' commits or recorded are listed in known_findings.json.",
      "not_applicable":[{"property_id":p,"reason":NOT_YET} for p in ALL if p not in CHECKS]}
    json.dump(m, open(os.path.join(ROOT,"MANIFEST.json"),"w"), indent=1)
    print("checks:", [c["property_id"] for c in checks])
main()
