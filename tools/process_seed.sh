#!/bin/bash
# usage: process_seed.sh <name> <check id>...   confirm an agent's seed (worktree /tmp/seed-<name>), store it under
# seeded/<name>, try the quick tier of the given checks against it in isolation, remove the worktree + build output.
set -u
name="$1"; shift
mkdir -p /dev/shm/logs
[ -d /tmp/seed-$name ] || git -C /repo worktree add -q --detach /tmp/seed-$name HEAD
[ -d /tmp/confirm-target ] || cp -a /repo/target /tmp/confirm-target
CONFIRM_TARGET=/tmp/confirm-target flock /dev/shm/confirm.lock /verif/tools/confirm_seed.sh "$name" > /dev/shm/logs/confirm_$name.log 2>&1
cat /verif/seeded/$name/confirm.log
git -C /repo worktree remove --force /tmp/seed-$name 2>/dev/null
rm -rf /tmp/seed-$name-target /tmp/seed-$name-out.keep
/verif/tools/try_seed_iso.sh "$name" quick "$@"
