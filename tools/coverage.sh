#!/bin/bash
# usage: coverage.sh <tier> <ID>...    (diagnostic, not a check; nothing registered in MANIFEST.json needs it)
# Builds the harness with -C instrument-coverage in a scratch target dir, runs the given checks of
# the given tier against /repo with a scratch VERIF_ROOT (no evidence of /verif is touched), and
# prints which regions of /repo/src (non-test code) were never executed by any of them. Worker
# processes each write their own raw profile; tools/profraw2text.py sums them (the raw profiles of
# rustc 1.72.1 cannot be read by the nightly llvm-profdata directly).
set -u
tier="$1"; shift
T=${COV_TARGET:-/tmp/covtarget}
W=/dev/shm/covwork; rm -rf "$W"; mkdir -p "$W/root/evidence" "$W/raw"
cp /verif/known_findings.json "$W/root/"
cd /verif/harness || exit 2
RUSTFLAGS="-C instrument-coverage" CARGO_TARGET_DIR=$T CARGO_NET_OFFLINE=true cargo test --no-run --offline --message-format=json 2>/dev/null > "$W/build.json" || { echo build failed; exit 2; }
exe=$(python3 - "$W/build.json" <<'PY'
import json,sys
for l in open(sys.argv[1]):
    try: m=json.loads(l)
    except Exception: continue
    if m.get('reason')=='compiler-artifact' and m.get('executable'): print(m['executable'])
PY
)
exe=$(echo "$exe" | tail -1)
[ -x "$exe" ] || { echo "no executable"; exit 2; }
for id in "$@"; do
  LLVM_PROFILE_FILE="$W/raw/$id-%p.profraw" VERIF_ROOT="$W/root" VERIF_TIER=$tier VERIF_TMP=/dev/shm/covtmp-$$ "$exe" "$id" "$tier" > "$W/$id.log" 2>&1
  echo "$id exit=$? profiles=$(ls $W/raw | grep -c "^$id-")"
  rm -rf /dev/shm/covtmp-$$
done
NB=$(dirname "$(rustup which --toolchain nightly rustc)")/../lib/rustlib/x86_64-unknown-linux-gnu/bin
python3 /verif/tools/profraw2text.py "$W/all.proftext" "$W"/raw/*.profraw
"$NB/llvm-profdata" merge --text -o "$W/all.profdata" "$W/all.proftext" 2>&1 | tail -3
"$NB/llvm-profdata" merge -o "$W/all.profdata" "$W/all.proftext" || exit 2
"$NB/llvm-cov" export "$exe" -instr-profile "$W/all.profdata" -format=lcov $(find /repo/src -name '*.rs' -not -path '*/tests/*' | sed 's/^/-sources /' | tr '\n' ' ') > "$W/all.lcov" 2> "$W/cov.err"
tail -2 "$W/cov.err"
python3 - "$W/all.lcov" <<'PY'
import sys,collections
cur=None; miss=collections.defaultdict(list); tot=collections.Counter(); hit=collections.Counter()
for l in open(sys.argv[1]):
    l=l.strip()
    if l.startswith('SF:'): cur=l[3:]
    elif l.startswith('DA:'):
        n,c=l[3:].split(',')[:2]; tot[cur]+=1
        if int(c)>0: hit[cur]+=1
        else: miss[cur].append(int(n))
def ranges(ns):
    out=[]; s=p=None
    for n in ns:
        if s is None: s=p=n
        elif n==p+1: p=n
        else: out.append((s,p)); s=p=n
    if s is not None: out.append((s,p))
    return out
for f in sorted(tot):
    print('%-90s %5d/%5d' % (f.replace('/repo/src/',''), hit[f], tot[f]))
    rs=ranges(miss[f])
    if rs: print('     not executed:', ' '.join('%d-%d'%r if r[0]!=r[1] else str(r[0]) for r in rs))
PY
