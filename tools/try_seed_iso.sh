#!/bin/bash
# usage: try_seed_iso.sh <seed name> <tier> <check id>...
# Runs the checks of the CURRENT /verif working tree against a scratch copy of /repo's HEAD with the
# seeded patch applied, without touching /repo (so several seeds can be tried at once). The final
# word on a seed is still tools/try_seed.sh (patch applied to /repo itself).
set -u
name="$1"; tier="$2"; shift; shift
base=/tmp/iso-$name
rm -rf "$base"; mkdir -p "$base"
git -C /repo worktree add -q --detach "$base/repo" HEAD || exit 2
( cd "$base/repo" && git apply "/verif/seeded/$name/patch.diff" ) || { echo "patch does not apply"; git -C /repo worktree remove --force "$base/repo"; exit 2; }
mkdir -p "$base/verif"
rsync -a --exclude target --exclude .git --exclude replays --exclude evidence /verif/ "$base/verif/"
mkdir -p "$base/verif/evidence"
cp -a /verif/harness/target "$base/verif/harness/target"
sed -i "s#\"/repo/src#\"$base/repo/src#g" "$base/verif/harness/src/main.rs"
for id in "$@"; do
  out=$(cd "$base/verif" && timeout 3600 bin/check "$id" "$tier" 2>&1); code=$?
  echo "$out" > /dev/shm/logs/isofull_${name}_${id}.log; echo "--- [iso] $name vs $id ($tier): exit=$code"
  echo "$out" | grep -E "^VIOLATION|signature:|detail:|KNOWN-FINDING|MACHINERY|BUILD FAILED|^error" | cut -c1-240 | sort | uniq -c | sort -rn | head -12
done
if [ -n "${ISO_KEEP:-}" ]; then echo "kept $base"; exit 0; fi
git -C /repo worktree remove --force "$base/repo"
rm -rf "$base"
