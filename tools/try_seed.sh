#!/bin/bash
# usage: try_seed.sh <seed name> <tier> <check id>...   applies the seeded patch to /repo, runs the checks, reverts.
set -u
# one user of /repo at a time (tools/locked.sh takes the same lock)
if [ -z "${REPO_LOCKED:-}" ]; then
  export REPO_LOCKED=1
  exec flock /dev/shm/repo.lock "$0" "$@"
fi
name="$1"; tier="$2"; shift; shift
cd /repo || exit 1
[ -z "$(git status --porcelain)" ] || { echo "/repo not clean"; exit 1; }
git apply "/verif/seeded/$name/patch.diff" || { echo "patch does not apply"; exit 1; }
for id in "$@"; do
  out=$(cd /verif && timeout 1800 bin/check "$id" "$tier" 2>&1); code=$?
  echo "--- $name vs $id ($tier): exit=$code"
  echo "$out" | grep -E "^VIOLATION|signature:|KNOWN-FINDING|MACHINERY" | cut -c1-220 | head -8
done
git -C /repo checkout -- .
# the evidence files were rewritten by the runs above: restore them from clean runs
for id in "$@"; do
  (cd /verif && bin/check "$id" "$tier" > /dev/null 2>&1)
done
