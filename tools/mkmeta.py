#!/usr/bin/env python3
# usage: mkmeta.py <seed> <property> <what> <needs> <caught_by ; separated> <ran ; separated> [strengthening]
import json,sys
seed,prop,what,needs,caught,ran=sys.argv[1:7]
m={"property":prop,"what":what,"needs":needs,"caught_by":[c.strip() for c in caught.split(';') if c.strip()],"ran":[r.strip() for r in ran.split(';') if r.strip()],
   "confirmed":"existing 115 tests pass with the change; the demonstration test fails with it and passes without it (confirm.log)"}
if len(sys.argv)>7: m["strengthening"]=sys.argv[7]
json.dump(m,open(f'/verif/seeded/{seed}/meta.json','w'),indent=1); print('ok')
