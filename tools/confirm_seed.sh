#!/bin/bash
# usage: confirm_seed.sh <ID> [<name>]   (worktree /tmp/seed-<ID>, deliverables /tmp/seed-<ID>-out)
# Confirms a seeded change independently: applies patch+demo to a clean checkout of the worktree,
# runs the whole suite (existing tests must pass, demo must fail), reverts the patch (demo passes).
set -u
id="$1"; name="${2:-$1}"
wt=/tmp/seed-$id; out=/tmp/seed-$id-out; dest=/verif/seeded/$name
export CARGO_TARGET_DIR=${CONFIRM_TARGET:-/tmp/seed-$id-target}
export TMPDIR=/tmp/seed-$id-tmp; mkdir -p "$TMPDIR"
mkdir -p "$dest"
cp "$out/patch.diff" "$out/demo.diff" "$dest/" || exit 1
cp "$out/notes.md" "$dest/agent-notes.md" 2>/dev/null
cd "$wt" || exit 1
git checkout -q -- . && git clean -fdq src
git apply "$dest/patch.diff" && git apply "$dest/demo.diff" || { echo "apply failed"; exit 1; }
{
echo "== with patch + demo"
cargo test --offline 2>&1 | grep -E "^test .*(FAILED|failed)|test result" | head -20
rm -rf "$TMPDIR"; mkdir -p "$TMPDIR"
git apply -R "$dest/patch.diff"
echo "== without patch, with demo"
cargo test --offline 2>&1 | grep -E "^test .*(FAILED|failed)|test result" | head -20
rm -rf "$TMPDIR"; mkdir -p "$TMPDIR"
} | tee "$dest/confirm.log"
git checkout -q -- . && git clean -fdq src
rm -rf "$TMPDIR"
