#!/bin/bash
# Runs the repository's own test suite (guard off) and removes the temp directories it leaks.
cd "${1:-/repo}" && cargo test --workspace --no-fail-fast --offline 2>&1 | grep -E "test result|FAILED|failed|panicked" | head -20
find /tmp -maxdepth 1 -name '.tmp*' -mmin +1 -exec rm -rf {} + 2>/dev/null
exit 0
