#!/usr/bin/env python3
"""Converts LLVM raw profiles written by a rustc 1.72.1 (LLVM 16, raw version 8) binary into one
llvm-profdata *text* profile, summing the counters of all files. The only llvm-profdata / llvm-cov
in this sandbox that can read coverage maps are those of the nightly toolchain, which refuse raw
profiles of another LLVM version; the text format is version independent.
usage: profraw2text.py out.proftext a.profraw [b.profraw ...]
Used only by tools/coverage.sh (a diagnostic to find code no check reaches; not a check)."""
import hashlib, struct, sys, zlib

def uleb(b, i):
    r = s = 0
    while True:
        c = b[i]; i += 1
        r |= (c & 0x7f) << s; s += 7
        if not c & 0x80:
            return r, i

def parse(path, acc, names_acc):
    b = open(path, 'rb').read()
    if len(b) < 88:
        return
    magic, version = struct.unpack_from('<QQ', b, 0)
    assert magic == 0xff6c70726f667281, hex(magic)
    assert version & 0xffffffff == 8, version
    (bin_ids, ndata, pad0, ncnt, pad1, names_size, cdelta, _ndelta, _vk) = struct.unpack_from('<9Q', b, 16)
    off = 88 + bin_ids + (-bin_ids % 8)
    data_off = off
    cnt_off = data_off + ndata * 48 + pad0
    names_off = cnt_off + ncnt * 8 + pad1
    names = b[names_off:names_off + names_size]
    i = 0
    while i < len(names):
        ulen, i = uleb(names, i)
        clen, i = uleb(names, i)
        if clen:
            chunk = zlib.decompress(names[i:i + clen]); i += clen
        else:
            chunk = names[i:i + ulen]; i += ulen
        for n in chunk.split(b'\x01'):
            h = struct.unpack('<Q', hashlib.md5(n).digest()[:8])[0]
            names_acc[h] = n.decode()
        while i < len(names) and names[i] == 0:
            i += 1
    for k in range(ndata):
        nameref, fhash, cptr, _fp, _vals, n, _s0, _s1 = struct.unpack_from('<QQqQQIHH', b, data_off + k * 48)
        rel = (cptr - cdelta) & 0xffffffffffffffff
        if rel >= 1 << 63:
            rel -= 1 << 64
        cdelta = (cdelta - 48) & 0xffffffffffffffff
        base = cnt_off + rel
        cs = struct.unpack_from('<%dQ' % n, b, base)
        key = (nameref, fhash, n)
        if key in acc:
            acc[key] = [x + y for x, y in zip(acc[key], cs)]
        else:
            acc[key] = list(cs)

def main():
    out = sys.argv[1]
    acc, names = {}, {}
    bad = 0
    for p in sys.argv[2:]:
        try:
            parse(p, acc, names)
        except Exception as e:
            bad += 1
            print('skip', p, e, file=sys.stderr)
    with open(out, 'w') as f:
        for (nameref, fhash, n), cs in acc.items():
            name = names.get(nameref)
            if name is None:
                continue
            f.write('%s\n%d\n%d\n' % (name, fhash, n))
            for c in cs:
                f.write('%d\n' % min(c, (1 << 63) - 1))
            f.write('\n')
    print('functions', len(acc), 'files', len(sys.argv) - 2, 'unreadable', bad, file=sys.stderr)

main()
